#![feature(rustc_private)]
#![allow(clippy::all)]
extern crate rustc_abi;
extern crate rustc_ast;
extern crate rustc_driver;
extern crate rustc_hir;
extern crate rustc_interface;
extern crate rustc_middle;
extern crate rustc_span;

use std::fmt::Write as _;

use rustc_driver::Compilation;
use rustc_hir as hir;
use rustc_hir::def::{DefKind, Res};
use rustc_hir::intravisit::{self, Visitor};
use rustc_middle::mir::{
    self, AggregateKind, AssertKind, Operand, Place, Rvalue, StatementKind, TerminatorKind,
};
use rustc_middle::ty::{self, TyCtxt};
use rustc_span::Span;

// ---------------------------------------------------------------- tiny JSON
#[derive(Clone)]
enum J {
    Null,
    B(bool),
    N(i128),
    S(String),
    A(Vec<J>),
    O(Vec<(&'static str, J)>),
}
fn esc(s: &str, out: &mut String) {
    out.push('"');
    for c in s.chars() {
        match c {
            '"' => out.push_str("\\\""),
            '\\' => out.push_str("\\\\"),
            '\n' => out.push_str("\\n"),
            '\r' => out.push_str("\\r"),
            '\t' => out.push_str("\\t"),
            c if (c as u32) < 0x20 => {
                let _ = write!(out, "\\u{:04x}", c as u32);
            }
            c => out.push(c),
        }
    }
    out.push('"');
}
impl J {
    fn write(&self, out: &mut String) {
        match self {
            J::Null => out.push_str("null"),
            J::B(b) => out.push_str(if *b { "true" } else { "false" }),
            J::N(n) => {
                let _ = write!(out, "{n}");
            }
            J::S(s) => esc(s, out),
            J::A(v) => {
                out.push('[');
                for (i, x) in v.iter().enumerate() {
                    if i > 0 {
                        out.push(',');
                    }
                    x.write(out);
                }
                out.push(']');
            }
            J::O(v) => {
                out.push('{');
                for (i, (k, x)) in v.iter().enumerate() {
                    if i > 0 {
                        out.push(',');
                    }
                    esc(k, out);
                    out.push(':');
                    x.write(out);
                }
                out.push('}');
            }
        }
    }
}
fn s(x: impl Into<String>) -> J {
    J::S(x.into())
}

// ---------------------------------------------------------------- helpers
fn loc(tcx: TyCtxt<'_>, span: Span) -> J {
    let sm = tcx.sess.source_map();
    let cs = span.source_callsite();
    let p = sm.lookup_char_pos(cs.lo());
    let file = format!("{}", p.file.name.prefer_local_unconditionally());
    J::O(vec![
        ("file", s(file)),
        ("line", J::N(p.line as i128)),
        ("exp", J::B(span.from_expansion())),
    ])
}

struct Ex<'a, 'tcx> {
    tcx: TyCtxt<'tcx>,
    body: &'a mir::Body<'tcx>,
    def: rustc_hir::def_id::LocalDefId,
}

impl<'a, 'tcx> Ex<'a, 'tcx> {
    fn place(&self, p: &Place<'tcx>) -> J {
        let tcx = self.tcx;
        let mut proj = Vec::new();
        for (base, elem) in p.iter_projections() {
            let bty = base.ty(&self.body.local_decls, tcx);
            let j = match elem {
                mir::ProjectionElem::Deref => s("*"),
                mir::ProjectionElem::Field(f, _) => {
                    let name = match bty.ty.kind() {
                        ty::Adt(adt, _) => {
                            let v = bty.variant_index.unwrap_or(rustc_abi::FIRST_VARIANT);
                            if adt.is_enum() && bty.variant_index.is_none() {
                                format!("{}", f.index())
                            } else {
                                adt.variant(v).fields[f].name.to_string()
                            }
                        }
                        _ => format!("{}", f.index()),
                    };
                    J::O(vec![("f", s(name)), ("of", s(format!("{}", bty.ty)))])
                }
                mir::ProjectionElem::Downcast(name, idx) => J::O(vec![(
                    "as",
                    s(name.map(|n| n.to_string()).unwrap_or_else(|| format!("{}", idx.index()))),
                )]),
                mir::ProjectionElem::Index(l) => J::O(vec![("idx", J::N(l.index() as i128))]),
                mir::ProjectionElem::ConstantIndex { offset, from_end, .. } => {
                    J::O(vec![("cidx", J::N(offset as i128)), ("from_end", J::B(from_end))])
                }
                other => s(format!("{other:?}")),
            };
            proj.push(j);
        }
        J::O(vec![("l", J::N(p.local.index() as i128)), ("p", J::A(proj))])
    }

    fn operand(&self, o: &Operand<'tcx>) -> J {
        match o {
            Operand::Copy(p) => J::O(vec![("copy", self.place(p))]),
            Operand::Move(p) => J::O(vec![("move", self.place(p))]),
            Operand::Constant(c) => {
                let ty = c.const_.ty();
                let mut v = vec![("const", s(format!("{}", c.const_))), ("ty", s(format!("{ty}")))];
                if let ty::FnDef(did, _) = ty.kind() {
                    v.push(("fn", s(self.tcx.def_path_str(*did))));
                }
                // pointer to a static item: name it
                if let mir::Const::Val(mir::ConstValue::Scalar(rustc_middle::mir::interpret::Scalar::Ptr(ptr, _)), _) = c.const_ {
                    let aid = ptr.provenance.alloc_id();
                    if let Some(rustc_middle::mir::interpret::GlobalAlloc::Static(did)) = self.tcx.try_get_global_alloc(aid) {
                        v.push(("static", s(self.tcx.def_path_str(did))));
                    }
                }
                let env = ty::TypingEnv::post_analysis(self.tcx, self.def.to_def_id());
                if ty.is_integral() || ty.is_bool() || ty.is_char() {
                    if let Some(si) = c.const_.try_eval_scalar_int(self.tcx, env) {
                        let bits = si.to_bits_unchecked();
                        v.push(("int", J::N(bits as i128)));
                    }
                }
                J::O(v)
            }
            #[allow(unreachable_patterns)]
            other => s(format!("{other:?}")),
        }
    }

    fn rvalue(&self, r: &Rvalue<'tcx>) -> J {
        match r {
            Rvalue::Use(o, ..) => J::O(vec![("k", s("use")), ("a", self.operand(o))]),
            Rvalue::BinaryOp(op, ab) => J::O(vec![
                ("k", s("bin")),
                ("op", s(format!("{op:?}"))),
                ("a", self.operand(&ab.0)),
                ("b", self.operand(&ab.1)),
            ]),
            Rvalue::UnaryOp(op, a) => {
                J::O(vec![("k", s("un")), ("op", s(format!("{op:?}"))), ("a", self.operand(a))])
            }
            Rvalue::Discriminant(p) => {
                let pty = p.ty(&self.body.local_decls, self.tcx).ty;
                let mut vars = Vec::new();
                if let ty::Adt(adt, _) = pty.kind() {
                    if adt.is_enum() {
                        for (vi, d) in adt.discriminants(self.tcx) {
                            vars.push(J::A(vec![
                                J::N(d.val as i128),
                                s(adt.variant(vi).name.to_string()),
                            ]));
                        }
                    }
                }
                J::O(vec![
                    ("k", s("discr")),
                    ("of", self.place(p)),
                    ("ty", s(format!("{pty}"))),
                    ("vars", J::A(vars)),
                ])
            }
            Rvalue::Ref(_, bk, p) => {
                J::O(vec![("k", s("ref")), ("bk", s(format!("{bk:?}"))), ("of", self.place(p))])
            }
            Rvalue::RawPtr(_, p) => J::O(vec![("k", s("rawptr")), ("of", self.place(p))]),
            Rvalue::Aggregate(kind, ops) => {
                let (what, variant) = match &**kind {
                    AggregateKind::Adt(did, vi, ..) => {
                        let adt = self.tcx.adt_def(*did);
                        (self.tcx.def_path_str(*did), adt.variant(*vi).name.to_string())
                    }
                    AggregateKind::Tuple => ("(tuple)".to_string(), String::new()),
                    AggregateKind::Closure(did, _) => {
                        (format!("closure:{}", self.tcx.def_path_str(*did)), String::new())
                    }
                    other => (format!("{other:?}"), String::new()),
                };
                J::O(vec![
                    ("k", s("agg")),
                    ("adt", s(what)),
                    ("variant", s(variant)),
                    ("ops", J::A(ops.iter().map(|o| self.operand(o)).collect())),
                ])
            }
            Rvalue::Cast(kind, o, ty) => J::O(vec![
                ("k", s("cast")),
                ("ck", s(format!("{kind:?}"))),
                ("a", self.operand(o)),
                ("ty", s(format!("{ty}"))),
            ]),
            Rvalue::CopyForDeref(p) => J::O(vec![("k", s("use")), ("a", J::O(vec![("copy", self.place(p))]))]),
            other => J::O(vec![("k", s("other")), ("dbg", s(format!("{other:?}")))]),
        }
    }

    fn body_json(&self) -> J {
        let tcx = self.tcx;
        let body = self.body;
        let mut names: Vec<Option<String>> = vec![None; body.local_decls.len()];
        for vdi in &body.var_debug_info {
            if let mir::VarDebugInfoContents::Place(p) = &vdi.value {
                if p.projection.is_empty() {
                    names[p.local.index()] = Some(vdi.name.to_string());
                }
            }
        }
        let locals: Vec<J> = body
            .local_decls
            .iter_enumerated()
            .map(|(l, d)| {
                J::O(vec![
                    ("ty", s(format!("{}", d.ty))),
                    ("name", names[l.index()].clone().map(J::S).unwrap_or(J::Null)),
                ])
            })
            .collect();
        let mut blocks = Vec::new();
        for (_bb, data) in body.basic_blocks.iter_enumerated() {
            let mut stmts = Vec::new();
            for st in &data.statements {
                if let StatementKind::Assign(bx) = &st.kind {
                    let (lhs, rv) = &**bx;
                    stmts.push(J::O(vec![
                        ("lhs", self.place(lhs)),
                        ("rv", self.rvalue(rv)),
                        ("at", loc(tcx, st.source_info.span)),
                    ]));
                }
            }
            let term = data.terminator();
            let tj = match &term.kind {
                TerminatorKind::Goto { target } => {
                    J::O(vec![("k", s("goto")), ("t", J::N(target.index() as i128))])
                }
                TerminatorKind::SwitchInt { discr, targets } => {
                    let mut ts = Vec::new();
                    for (v, t) in targets.iter() {
                        ts.push(J::A(vec![J::N(v as i128), J::N(t.index() as i128)]));
                    }
                    J::O(vec![
                        ("k", s("switch")),
                        ("d", self.operand(discr)),
                        ("ts", J::A(ts)),
                        ("else", J::N(targets.otherwise().index() as i128)),
                    ])
                }
                TerminatorKind::Return => J::O(vec![("k", s("return"))]),
                TerminatorKind::Unreachable => J::O(vec![("k", s("unreachable"))]),
                TerminatorKind::Drop { place, target, .. } => J::O(vec![
                    ("k", s("drop")),
                    ("of", self.place(place)),
                    ("t", J::N(target.index() as i128)),
                ]),
                TerminatorKind::Call { func, args, destination, target, .. } => {
                    let mut v = vec![("k", s("call"))];
                    if let Some((did, gargs)) = func.const_fn_def() {
                        v.push(("callee", s(tcx.def_path_str(did))));
                        v.push((
                            "gargs",
                            J::A(gargs.iter().map(|a| s(format!("{a}"))).collect()),
                        ));
                        let env = ty::TypingEnv::post_analysis(tcx, self.def.to_def_id());
                        if let Ok(Some(inst)) = ty::Instance::try_resolve(tcx, env, did, gargs) {
                            v.push(("res", s(tcx.def_path_str(inst.def_id()))));
                            v.push((
                                "res_args",
                                J::A(inst.args.iter().map(|a| s(format!("{a}"))).collect()),
                            ));
                        }
                        let sig = tcx.fn_sig(did).skip_binder();
                        v.push(("unsafe", J::B(sig.safety().is_unsafe())));
                    } else {
                        v.push(("indirect", self.operand(func)));
                    }
                    v.push(("args", J::A(args.iter().map(|a| self.operand(&a.node)).collect())));
                    v.push(("dest", self.place(destination)));
                    v.push((
                        "t",
                        target.map(|t| J::N(t.index() as i128)).unwrap_or(J::Null),
                    ));
                    J::O(v)
                }
                TerminatorKind::Assert { cond, expected, msg, target, .. } => {
                    let (kind, ops): (String, Vec<J>) = match &**msg {
                        AssertKind::BoundsCheck { len, index } => {
                            ("BoundsCheck".into(), vec![self.operand(len), self.operand(index)])
                        }
                        AssertKind::Overflow(op, a, b) => {
                            (format!("Overflow{op:?}"), vec![self.operand(a), self.operand(b)])
                        }
                        AssertKind::OverflowNeg(a) => ("OverflowNeg".into(), vec![self.operand(a)]),
                        AssertKind::DivisionByZero(a) => ("DivisionByZero".into(), vec![self.operand(a)]),
                        AssertKind::RemainderByZero(a) => ("RemainderByZero".into(), vec![self.operand(a)]),
                        other => {
                            let d = format!("{other:?}");
                            let short: String = d.chars().take_while(|c| c.is_alphanumeric()).collect();
                            (short, vec![])
                        }
                    };
                    J::O(vec![
                        ("k", s("assert")),
                        ("cond", self.operand(cond)),
                        ("expected", J::B(*expected)),
                        ("kind", s(kind)),
                        ("ops", J::A(ops)),
                        ("t", J::N(target.index() as i128)),
                    ])
                }
                other => J::O(vec![("k", s("other")), ("dbg", s(format!("{other:?}")))]),
            };
            blocks.push(J::O(vec![
                ("s", J::A(stmts)),
                ("t", tj),
                ("at", loc(tcx, term.source_info.span)),
                ("cleanup", J::B(data.is_cleanup)),
            ]));
        }
        J::O(vec![
            ("locals", J::A(locals)),
            ("argc", J::N(body.arg_count as i128)),
            ("blocks", J::A(blocks)),
        ])
    }
}

// ---------------------------------------------------------------- HIR matches
struct MatchV<'tcx> {
    tcx: TyCtxt<'tcx>,
    typeck: &'tcx ty::TypeckResults<'tcx>,
    out: Vec<J>,
    ifs: Vec<J>,
}

impl<'tcx> MatchV<'tcx> {
    fn qres(&self, qpath: &hir::QPath<'tcx>, id: hir::HirId) -> String {
        match self.typeck.qpath_res(qpath, id) {
            Res::Def(_, did) => self.tcx.def_path_str(did),
            Res::SelfCtor(did) => self.tcx.def_path_str(did),
            other => format!("{other:?}"),
        }
    }
    fn pat(&self, p: &hir::Pat<'tcx>) -> J {
        use hir::PatKind as K;
        match &p.kind {
            K::Wild => J::O(vec![("k", s("_"))]),
            K::Binding(_, _, ident, sub) => J::O(vec![
                ("k", s("bind")),
                ("name", s(ident.name.to_string())),
                ("sub", sub.map(|x| self.pat(x)).unwrap_or(J::Null)),
            ]),
            K::TupleStruct(q, pats, ddpos) => J::O(vec![
                ("k", s("ctor")),
                ("path", s(self.qres(q, p.hir_id))),
                ("subs", J::A(pats.iter().map(|x| self.pat(x)).collect())),
                ("dd", ddpos.as_opt_usize().map(|n| J::N(n as i128)).unwrap_or(J::Null)),
            ]),
            K::Struct(q, fields, rest) => J::O(vec![
                ("k", s("struct")),
                ("path", s(self.qres(q, p.hir_id))),
                (
                    "fields",
                    J::A(fields
                        .iter()
                        .map(|f| J::A(vec![s(f.ident.name.to_string()), self.pat(f.pat)]))
                        .collect()),
                ),
                ("rest", J::B(rest.is_some())),
            ]),
            K::Or(pats) => J::O(vec![("k", s("or")), ("subs", J::A(pats.iter().map(|x| self.pat(x)).collect()))]),
            K::Tuple(pats, ddpos) => J::O(vec![
                ("k", s("tuple")),
                ("subs", J::A(pats.iter().map(|x| self.pat(x)).collect())),
                ("dd", ddpos.as_opt_usize().map(|n| J::N(n as i128)).unwrap_or(J::Null)),
            ]),
            K::Ref(x, ..) | K::Box(x) | K::Deref(x) => self.pat(x),
            K::Expr(e) => match &e.kind {
                hir::PatExprKind::Lit { lit, negated } => J::O(vec![
                    ("k", s("lit")),
                    ("v", s(format!("{:?}", lit.node))),
                    ("neg", J::B(*negated)),
                ]),
                hir::PatExprKind::Path(q) => {
                    J::O(vec![("k", s("path")), ("path", s(self.qres(q, e.hir_id)))])
                }
            },
            other => J::O(vec![("k", s("other")), ("dbg", s(format!("{other:?}").chars().take(80).collect::<String>()))]),
        }
    }
    fn span4(&self, sp: Span) -> J {
        let sm = self.tcx.sess.source_map();
        let lo = sm.lookup_char_pos(sp.lo());
        let hi = sm.lookup_char_pos(sp.hi());
        J::A(vec![
            J::N(lo.line as i128),
            J::N(lo.col.0 as i128),
            J::N(hi.line as i128),
            J::N(hi.col.0 as i128),
        ])
    }
    fn calls_in(&self, e: &'tcx hir::Expr<'tcx>) -> J {
        let mut cc = CallCollect { mv: self, calls: vec![] };
        cc.visit_expr(e);
        J::A(cc.calls)
    }
    fn hexpr(&self, e: &'tcx hir::Expr<'tcx>, depth: usize) -> J {
        use hir::ExprKind as K;
        if depth == 0 {
            return J::O(vec![("k", s("deep")), ("snip", s(self.snippet(e.span, 80)))]);
        }
        let d = depth - 1;
        match &e.kind {
            K::Path(q) => {
                let r = match self.typeck.qpath_res(q, e.hir_id) {
                    Res::Local(hid) => format!("local:{}", self.tcx.hir_name(hid)),
                    Res::Def(_, did) => self.tcx.def_path_str(did),
                    Res::SelfCtor(did) => self.tcx.def_path_str(did),
                    other => format!("{other:?}"),
                };
                J::O(vec![("k", s("path")), ("res", s(r))])
            }
            K::Lit(l) => J::O(vec![("k", s("lit")), ("v", s(format!("{:?}", l.node)))]),
            K::Binary(op, l, r) => J::O(vec![
                ("k", s("bin")),
                ("op", s(format!("{:?}", op.node))),
                ("l", self.hexpr(l, d)),
                ("r", self.hexpr(r, d)),
            ]),
            K::Unary(op, x) => J::O(vec![
                ("k", s("un")),
                ("op", s(format!("{op:?}"))),
                ("e", self.hexpr(x, d)),
            ]),
            K::Call(f, args) => J::O(vec![
                ("k", s("call")),
                ("f", self.hexpr(f, d)),
                ("args", J::A(args.iter().map(|a| self.hexpr(a, d)).collect())),
            ]),
            K::MethodCall(seg, recv, args, _) => J::O(vec![
                ("k", s("mcall")),
                ("name", s(seg.ident.name.to_string())),
                (
                    "def",
                    self.typeck
                        .type_dependent_def_id(e.hir_id)
                        .map(|d| s(self.tcx.def_path_str(d)))
                        .unwrap_or(J::Null),
                ),
                ("recv", self.hexpr(recv, d)),
                ("args", J::A(args.iter().map(|a| self.hexpr(a, d)).collect())),
            ]),
            K::Field(x, ident) => J::O(vec![
                ("k", s("field")),
                ("e", self.hexpr(x, d)),
                ("name", s(ident.name.to_string())),
            ]),
            K::AddrOf(_, _, x) => J::O(vec![("k", s("ref")), ("e", self.hexpr(x, d))]),
            K::DropTemps(x) => self.hexpr(x, depth),
            K::Cast(x, _) => J::O(vec![
                ("k", s("cast")),
                ("e", self.hexpr(x, d)),
                ("ty", s(format!("{}", self.typeck.expr_ty(e)))),
            ]),
            K::Tup(es) => J::O(vec![
                ("k", s("tup")),
                ("es", J::A(es.iter().map(|a| self.hexpr(a, d)).collect())),
            ]),
            K::Array(es) => J::O(vec![
                ("k", s("array")),
                ("es", J::A(es.iter().map(|a| self.hexpr(a, d)).collect())),
            ]),
            K::Index(a, b, _) => J::O(vec![
                ("k", s("index")),
                ("e", self.hexpr(a, d)),
                ("i", self.hexpr(b, d)),
            ]),
            K::Struct(q, fields, _) => J::O(vec![
                ("k", s("struct")),
                ("path", s(self.qres(q, e.hir_id))),
                (
                    "fields",
                    J::A(fields
                        .iter()
                        .map(|f| J::A(vec![s(f.ident.name.to_string()), self.hexpr(f.expr, d)]))
                        .collect()),
                ),
            ]),
            K::Block(b, _) => {
                if b.stmts.is_empty() {
                    match b.expr {
                        Some(x) => self.hexpr(x, depth),
                        None => J::O(vec![("k", s("unit"))]),
                    }
                } else {
                    J::O(vec![
                        ("k", s("block")),
                        ("n", J::N(b.stmts.len() as i128)),
                        ("tail", b.expr.map(|x| self.hexpr(x, d)).unwrap_or(J::Null)),
                        ("snip", s(self.snippet(e.span, 80))),
                    ])
                }
            }
            K::Let(l) => J::O(vec![
                ("k", s("let")),
                ("pat", self.pat(l.pat)),
                ("init", self.hexpr(l.init, d)),
            ]),
            K::Ret(x) => J::O(vec![
                ("k", s("ret")),
                ("e", x.map(|x| self.hexpr(x, d)).unwrap_or(J::Null)),
            ]),
            K::Match(..) => J::O(vec![("k", s("match")), ("span", self.span4(e.span))]),
            K::If(..) => J::O(vec![("k", s("if")), ("span", self.span4(e.span))]),
            K::Closure(..) => J::O(vec![("k", s("closure")), ("snip", s(self.snippet(e.span, 80)))]),
            _ => J::O(vec![("k", s("other")), ("snip", s(self.snippet(e.span, 80)))]),
        }
    }
    fn snippet(&self, sp: Span, max: usize) -> String {
        let t = self.tcx.sess.source_map().span_to_snippet(sp).unwrap_or_default();
        t.chars().take(max).collect()
    }
}

struct CallCollect<'a, 'tcx> {
    mv: &'a MatchV<'tcx>,
    calls: Vec<J>,
}
impl<'a, 'tcx> Visitor<'tcx> for CallCollect<'a, 'tcx> {
    fn visit_expr(&mut self, e: &'tcx hir::Expr<'tcx>) {
        match &e.kind {
            hir::ExprKind::MethodCall(..) => {
                if let Some(did) = self.mv.typeck.type_dependent_def_id(e.hir_id) {
                    self.calls.push(s(self.mv.tcx.def_path_str(did)));
                }
            }
            hir::ExprKind::Call(f, _) => {
                if let hir::ExprKind::Path(q) = &f.kind {
                    self.calls.push(s(self.mv.qres(q, f.hir_id)));
                }
            }
            _ => {}
        }
        intravisit::walk_expr(self, e);
    }
}

impl<'tcx> Visitor<'tcx> for MatchV<'tcx> {
    fn visit_expr(&mut self, e: &'tcx hir::Expr<'tcx>) {
        if let hir::ExprKind::Match(scrut, arms, src) = &e.kind {
            let mut aj = Vec::new();
            for arm in *arms {
                let mut cc = CallCollect { mv: self, calls: vec![] };
                cc.visit_expr(arm.body);
                let calls = cc.calls;
                aj.push(J::O(vec![
                    ("pat", self.pat(arm.pat)),
                    ("guard", arm.guard.map(|g| s(self.snippet(g.span, 200))).unwrap_or(J::Null)),
                    ("guard_tree", arm.guard.map(|g| self.hexpr(g, 6)).unwrap_or(J::Null)),
                    ("body", s(self.snippet(arm.body.span, 160))),
                    ("body_tree", self.hexpr(arm.body, 5)),
                    ("body_span", self.span4(arm.body.span)),
                    ("calls", J::A(calls)),
                    ("at", loc(self.tcx, arm.span)),
                ]));
            }
            self.out.push(J::O(vec![
                ("at", loc(self.tcx, e.span)),
                ("src", s(format!("{src:?}"))),
                ("scrut", s(self.snippet(scrut.span, 120))),
                ("scrut_tree", self.hexpr(scrut, 5)),
                ("scrut_ty", s(format!("{}", self.typeck.expr_ty(scrut)))),
                ("span", self.span4(e.span)),
                ("arms", J::A(aj)),
            ]));
        }
        if let hir::ExprKind::If(cond, then, els) = &e.kind {
            self.ifs.push(J::O(vec![
                ("at", loc(self.tcx, e.span)),
                ("span", self.span4(e.span)),
                ("cond", self.hexpr(cond, 8)),
                ("then_calls", self.calls_in(then)),
                ("then_span", self.span4(then.span)),
                ("then_tree", self.hexpr(then, 4)),
                ("else_calls", els.map(|x| self.calls_in(x)).unwrap_or(J::Null)),
                ("else_span", els.map(|x| self.span4(x.span)).unwrap_or(J::Null)),
                ("else_tree", els.map(|x| self.hexpr(x, 4)).unwrap_or(J::Null)),
            ]));
        }
        intravisit::walk_expr(self, e);
    }
}

// ---------------------------------------------------------------- driver
struct Cb;
impl rustc_driver::Callbacks for Cb {
    fn after_analysis<'tcx>(
        &mut self,
        _c: &rustc_interface::interface::Compiler,
        tcx: TyCtxt<'tcx>,
    ) -> Compilation {
        let krate = tcx.crate_name(rustc_hir::def_id::LOCAL_CRATE).to_string();
        let want = std::env::var("NSX_CRATES").unwrap_or_default();
        if !want.split(',').any(|c| c == krate) {
            return Compilation::Continue;
        }
        let mut fns = Vec::new();
        for def in tcx.hir_body_owners() {
            let kind = tcx.def_kind(def);
            if !matches!(kind, DefKind::Fn | DefKind::AssocFn | DefKind::Closure) {
                continue;
            }
            let body: &mir::Body<'tcx> = tcx.optimized_mir(def.to_def_id());
            let ex = Ex { tcx, body, def };
            let typeck = tcx.typeck(def);
            let mut mv = MatchV { tcx, typeck, out: vec![], ifs: vec![] };
            let hbody = tcx.hir_body_owned_by(def);
            mv.visit_expr(hbody.value);
            let is_unsafe = if matches!(kind, DefKind::Closure) {
                false
            } else {
                tcx.fn_sig(def.to_def_id()).skip_binder().safety().is_unsafe()
            };
            let vis = if matches!(kind, DefKind::Closure) {
                "closure".to_string()
            } else {
                format!("{:?}", tcx.visibility(def.to_def_id()))
            };
            let parent = tcx
                .opt_parent(def.to_def_id())
                .map(|p| tcx.def_path_str(p))
                .unwrap_or_default();
            let mut promoted = Vec::new();
            for (_pi, pbody) in tcx.promoted_mir(def.to_def_id()).iter_enumerated() {
                let pex = Ex { tcx, body: pbody, def };
                promoted.push(pex.body_json());
            }
            fns.push(J::O(vec![
                ("promoted", J::A(promoted)),
                ("id", s(tcx.def_path_str(def.to_def_id()))),
                ("kind", s(format!("{kind:?}"))),
                ("unsafe", J::B(is_unsafe)),
                ("at", loc(tcx, tcx.def_span(def.to_def_id()))),
                ("mir", ex.body_json()),
                ("matches", J::A(mv.out)),
                ("ifs", J::A(mv.ifs)),
                ("vis", s(vis)),
                ("parent", s(parent)),
            ]));
        }
        // consts and statics
        let mut consts = Vec::new();
        let mut statics = Vec::new();
        for id in tcx.hir_crate_items(()).definitions() {
            let did = id.to_def_id();
            match tcx.def_kind(id) {
                DefKind::Const { .. } | DefKind::AssocConst { .. } => {
                    let ty = tcx.type_of(did).instantiate_identity().skip_norm_wip();
                    let mut entry = vec![("id", s(tcx.def_path_str(did))), ("ty", s(format!("{ty}")))];
                    // the initialiser as a resolved expression tree (tables of names and variants)
                    if let Some(hbody) = tcx.hir_maybe_body_owned_by(id) {
                        let typeck = tcx.typeck(id);
                        let mv = MatchV { tcx, typeck, out: vec![], ifs: vec![] };
                        entry.push(("tree", mv.hexpr(hbody.value, 6)));
                    }
                    if tcx.generics_of(did).count() == 0 {
                        if let Ok(raw) = tcx.const_eval_poly_to_alloc(did) {
                            let alloc = tcx.global_alloc(raw.alloc_id).unwrap_memory();
                            let inner = alloc.inner();
                            let n = inner.len();
                            if n <= 4096 {
                                let bytes = inner.inspect_with_uninit_and_ptr_outside_interpreter(0..n);
                                let hex: String = bytes.iter().map(|b| format!("{b:02x}")).collect();
                                entry.push(("bytes", s(hex)));
                                if let ty::Adt(adt, gargs) = ty.kind() {
                                    if adt.is_struct() {
                                        let env = ty::TypingEnv::post_analysis(tcx, did);
                                        if let Ok(layout) = tcx.layout_of(env.as_query_input(ty)) {
                                            let mut fl = Vec::new();
                                            for (i, f) in adt.non_enum_variant().fields.iter().enumerate() {
                                                let fty = f.ty(tcx, gargs);
                                                let off = layout.fields.offset(i).bytes();
                                                let sz = tcx
                                                    .layout_of(env.as_query_input(fty))
                                                    .map(|l| l.size.bytes())
                                                    .unwrap_or(0);
                                                fl.push(J::A(vec![
                                                    s(f.name.to_string()),
                                                    s(format!("{fty}")),
                                                    J::N(off as i128),
                                                    J::N(sz as i128),
                                                ]));
                                            }
                                            entry.push(("layout", J::A(fl)));
                                        }
                                    }
                                }
                            }
                        }
                    }
                    consts.push(J::O(entry));
                }
                DefKind::Static { mutability, .. } => {
                    let ty = tcx.type_of(did).instantiate_identity().skip_norm_wip();
                    let freeze = ty.is_freeze(tcx, ty::TypingEnv::post_analysis(tcx, did));
                    statics.push(J::O(vec![
                        ("id", s(tcx.def_path_str(did))),
                        ("ty", s(format!("{ty}"))),
                        ("mut", J::B(mutability.is_mut())),
                        ("freeze", J::B(freeze)),
                        ("at", loc(tcx, tcx.def_span(did))),
                    ]));
                }
                _ => {}
            }
        }
        // ADTs of the crate
        let mut adts = Vec::new();
        for id in tcx.hir_crate_items(()).definitions() {
            let did = id.to_def_id();
            if !matches!(tcx.def_kind(id), DefKind::Struct | DefKind::Enum | DefKind::Union) {
                continue;
            }
            let adt = tcx.adt_def(did);
            let mut variants = Vec::new();
            let discrs: Vec<(rustc_abi::VariantIdx, u128)> = if adt.is_enum() {
                adt.discriminants(tcx).map(|(vi, d)| (vi, d.val)).collect()
            } else {
                vec![]
            };
            for (vi, v) in adt.variants().iter_enumerated() {
                let d = discrs.iter().find(|(i, _)| *i == vi).map(|(_, d)| *d as i128).unwrap_or(0);
                let fields: Vec<J> = v
                    .fields
                    .iter()
                    .map(|f| {
                        let fty = tcx.type_of(f.did).instantiate_identity().skip_norm_wip();
                        J::A(vec![s(f.name.to_string()), s(format!("{fty}")), s(format!("{:?}", f.vis))])
                    })
                    .collect();
                variants.push(J::O(vec![
                    ("name", s(v.name.to_string())),
                    ("discr", J::N(d)),
                    ("fields", J::A(fields)),
                ]));
            }
            // size / alignment of the type when it has no type or const parameters (lifetimes do not affect layout)
            let generics = tcx.generics_of(did);
            let only_lifetimes = generics.own_params.iter().all(|p| matches!(p.kind, ty::GenericParamDefKind::Lifetime))
                && generics.parent.is_none();
            let mut size = J::Null;
            let mut align = J::Null;
            if only_lifetimes {
                let aty = tcx.type_of(did).instantiate_identity().skip_norm_wip();
                let aty = tcx.erase_and_anonymize_regions(aty);
                let env = ty::TypingEnv::fully_monomorphized();
                if let Ok(layout) = tcx.layout_of(env.as_query_input(aty)) {
                    size = J::N(layout.size.bytes() as i128);
                    align = J::N(layout.align.abi.bytes() as i128);
                }
            }
            adts.push(J::O(vec![
                ("id", s(tcx.def_path_str(did))),
                ("kind", s(format!("{:?}", tcx.def_kind(id)))),
                ("vis", s(format!("{:?}", tcx.visibility(did)))),
                ("variants", J::A(variants)),
                ("size", size),
                ("align", align),
                ("at", loc(tcx, tcx.def_span(did))),
            ]));
        }
        // trait impls of the crate (self type, trait)
        let mut impls = Vec::new();
        for id in tcx.hir_crate_items(()).definitions() {
            let did = id.to_def_id();
            if let DefKind::Impl { of_trait } = tcx.def_kind(id) {
                let self_ty = tcx.type_of(did).instantiate_identity().skip_norm_wip();
                let tr = if of_trait {
                    let tr = tcx.impl_trait_ref(did).instantiate_identity().skip_norm_wip();
                    tcx.def_path_str(tr.def_id)
                } else {
                    String::new()
                };
                impls.push(J::O(vec![
                    ("self", s(format!("{self_ty}"))),
                    ("trait", s(tr)),
                    ("at", loc(tcx, tcx.def_span(did))),
                ]));
            }
        }
        let doc = J::O(vec![
            ("crate", s(krate.clone())),
            ("nonce", s(std::env::var("NSX_NONCE").unwrap_or_default())),
            ("debug_assertions", J::B(tcx.sess.opts.debug_assertions)),
            ("adts", J::A(adts)),
            ("impls", J::A(impls)),
            ("fns", J::A(fns)),
            ("consts", J::A(consts)),
            ("statics", J::A(statics)),
        ]);
        let mut out = String::new();
        doc.write(&mut out);
        let dir = std::env::var("NSX_OUT").unwrap_or_else(|_| "/tmp".into());
        let crate_type = if tcx.crate_types().iter().any(|t| format!("{t:?}").contains("Executable")) {
            "bin"
        } else {
            "lib"
        };
        std::fs::write(format!("{dir}/{krate}.{crate_type}.json"), out).expect("write facts");
        Compilation::Continue
    }
}
fn main() {
    let mut args: Vec<String> = std::env::args().collect();
    args.remove(1);
    rustc_driver::run_compiler(&args, &mut Cb);
}

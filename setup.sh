#!/bin/sh
# Build the fact exporter (rustc_private driver) offline. Idempotent.
set -e
cd "$(dirname "$0")/nsx"
CARGO_NET_OFFLINE=true cargo +nightly build --release --offline

#!/bin/sh
# Clean tree: 1200 declarations of variables that are never read (2400 warnings), 21.8 KB.
# One statement per line: warnings, then `done`, exit 0.
# The same tokens on a single line: "memory allocation of ... bytes failed", abort, nothing runs.
here=$(cd "$(dirname "$0")" && pwd)
NAIJA=${NAIJA:-target/debug/naija}
gen="$here/gen_f2"; mkdir -p "$gen"
awk 'BEGIN { for (i = 0; i < 1200; i++) printf "make v%d get %d\n", i, i; print "shout(\"done\")" }' > "$gen/lines.ns"
tr '\n' ' ' < "$gen/lines.ns" > "$gen/single.ns"
for f in lines.ns single.ns; do
    "$NAIJA" "$gen/$f" > "$gen/out.txt" 2> "$gen/err.txt"
    code=$?
    echo "== $f ($(wc -c < "$gen/$f") bytes): exit=$code warnings=$(grep -c 'warning\[' "$gen/out.txt") last stdout line: $(tail -n 1 "$gen/out.txt" | cut -c1-40) stderr: $(head -n 1 "$gen/err.txt")"
done
rm -rf "$gen"

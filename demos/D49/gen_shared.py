#!/usr/bin/env python3
# shared_arena.ns: line 1 declares N unused variables (2N warnings, each rendering the whole line
# into the resolver's scratch arena); the rest needs S*40 KB of frame in straight-line code.
import sys
N, K, S = (int(x) for x in sys.argv[1:4])
out = [' '.join(f'make v{i} get {i}' for i in range(N))]
out += ["make a get []", "make i get 0",
        f"jasi (i small pass {K}) start a.push(i) i get i add 1 end", "make n get 0"]
out += ["n get n add a.len()"] * S
out += ["shout(n)"]
print("\n".join(out))

#!/bin/sh
# Clean-tree finding F1: the same token sequence runs when it has one statement per
# line and aborts (allocation failure) when it is laid out on a single line.
here=$(cd "$(dirname "$0")" && pwd)
NAIJA=${NAIJA:-target/debug/naija}
N=${N:-7000}
tmp=$(mktemp -d)
python3 - "$N" "$tmp" <<'PY'
import sys
n, d = int(sys.argv[1]), sys.argv[2]
st = ['shout("a\\tb")'] * n          # every literal contains an escape
open(d + "/lines.ns", "w").write("\n".join(st) + "\n")
open(d + "/oneline.ns", "w").write(" ".join(st) + "\n")
PY
for f in lines.ns oneline.ns; do
  "$NAIJA" "$tmp/$f" > "$tmp/$f.out" 2> "$tmp/$f.err"; rc=$?
  echo "$f: bytes=$(wc -c < "$tmp/$f") exit=$rc lines_printed=$(wc -l < "$tmp/$f.out") stderr_first_line=$(head -1 "$tmp/$f.err")"
done
rm -rf "$tmp"

#!/bin/sh
# Reproducers for front-end failures of the UNCHANGED tree (no mutation applied).
# Usage: NAIJA=/path/to/naija ./repro.sh     (default: target/debug/naija)
DIR=$(cd "$(dirname "$0")" && pwd)
NAIJA=${NAIJA:-target/debug/naija}
TMP=$(mktemp -d)
run() { # name file
  RUST_BACKTRACE=0 timeout 120 "$NAIJA" "$2" >"$TMP/out" 2>"$TMP/err" </dev/null
  code=$?
  echo "$1: bytes=$(wc -c <"$2") exit=$code $(grep -m1 -e 'memory allocation' -e 'panicked' "$TMP/err")"
}

# F1a: 2039 lines holding one unknown character each (4078 bytes of text)
python3 -c "import sys; sys.stdout.write('@\n'*2039)" >"$TMP/f1a.ns";          run F1a-many-lexical-errors "$TMP/f1a.ns"
# F1b: a VALID program: 487 never-read variables (warnings only) and one shout
python3 -c "
import sys
sys.stdout.write(''.join('make v%d get %d\n'%(i,i) for i in range(487))+'shout(\"ran\")\n')" >"$TMP/f1b.ns"; run F1b-valid-program-many-warnings "$TMP/f1b.ns"
# F1c: ONE diagnostic, but an 8 MiB text (one long comment line)
python3 -c "import sys; sys.stdout.write('@\n# '+'x'*(8*1024*1024)+'\n')" >"$TMP/f1c.ns"; run F1c-one-error-8MiB-text "$TMP/f1c.ns"
# F2: a VALID 86 KB program: 6600 string literals that contain an escape
python3 -c "import sys; sys.stdout.write('shout(\"a\\\\n\")\n'*6600)" >"$TMP/f2.ns"; run F2-valid-program-many-escaped-strings "$TMP/f2.ns"
rm -rf "$TMP"

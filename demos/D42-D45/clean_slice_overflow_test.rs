use naijascript::arena::Arena;

#[test]
fn oversized_slice_request() {
    let arena = Arena::new(64 * 1024).unwrap();
    let before = arena.offset();
    let count = usize::MAX / 8 + 2; // count * 8 wraps around to 8
    let r = std::panic::catch_unwind(std::panic::AssertUnwindSafe(|| {
        let s = arena.alloc_uninit_slice::<u64>(count);
        (s.as_ptr() as usize, s.len())
    }));
    match r {
        Err(_) => println!("request failed cleanly (panic)"),
        Ok((_, len)) => {
            println!("request for {count} u64 SUCCEEDED: slice len = {len}, arena watermark moved by {} bytes", arena.offset() - before);
            panic!("a slice of {len} elements is backed by {} bytes", arena.offset() - before);
        }
    }
}

#![feature(allocator_api)]
use std::alloc::{Allocator, Layout};
use naijascript::arena::Arena;

#[test]
fn grow_to_larger_alignment() {
    let arena = Arena::new(4 * 1024 * 1024).unwrap();
    let l8 = Layout::from_size_align(8, 8).unwrap();
    let _a = arena.allocate(l8).unwrap();
    let b = arena.allocate(l8).unwrap();
    let l64 = Layout::from_size_align(64, 64).unwrap();
    let g = unsafe { arena.grow(b.cast(), l8, l64).unwrap() };
    let addr = g.cast::<u8>().as_ptr() as usize;
    println!("grown block at {addr:#x}, addr % 64 = {}", addr % 64);
    assert_eq!(addr % 64, 0, "grow returned a block that is not aligned as new_layout requests");
}

#![feature(allocator_api)]
use std::alloc::{Allocator, Layout};
use naijascript::arena::Arena;

#[test]
fn big_alignment() {
    let mut bad = 0;
    let mut arenas = Vec::new();
    for i in 0..8 {
        let arena = Arena::new(256 * 1024).unwrap();
        let _ = arena.allocate(Layout::from_size_align(24, 8).unwrap()).unwrap();
        for align in [4096usize, 8192, 65536] {
            let p = arena.allocate(Layout::from_size_align(16, align).unwrap()).unwrap();
            let addr = p.cast::<u8>().as_ptr() as usize;
            println!("arena {i}: align {align:>8} -> addr {addr:#x} addr%align = {}", addr % align);
            if addr % align != 0 { bad += 1; }
        }
        arenas.push(arena);
    }
    assert_eq!(bad, 0, "{bad} misaligned blocks");
}

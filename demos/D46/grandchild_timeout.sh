#!/bin/sh
# Clean-tree observation: timeout with a grandchild that holds the captured pipe.
# usage: NAIJA=/path/to/naija sh grandchild_timeout.sh
here=$(cd "$(dirname "$0")" && pwd)
NAIJA=${NAIJA:-target/debug/naija}
cat > "$here/.gc_tmp.ns" <<'NS'
make c get command("sh")
c.arg("-c")
c.arg("sleep 7.31; echo late")
c.stdout_capture()
c.timeout_ms(300)
make r get c.run()
shout(r.stdout())
NS
start=$(date +%s.%N)
"$NAIJA" "$here/.gc_tmp.ns" > "$here/.gc_out.txt" 2>&1 &
pid=$!
sleep 1.5
echo "t=1.5s (timeout was 0.3s): interpreter still running? $(kill -0 $pid 2>/dev/null && echo yes || echo no)"
echo "t=1.5s: grandchild 'sleep 7.31' still running? $(ps -eo args | grep -q '^sleep 7[.]31' && echo yes || echo no)"
echo "t=1.5s: direct child 'sh -c sleep 7.31; echo late' still running? $(ps -eo args | grep -q '^sh -c sleep 7[.]31' && echo yes || echo no)"
wait $pid
rc=$?
end=$(date +%s.%N)
echo "interpreter exit code $rc after $(echo "$end - $start" | bc | cut -c1-4)s; its output:"
sed 's/\x1b\[[0-9;]*m//g' "$here/.gc_out.txt" | head -2
rm -f "$here/.gc_tmp.ns" "$here/.gc_out.txt"

#![feature(allocator_api)]
use std::alloc::{Allocator, Layout};

use naijascript::arena::Arena;
use naijascript::helpers::MEBI;

#[test]
fn huge_uninit_slice_request() {
    let arena = Arena::new(MEBI).unwrap();
    let first = arena.allocate(Layout::from_size_align(100, 1).unwrap()).unwrap();
    let base = first.cast::<u8>().as_ptr() as usize;
    let before = arena.offset();
    let count = usize::MAX - 50;
    let r = std::panic::catch_unwind(std::panic::AssertUnwindSafe(|| {
        let s = arena.alloc_uninit_slice::<u8>(count);
        (s.as_ptr() as usize - base, s.len())
    }));
    println!("request of {count} bytes: result (offset_of_block, len) = {r:?}");
    println!("watermark before = {before}, after = {}", arena.offset());
    let next = arena.allocate(Layout::from_size_align(16, 1).unwrap()).unwrap();
    println!("next 16-byte block at offset {}", next.cast::<u8>().as_ptr() as usize - base);
}

#[test]
fn huge_uninit_slice_request_on_a_fresh_arena() {
    let arena = Arena::new(MEBI).unwrap();
    let count = usize::MAX - 50;
    let r = std::panic::catch_unwind(std::panic::AssertUnwindSafe(|| {
        let s = arena.alloc_uninit_slice::<u8>(count);
        s.len()
    }));
    println!("fresh arena, request of {count} bytes: len = {r:?}; watermark after = {}", arena.offset());
}

#!/bin/bash
# usage: tools/run_refactors.sh <dir with *.diff> [jobs]
# Runs all 18 checks against every behaviour-preserving patch of a directory (each in its own scratch worktree, via
# tools/mutant.sh, with cache pruning off so that parallel jobs do not evict each other's facts; the next ordinary run prunes the cache) and prints, per
# patch, the keys of any alarm.  An alarm here is a false alarm to be corrected.
D="$1"; J="${2:-4}"
one() {
  f="$1"
  out=$(NSV_NOPRUNE=1 /verif/tools/mutant.sh "$f" -- C01 C02 C03 C04 C05 C06 C07 C08 C09 C10 C11 C12 C13 C14 C15 C16 C17 C18 2>&1)
  keys=$(echo "$out" | grep -E "^   |MACHINERY|does not apply|error:" | sort -u | tr "\n" ";")
  n=$(echo "$out" | grep -c "^C[0-9][0-9] tier")
  echo "$(basename "$f") checks=$n ${keys:-silent}"
}
export -f one
ls "$D"/*.diff | xargs -P "$J" -I{} bash -c 'one {}'

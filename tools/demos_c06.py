"""Triage helper (NOT part of any check): demo inputs for the C06 known findings, run once against the
debug binary to confirm that each reported site is a genuine crash.  Usage: python3 tools/demos_c06.py"""
import subprocess, tempfile, os, re, sys

DEMOS = {
 "eval_array_member_call|Join": 'do f(a) start return [1].join(a) end shout(f(1))',
 "eval_builtin_call|Command": 'do f(a) start return command(a) end shout(f(1))',
 "eval_expr|mixed-operands": 'do f(a,b) start return a add b end shout(f([1],true))',
 "eval_expr|bool-arith": 'do f(a,b) start return a add b end shout(f(true,false))',
 "eval_expr|null-arith": 'do f(a,b) start return a times b end shout(f(null,null))',
 "eval_expr|null-any-arith": 'do f(a) start return null add a end shout(f(1))',
 "eval_expr|and-rhs": 'do f(a) start return true and a end shout(f(1))',
 "eval_expr|str-arith": 'do f(a,b) start return a minus b end shout(f("a","b"))',
 "eval_expr|or-rhs": 'do f(a) start return false or a end shout(f(1))',
 "eval_expr|index-base": 'do f(a) start return a[0] end shout(f(1))',
 "eval_expr|unary": 'do f(a) start return minus a end shout(f("x"))',
 "eval_expr|num-str": 'do f(a,b) start return a minus b end shout(f(1,"b"))',
 "eval_expr|str-num": 'do f(a,b) start return a minus b end shout(f("a",1))',
 "eval_member_call|Bool": 'do f(a) start return a.len() end shout(f(true))',
 "string|Find": 'do f(a) start return "x".find(a) end shout(f(1))',
 "string|Replace": 'do f(a) start return "x".replace(a, "y") end shout(f(1))',
 "string|Slice": 'do f(a) start return "x".slice(a, 1) end shout(f("q"))',
 "string|Split": 'do f(a) start return "x".split(a) end shout(f(1))',
 "exec_stmt|If": 'do f(a) start if to say (a) start shout(1) end end f(3)',
 "exec_stmt|Loop": 'do f(a) start jasi (a) start shout(1) end end f(3)',
 "R2|callee-shape": 'shout(1)(2)',
 "R2|index-base": 'do f() start return [1] end f()[0] get 2',
 "R2|loop-context": 'make i get 0 jasi (i small pass 1) start do f() start comot end f() i get i add 1 end',
 "R2|member": 'make s get "abc" make t get s.len shout(t)',
 "R3|Push": 'do f(a) start a.push() end f([1])',
 "R3|Join": 'do f(a) start return a.join() end shout(f([1]))',
 "R3|Arg": 'do f(a) start a.arg() end make c get command("x") f(c)',
 "R3|Find": 'do f(a) start return a.find() end shout(f("x"))',
 "R3|Slice1": 'do f(a) start return a.slice(1) end shout(f("x"))',
 "R3|Replace1": 'do f(a) start return a.replace("x") end shout(f("x"))',
 "R3|Split": 'do f(a) start return a.split() end shout(f("x"))',
 "R5|var": 'do f() start g() make x get 1 do g() start shout(x) end end f()',
 "R5|interp": 'do f() start g() make x get 1 do g() start shout("v {x}") end end f()',
 "R5|assign": 'do f() start g() make x get 1 do g() start x get 2 end end f()',
 "R5|push": 'do f() start g() make x get [1] do g() start x.push(2) end end f()',
 "R5|assign_index": 'do f() start g() make x get [1] do g() start x[0] get 2 end end f()',
 "R5|push-index": 'do f() start g() make x get [[1]] do g() start x[0].push(2) end end f()',
}

def main():
    binp = sys.argv[1] if len(sys.argv) > 1 else "/repo/target/debug/naija"
    for k, src in DEMOS.items():
        with tempfile.NamedTemporaryFile("w", suffix=".ns", delete=False) as fh:
            fh.write(src)
        r = subprocess.run([binp, fh.name], capture_output=True, text=True, env=dict(os.environ, RUST_BACKTRACE="0"))
        os.unlink(fh.name)
        m = re.search(r"panicked at ([^\n]+)", r.stderr)
        print("%-28s exit=%-4s %s" % (k, r.returncode, m.group(1) if m else "(no panic) " + (r.stdout + r.stderr).strip().replace("\n", " ")[:100]))

main()

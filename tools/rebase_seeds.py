"""Re-anchor the stored patches (seeded changes and negative-corpus refactors) on /repo's current HEAD.

A patch made against an older commit is applied with `git apply --3way` in a scratch worktree (the blob ids in its index lines
let git merge it at the right place even when an identical context occurs elsewhere).  When a plain `git apply` would fail,
or would land somewhere else than the 3-way merge, the stored patch is rewritten as `git diff HEAD` of the merged tree.
Conflicts are reported and left alone.  Nothing is changed in /repo."""
import glob, os, subprocess, sys, tempfile

def sh(*a, cwd=None, check=False):
    return subprocess.run(a, cwd=cwd, capture_output=True, text=True)

def tree_after(w, patch, three):
    sh("git", "checkout", "-q", "--", ".", cwd=w); sh("git", "reset", "-q", "--hard", "HEAD", cwd=w); sh("git", "clean", "-qfd", cwd=w)
    r = sh("git", "apply", *(["--3way"] if three else []), patch, cwd=w)
    if r.returncode != 0:
        return None, r.stderr.strip().splitlines()[-1:] 
    d = sh("git", "diff", "HEAD", cwd=w).stdout
    return d, None

w = tempfile.mkdtemp(prefix="nsv-rebase-"); os.rmdir(w)
sh("git", "-C", "/repo", "worktree", "add", "-f", w, "HEAD")
try:
    changed = 0
    for p in sorted(glob.glob("/verif/seeded/*/patch.diff") + glob.glob("/verif/refactors/*.diff")):
        plain, e1 = tree_after(w, p, False)
        merged, e2 = tree_after(w, p, True)
        name = p.replace("/verif/", "")
        if merged is None:
            print("%-40s CONFLICT %s" % (name, e2)); continue
        if "<<<<<<<" in merged:
            print("%-40s CONFLICT markers" % name); continue
        body = lambda d: [l for l in (d or "").splitlines() if (l.startswith("+") or l.startswith("-")) and not l.startswith("+++") and not l.startswith("---")]
        if plain is None or plain != merged:
            if body(merged) != body(open(p).read()) and plain is not None:
                pass
            open(p, "w").write(merged)
            changed += 1
            print("%-40s re-anchored (%s)" % (name, "plain apply failed" if plain is None else "plain apply landed elsewhere"))
    print("re-anchored %d patches" % changed)
finally:
    sh("git", "-C", "/repo", "worktree", "remove", "--force", w)

"""One-off authoring helper (never run by a check): writes known_findings.json entries for the
violations currently reported by a property's rules, from a hand-written triage table of
(key substring -> what fails, demo input).  Every key must be covered by the table; the file is then
reviewed and committed.  Usage: python3 tools/kf_seed.py C06"""
import json, sys, os
sys.path.insert(0, os.path.dirname(os.path.dirname(os.path.abspath(__file__))))
from nsverif import core, facts
from nsverif.mir import Program
import importlib

TRIAGE = json.load(open(os.path.join(os.path.dirname(__file__), "triage.json")))

def main():
    prop = sys.argv[1]
    mod = importlib.import_module("nsverif.rules." + prop.lower())
    keys = {}
    for cfg in ("dev", "release"):
        f = facts.load(cfg)
        ctx = core.Ctx(prop, "thorough", cfg, Program(f["lib"]), Program(f["bin"]), f["repo"])
        for rid, fn in mod.RULES:
            ctx.rule = rid
            fn(ctx)
        for r in ctx.records:
            if r["status"] == "violation":
                keys.setdefault(r["key"], r)
    kf = json.load(open(core.KF_PATH))
    have = {(e["property"], e["key"]) for e in kf["findings"]}
    missing = []
    for key, r in sorted(keys.items()):
        if (prop, key) in have:
            continue
        hit = [t for t in TRIAGE.get(prop, []) if all((s[1:] not in key) if s.startswith("!") else (s in key) for s in t["match"])]
        if len(hit) != 1:
            missing.append((key, len(hit)))
            continue
        t = hit[0]
        kf["findings"].append(dict(property=prop, key=key, status="open", defect=t["defect"], what_fails=t["what"], demo_input=t["demo"], observed=t.get("observed", "")))
    if missing:
        for k, n in missing:
            print("UNTRIAGED (%d matches): %s" % (n, k))
        return 1
    json.dump(kf, open(core.KF_PATH, "w"), indent=1, ensure_ascii=False)
    print("known findings:", len(kf["findings"]))

sys.exit(main())

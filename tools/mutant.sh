#!/bin/sh
# usage: tools/mutant.sh <patch-file|-e 'sed-expr' file> -- <Cxx> [Cxx...]
# Applies a change to a scratch worktree of /repo HEAD (outside /repo and /verif), runs the given checks on it,
# removes the worktree.  Evidence of these runs goes to /tmp, never to /verif/evidence.
set -e
W=$(mktemp -d /tmp/nsv-mut-XXXXXX)
rmdir "$W"
git -C /repo worktree add -f "$W" HEAD >/dev/null 2>&1
cleanup() { git -C /repo worktree remove --force "$W" >/dev/null 2>&1 || rm -rf "$W"; }
trap cleanup EXIT
if [ "$1" = "-e" ]; then
  sed -i "$2" "$W/$3"; shift 3
else
  git -C "$W" apply --3way "$1" >/dev/null 2>&1 || { git -C "$W" reset -q --hard HEAD; git -C "$W" apply "$1"; }; shift 1
fi
[ "$1" = "--" ] && shift
git -C "$W" diff HEAD --stat | tail -1
for p in "$@"; do
  NSV_REPO="$W" /verif/check "$p" 2>&1 | grep -E "key:|^C[0-9]+ tier|MACHINERY" | sed 's/^ *key: /   /' | head -40
done

import json, sys, glob
import jsonschema
jsonschema.validate(json.load(open('/verif/MANIFEST.json')), json.load(open('/root/.vp/MANIFEST.schema.json')))
es = json.load(open('/root/.vp/EVIDENCE.schema.json'))
for p in sorted(glob.glob('/verif/evidence/C*.json')):
    jsonschema.validate(json.load(open(p)), es)
print('manifest + %d evidence files valid' % len(glob.glob('/verif/evidence/C*.json')))

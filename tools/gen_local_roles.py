#!/usr/bin/env python3
"""Regenerate /verif/reference/local_roles.json from /repo's current tree: per configuration and body, the sequence of
(name, name-free signature) of its named locals.  Run after every legitimate change of /repo (fix: commits)."""
import json
import os
import sys

ROOT = os.path.dirname(os.path.dirname(os.path.abspath(__file__)))
sys.path.insert(0, ROOT)
from nsverif import facts  # noqa: E402
from nsverif.mir import Program, local_signatures  # noqa: E402

out = {}
for cfg in ("dev", "release"):
    f = facts.load(cfg)
    out[cfg] = {}
    for part in ("lib", "bin"):
        prog = Program(f[part])
        d = {}
        for fid, fn in sorted(prog.fns.items()):
            if not fn.file.startswith("src/"):
                continue
            sigs = local_signatures(fn)
            if sigs:
                d[fid] = [[name, sig] for (i, name, sig) in sigs]
        out[cfg][part] = d
out["_generated_from"] = facts.tree_hash()
with open(os.path.join(ROOT, "reference", "local_roles.json"), "w") as fh:
    json.dump(out, fh, separators=(",", ":"))
print("bodies:", {c: {p: len(v) for p, v in out[c].items()} for c in ("dev", "release")}, "size", os.path.getsize(os.path.join(ROOT, "reference", "local_roles.json")))

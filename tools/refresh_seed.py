"""usage: refresh_seed.py <id> ["note"] - re-run the recorded check against a stored seeded change and update detected_by."""
import json, subprocess, sys
sid = sys.argv[1]
mp = "/verif/seeded/%s/meta.json" % sid
m = json.load(open(mp))
prop = m.get("detected_by_check_of") or m["breaks_property"]
out = subprocess.run(["/verif/tools/mutant.sh", "/verif/seeded/%s/patch.diff" % sid, "--", prop], capture_output=True, text=True).stdout
keys = [l.strip() for l in out.splitlines() if l.startswith("   ")]
old = m.get("detected_by")
m["detected_by"], m["detected"] = keys, bool(keys)
if len(sys.argv) > 2:
    m["note"] = (m.get("note", "") + " " + sys.argv[2]).strip()
json.dump(m, open(mp, "w"), indent=1, ensure_ascii=False)
print(sid, "detected" if keys else "NOT DETECTED", keys[:3], "(was %s)" % (old[:2] if old else old))

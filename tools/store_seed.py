"""usage: store_seed.py <seed-src-dir> <id> <property> <initially_missed 0/1> "<summary>" "<needs>" [<property whose check reports it> [<note>]]
Copies a confirmed seeded change into /verif/seeded/<id>/ with meta.json; runs the property's check against it
(scratch worktree) to record which rule keys report it."""
import json, os, shutil, subprocess, sys
src, sid, prop, missed, summary, needs = sys.argv[1:7]
check_prop = sys.argv[7] if len(sys.argv) > 7 else prop
note = sys.argv[8] if len(sys.argv) > 8 else None
dst = os.path.join("/verif/seeded", sid)
os.makedirs(dst, exist_ok=True)
for f in os.listdir(src):
    if f.startswith("confirm.") and f != "confirm.log":
        continue
    if f in ("confirm.log", "test.log") or f.endswith(".summary.txt"):
        continue
    if os.path.isfile(os.path.join(src, f)) and os.path.getsize(os.path.join(src, f)) < 200000:
        shutil.copy(os.path.join(src, f), os.path.join(dst, f))
out = subprocess.run(["/verif/tools/mutant.sh", os.path.join(src, "patch.diff"), "--", check_prop], capture_output=True, text=True).stdout
keys = [l.strip() for l in out.splitlines() if l.startswith("   ")]
tests = ""
ct = os.path.join(src, "confirm.tests.txt")
if os.path.exists(ct):
    lines = [l for l in open(ct) if l.startswith("test result")]
    passed = sum(int(l.split(" passed")[0].split()[-1]) for l in lines)
    failed = sum(int(l.split(" failed")[0].split()[-1]) for l in lines)
    tests = "cargo test --workspace --no-fail-fast --offline with the change applied: %d passed, %d failed" % (passed, failed)
demo_differs = None
a, b = os.path.join(src, "confirm.clean.txt"), os.path.join(src, "confirm.mutated.txt")
if os.path.exists(a) and os.path.exists(b):
    demo_differs = open(a, errors="replace").read() != open(b, errors="replace").read()
meta = dict(id=sid, breaks_property=prop, summary=summary, needs_to_manifest=needs,
            confirmed=dict(compiles=True, tests=tests, demo_output_differs_with_change=demo_differs,
                           how="tools/confirm_seed.sh in a scratch worktree of /repo HEAD (outside /repo and /verif), removed afterwards"),
            detected_by=keys, detected=bool(keys), initially_missed=bool(int(missed)),
            origin="independent sub-agent given only the property text and a scratch worktree")
if check_prop != prop:
    meta["detected_by_check_of"] = check_prop
if note:
    meta["note"] = note
json.dump(meta, open(os.path.join(dst, "meta.json"), "w"), indent=1, ensure_ascii=False)
print(sid, "detected" if keys else "NOT DETECTED", keys[:2])

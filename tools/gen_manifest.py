"""Writes MANIFEST.json from the table below (kept in one place so it stays valid and consistent)."""
import json, os, subprocess
V = os.path.dirname(os.path.dirname(os.path.abspath(__file__)))
props = [json.loads(l)["id"] for l in open(os.path.join(V, "properties.jsonl"))]
CLAIMS = json.load(open(os.path.join(V, "tools", "claims.json")))
repo_commits = subprocess.check_output(["git", "-C", "/repo", "log", "--format=%h %s", "ec803c6..HEAD"], text=True).strip().splitlines()
checks = []
for pid in props:
    c = CLAIMS["claimed"].get(pid)
    if not c:
        continue
    checks.append({
        "property_id": pid,
        "quick_cmd": "./check %s --tier quick" % pid,
        "thorough_cmd": "./check %s --tier thorough" % pid,
        "evidence_file": "/verif/evidence/%s.json" % pid,
        "replay_cmd_template": "./check %s --replay {path}" % pid,
        "engine": "nsverif",
        "level_claimed": {"category": "other", "text": c["text"], "design_ref": c["design_ref"]},
        "level_note": c["note"],
        "technique": c["technique"],
    })
na = [{"property_id": p, "reason": CLAIMS["not_applicable"].get(p, "planned static rules not implemented yet (DESIGN.md section 6); not claimed rather than checked by another technique")} for p in props if p not in CLAIMS["claimed"]]
m = {
    "version": 1,
    "setup_cmd": "./setup.sh",
    "hooks": {
        "guard": "none - static analysis reads the unmodified program; no hook or instrumentation exists in /repo",
        "enable": "n/a (checks run `cargo +nightly check` on /repo's working tree through the nsx rustc driver)",
        "baseline_off_cmd": "cd /repo && cargo test --workspace --no-fail-fast --offline",
        "source_commits": [],
        "add_only": True,
    },
    "engines": [
        {"name": "nsx", "path": "/verif/nsx", "serves_properties": sorted(CLAIMS["claimed"]), "kind_free_text": "rustc_private driver exporting type-checked MIR (resolved callees, discriminant maps, constants), HIR match/if tables, ADTs, consts and statics of /repo as JSON facts"},
        {"name": "nsverif", "path": "/verif/nsverif", "serves_properties": sorted(CLAIMS["claimed"]), "kind_free_text": "stdlib-only Python rule engine over the facts: CFG, dominators, edge dominance, constraint typing of panic sites, call graph/SCC, table extraction, relational guards"},
    ],
    "checks": checks,
    "notes": "All checks are static analyses of /repo's current working tree (re-exported on every tree change). Genuine defects repaired in /repo as `fix:` commits: %s. Open defects are listed in /verif/known_findings.json and printed as KNOWN-FINDING lines." % "; ".join(repo_commits),
    "not_applicable": na,
}
json.dump(m, open(os.path.join(V, "MANIFEST.json"), "w"), indent=1)
print("claimed:", [c["property_id"] for c in checks], "n/a:", len(na))

"""Write the prompts for one seeding round.  usage: gen_seed_prompts.py <round-dir, e.g. /tmp/seed5> <template-dir with Cxx.prompt.txt>

Each prompt gives a fresh sub-agent only the property's text, its own scratch worktree, the build/test commands and the list
of changes already produced for that property (so that it looks elsewhere).  Nothing of /verif is shown to it.  The template
prompts are those of the previous round; the path of the worktree and the already-produced list are replaced."""
import glob, json, os, re, sys
out, tpl = sys.argv[1], sys.argv[2]
os.makedirs(out, exist_ok=True)
done = {}
for mp in sorted(glob.glob("/verif/seeded/*/meta.json")):
    m = json.load(open(mp))
    done.setdefault(m["breaks_property"], []).append(m["summary"])
extra = """
Two more things for this round. (1) Prefer functions and files that none of the listed changes touches - helper modules (src/sys/, src/arena/, src/analysis/, src/builtins/, src/helpers.rs, src/diagnostics.rs, src/process.rs) as well as the obvious ones - and mistakes that involve TWO places that each look fine alone (a producer and a consumer that disagree about a unit, an order, an inclusive/exclusive bound, a default). (2) While you look, you may notice that the UNCHANGED tree itself already violates the property for some input. If so, do not use it as a mutation; instead write the exact reproducer (script or test) and what you observed to <worktree>/_seed/clean_findings.md - that is valuable on its own. (3) The tree has recently received a number of small repairs (`git log --oneline | head -45` shows them, each commit message says what was wrong); the code they added or changed is as fair a target as any, both for a mutation and for a closer look at whether the repair is complete.
"""
for p in sorted(glob.glob(os.path.join(tpl, "C??.prompt.txt"))):
    pid = os.path.basename(p)[:3]
    s = open(p).read()
    s = s.replace(os.path.dirname(p) + "/" + pid, out + "/" + pid).replace(tpl.rstrip("/") + "/" + pid, out + "/" + pid)
    s = re.sub(r"/tmp/seed\d+/" + pid, out + "/" + pid, s)
    lst = "\n".join("  - " + x for x in done.get(pid, []))
    s = re.sub(r"(do NOT produce these or variants of them[^\n]*\n)(?:  - [^\n]*\n)+", lambda m: m.group(1) + lst + "\n", s)
    s = s.replace("For EACH mutation deliver", extra.replace("<worktree>", out + "/" + pid) + "\nFor EACH mutation deliver", 1)
    open(os.path.join(out, pid + ".prompt.txt"), "w").write(s)
    print(pid, len(done.get(pid, [])), "already produced")

#!/usr/bin/env python3
"""Two-way self-test of the rule set (DESIGN.md §8.6).

For every stored seeded change (/verif/seeded/<id>/): create a scratch worktree of /repo HEAD outside /repo and /verif,
apply patch.diff, run the check recorded in meta.json on it (NSV_REPO), and require
  (a) exit status 1,
  (b) every key of meta.detected_by among the reported VIOLATION keys,
then remove the worktree and the facts exported for it.  Finally (unless ids are given) run every check on the unchanged
tree and require exit 0 with no VIOLATION line.  Writes /verif/selftest/RESULT.json.  Not a registered check."""
import glob
import json
import os
import re
import shutil
import subprocess
import sys
import tempfile
import time
from concurrent.futures import ThreadPoolExecutor

ROOT = os.path.dirname(os.path.dirname(os.path.abspath(__file__)))


def sh(*a, **k):
    return subprocess.run(a, stdout=subprocess.PIPE, stderr=subprocess.STDOUT, text=True, **k)


def one(seed_dir):
    meta = json.load(open(os.path.join(seed_dir, "meta.json")))
    sid = meta["id"]
    prop = meta.get("detected_by_check_of") or meta["breaks_property"]
    want = meta.get("detected_by") or []
    w = tempfile.mkdtemp(prefix="nsv-self-%s-" % sid, dir=os.environ.get("TMPDIR", "/tmp"))
    os.rmdir(w)
    res = dict(id=sid, check=prop, expected=want)
    try:
        r = sh("git", "-C", "/repo", "worktree", "add", "-f", w, "HEAD")
        if r.returncode:
            res.update(status="machinery", detail=r.stdout[-400:])
            return res
        r = sh("git", "-C", w, "apply", "--3way", os.path.join(seed_dir, "patch.diff"))
        if r.returncode:
            res.update(status="patch-does-not-apply", detail=r.stdout[-400:])
            return res
        env = dict(os.environ, NSV_REPO=w, NSV_EVIDENCE_DIR=w + ".evidence", NSV_TARGET_TAG=sid)
        r = sh(os.path.join(ROOT, "check"), prop, env=env)
        keys = re.findall(r"^\s*key: (.*)$", r.stdout, flags=re.M)
        res.update(exit=r.returncode, reported=keys)
        missing = [k for k in want if k not in keys]
        if r.returncode == 1 and not missing and meta.get("detected", True):
            res["status"] = "detected"
        elif not meta.get("detected", True) and r.returncode == 0:
            res["status"] = "missed-as-recorded"
        else:
            res.update(status="REGRESSION", missing=missing, tail=r.stdout[-600:])
        return res
    finally:
        sh("git", "-C", "/repo", "worktree", "remove", "--force", w)
        shutil.rmtree(w, ignore_errors=True)
        shutil.rmtree(w + ".evidence", ignore_errors=True)


def main():
    ids = sys.argv[1:]
    seeds = sorted(d for d in glob.glob(os.path.join(ROOT, "seeded", "*")) if os.path.exists(os.path.join(d, "meta.json")))
    if ids:
        seeds = [d for d in seeds if os.path.basename(d) in ids]
    t0 = time.time()
    # exports share cargo's target directory per configuration (flock in facts.py serialises them); a few in parallel
    # keep the rule evaluation overlapped with the next export
    with ThreadPoolExecutor(max_workers=int(os.environ.get("NSV_SELFTEST_JOBS", "4"))) as ex:
        results = list(ex.map(one, seeds))
    clean = []
    if not ids:
        for i in range(1, 19):
            p = "C%02d" % i
            r = sh(os.path.join(ROOT, "check"), p, env=dict(os.environ, NSV_EVIDENCE_DIR=os.path.join(tempfile.gettempdir(), "nsv-self-clean-evidence")))
            clean.append(dict(check=p, exit=r.returncode, violations=len(re.findall(r"^VIOLATION", r.stdout, flags=re.M)),
                              known_findings=len(re.findall(r"^KNOWN-FINDING", r.stdout, flags=re.M))))
        shutil.rmtree(os.path.join(tempfile.gettempdir(), "nsv-self-clean-evidence"), ignore_errors=True)
    # negative corpus: behaviour-preserving changes must stay silent (apart from re-keyed known defects listed in expected.json)
    neg = []
    if not ids:
        exp = json.load(open(os.path.join(ROOT, "refactors", "expected.json")))
        for name, allowed in sorted(exp.items()):
            w = tempfile.mkdtemp(prefix="nsv-self-neg-", dir=os.environ.get("TMPDIR", "/tmp"))
            os.rmdir(w)
            try:
                sh("git", "-C", "/repo", "worktree", "add", "-f", w, "HEAD")
                r = sh("git", "-C", w, "apply", "--3way", os.path.join(ROOT, "refactors", name))
                if r.returncode:
                    neg.append(dict(refactor=name, status="patch-does-not-apply"))
                    continue
                keys = []
                for i in range(1, 19):
                    r = sh(os.path.join(ROOT, "check"), "C%02d" % i, env=dict(os.environ, NSV_REPO=w, NSV_EVIDENCE_DIR=w + ".evidence"))
                    keys += re.findall(r"^\s*key: (.*)$", r.stdout, flags=re.M)
                extra = [k for k in keys if k not in allowed]
                neg.append(dict(refactor=name, status="silent" if not extra else "FALSE-ALARM", reported=keys, unexpected=extra))
            finally:
                sh("git", "-C", "/repo", "worktree", "remove", "--force", w)
                shutil.rmtree(w, ignore_errors=True)
                shutil.rmtree(w + ".evidence", ignore_errors=True)
        for n_ in neg:
            print("refactor %-28s %s %s" % (n_["refactor"], n_["status"], n_.get("unexpected") or ""))
    bad = [r for r in results if r["status"] not in ("detected", "missed-as-recorded")] + [c for c in clean if c["exit"] != 0 or c["violations"]] + [n_ for n_ in neg if n_["status"] != "silent"]
    out = dict(repo_head=sh("git", "-C", "/repo", "rev-parse", "HEAD").stdout.strip(), seeds=len(results),
               detected=sum(r["status"] == "detected" for r in results), wall_s=round(time.time() - t0, 1),
               results=results, unchanged_tree=clean, refactors=neg, ok=not bad)
    os.makedirs(os.path.join(ROOT, "selftest"), exist_ok=True)
    with open(os.path.join(ROOT, "selftest", "RESULT.json"), "w") as fh:
        json.dump(out, fh, indent=1)
    for r in results:
        print("%-8s %-6s %s" % (r["id"], r["check"], r["status"] + ("  missing=%s" % r.get("missing") if r["status"] == "REGRESSION" else "")))
    for c in clean:
        if c["exit"] != 0 or c["violations"]:
            print("unchanged tree: %s exit=%d violations=%d" % (c["check"], c["exit"], c["violations"]))
    print("selftest: %d/%d seeded changes detected, unchanged tree %s, %.0f s" % (out["detected"], len(results), "clean" if not [c for c in clean if c["exit"] or c["violations"]] else "NOT CLEAN", out["wall_s"]))
    return 0 if not bad else 1


if __name__ == "__main__":
    sys.exit(main())

#!/bin/bash
# usage: tools/confirm_seed.sh <seed-dir> <id>   e.g. tools/confirm_seed.sh /tmp/seed/C15/_seed/m1 C15-m1
# Confirms a seeded change in a scratch worktree: applies, builds, runs the whole test suite, runs the demo with and
# without the change.  Writes <seed-dir>/confirm.log; prints a one-line verdict.  Nothing is kept in /repo.
set -u
SD="$1"; ID="$2"
W=$(mktemp -d /tmp/nsv-confirm-XXXXXX); rmdir "$W"
export CARGO_TARGET_DIR=${NSV_CONFIRM_TARGET:-/tmp/nsv-confirm-target} CARGO_NET_OFFLINE=true
LOG="$SD/confirm.log"; : > "$LOG"
git -C /repo worktree add -f "$W" HEAD >/dev/null 2>&1
cleanup() { git -C /repo worktree remove --force "$W" >/dev/null 2>&1 || rm -rf "$W"; }
trap cleanup EXIT
cd "$W"
run_demo() {  # $1 = label
  if [ -f "$SD/demo.sh" ]; then (cd "$W" && NAIJA="$CARGO_TARGET_DIR/debug/naija" bash "$SD/demo.sh" "$CARGO_TARGET_DIR/debug/naija") > "$SD/confirm.$1.txt" 2>&1
  elif [ -f "$SD/demo.ns" ]; then timeout 60 "$CARGO_TARGET_DIR/debug/naija" "$SD/demo.ns" 2>&1 | sed 's/\x1b\[[0-9;]*m//g; s/thread .main. ([0-9]*)/thread main/' > "$SD/confirm.$1.txt"
  elif ls "$SD"/*.rs >/dev/null 2>&1; then cp "$SD"/*.rs tests/; t=$(basename "$(ls "$SD"/*.rs | head -1)" .rs); cargo test --offline --test "$t" > "$SD/confirm.$1.txt" 2>&1; echo "exit=$?" >> "$SD/confirm.$1.txt"; rm -f tests/$t.rs
  elif [ -f "$SD/demo_test.diff" ]; then git apply "$SD/demo_test.diff" && { cargo test --offline --lib seed_demo 2>&1 | grep -E "^test |^test result|panicked" > "$SD/confirm.$1.txt"; git apply -R "$SD/demo_test.diff"; }
  else echo "no demo" > "$SD/confirm.$1.txt"; fi
}
cargo build --offline >>"$LOG" 2>&1
run_demo clean
if ! git apply --3way "$SD/patch.diff" >>"$LOG" 2>&1; then echo "$ID: PATCH DOES NOT APPLY"; exit 1; fi
if ! cargo build --offline >>"$LOG" 2>&1; then echo "$ID: DOES NOT COMPILE"; exit 1; fi
run_demo mutated
cargo test --workspace --no-fail-fast --offline > "$SD/confirm.tests.txt" 2>&1
FAILED=$(grep -E "^test .* FAILED$" "$SD/confirm.tests.txt" | wc -l)
PASSED=$(grep -E "^test result" "$SD/confirm.tests.txt" | sed -E 's/.* ([0-9]+) passed.*/\1/' | paste -sd+ | bc)
if cmp -s "$SD/confirm.clean.txt" "$SD/confirm.mutated.txt"; then DEMO="DEMO-SAME(!)"; else DEMO="demo-differs"; fi
echo "$ID: compiles, tests passed=$PASSED failed=$FAILED, $DEMO"

"""T-PANIC: explicit panic sites with typed constraint sets."""
import re

from .mir import norm, show

RT_TYPES = {"runtime::Value", "process::HostValue", "arena::cow::ArenaCow", "runtime::ExecFlow"}
OP_TYPES = {
    "syntax::parser::BinaryOp", "syntax::parser::UnaryOp", "builtins::GlobalBuiltin", "builtins::string::StringBuiltin",
    "builtins::array::ArrayBuiltin", "builtins::number::NumberBuiltin", "builtins::process::ProcessCommandBuiltin",
    "builtins::process::ProcessResultBuiltin", "builtins::MemberBuiltin", "builtins::StringBuiltin", "builtins::ArrayBuiltin",
    "builtins::NumberBuiltin", "builtins::ProcessCommandBuiltin", "builtins::ProcessResultBuiltin",
}
AST_TYPES = {"syntax::parser::Expr", "syntax::parser::Stmt", "syntax::parser::StringParts", "syntax::parser::StringSegment"}
NEUTRAL = {"FLOW", "ITER", "PASS"}
FLOW_TYPES = {"std::ops::ControlFlow", "std::result::Result", "core::ops::ControlFlow", "core::result::Result"}


def base_ty(ty):
    """'&runtime::Value<'a>' -> 'runtime::Value'"""
    t = norm(ty) or ""
    t = t.lstrip("&").replace("mut ", "").strip()
    return t


def place_sig(fn, pl):
    """Stable textual form of a place: user variable names kept, temporaries anonymised."""
    name = fn.locals[pl["l"]]["name"]
    s = name if name else "_"
    for e in pl["p"]:
        if e == "*":
            continue
        if isinstance(e, dict) and "f" in e:
            s += "." + e["f"]
        elif isinstance(e, dict) and "as" in e:
            s += "@" + e["as"]
        elif isinstance(e, dict) and ("idx" in e or "cidx" in e):
            s += "[]"
    return s


def label_names(fn, S, labels, si=None):
    """Translate switch labels to names (variant names / true,false / ints)."""
    si = si or fn.switch_info(S)
    succ_labels = [lab for lab, _ in fn.succ[S]]
    if si["kind"] == "discr" and si["vars"]:
        explicit = {lab for lab in succ_labels if lab != "else"}
        names = set()
        for lab in labels:
            if lab == "else":
                names |= {n for v, n in si["vars"].items() if v not in explicit}
            else:
                names.add(si["vars"].get(lab, str(lab)))
        return names
    # a threaded switch (see Fn.switch_info): the outcome the short-circuit constants also produce says nothing about the
    # computed value - it gets a name of its own so that no rule mistakes it for `false` / `true` of the predicate
    if si.get("threaded"):
        names = set()
        for lab in labels:
            is_zero = (lab == 0)
            if lab == "else":
                explicit = {l_ for l_ in succ_labels if l_ != "else"}
                is_zero = 0 not in explicit
            v = 0 if is_zero else 1
            names.add(("false" if v == 0 else "true") + ("?" if v == si.get("weak_label") else ""))
        return names
    # boolean-like
    names = set()
    for lab in labels:
        if lab == 0:
            names.add("false")
        elif lab == "else" and set(succ_labels) == {0, "else"}:
            names.add("true")
        elif lab == 1:
            names.add("true")
        else:
            names.add(str(lab))
    return names


def classify_switch(fn, S, prog=None, _depth=0):
    """-> (cls, subject) where cls in RT OP AST FLOW LOOKUP LEN VAL CFG OTHER and subject is a stable text."""
    si = fn.switch_info(S)
    k = si["kind"]
    if k == "discr":
        ty = base_ty(si["ty"])
        subj = "%s(%s)" % (ty.split("::")[-1], place_sig(fn, si["of"]))
        if ty in RT_TYPES:
            return "RT", subj, si
        if ty in OP_TYPES:
            return "OP", subj, si
        if ty in AST_TYPES:
            return "AST", subj, si
        if ty in FLOW_TYPES:
            return "FLOW", subj, si
        if ty.endswith("::Option") or ty == "std::option::Option":
            src = option_source(fn, si["of"])
            subj = "Option(%s)" % src
            if src == "next":
                return "ITER", subj, si
            if re.search(r"(bound_|lookup_|facts|find|user_call_callee|function_by_body|stmt_id|stmt_local|expr_local|last|pop|get)", src):
                return "LOOKUP", subj, si
            if "from_name" in src:
                return "OP", subj, si
            return "OTHER", subj, si
        return "OTHER", subj, si
    if k == "multi":
        # a bool assigned constants in several arms: matches!(x, ..) / a && b / a || b
        classes = set()
        subs = []
        if _depth < 3:
            for (bi, kk, s) in si["defs"]:
                for (S2, lab) in fn.deciding(bi):
                    if S2 == S:
                        continue
                    c2, sub2, _ = classify_switch(fn, S2, prog, _depth + 1)
                    classes.add(c2)
                    subs.append(sub2)
        classes.discard("FLOW")
        subj = "cond(" + "|".join(sorted(set(subs))) + ")"
        if len(classes) == 1:
            return classes.pop(), subj, si
        if classes and classes <= {"RT", "OP", "AST", "VAL"}:
            return ("RT" if "RT" in classes else "OP" if "OP" in classes else "VAL"), subj, si
        return "OTHER", subj, si
    if k == "bin":
        a = fn.expr(si["a"], 6)
        b = fn.expr(si["b"], 6)
        txt = "%s(%s,%s)" % (si["op"], sig_expr(a), sig_expr(b))
        if "len(" in txt or ".len" in txt or "::len" in txt:
            return "LEN", txt, si
        tys = operand_ty(fn, si["a"]), operand_ty(fn, si["b"])
        if "f64" in tys:
            return "VAL", txt, si
        return "OTHER", txt, si
    if k == "call":
        cal = si["callee"] or "?"
        short = cal.split("::")[-1]
        if short in ("has_frame_arena",):
            return "CFG", short, si
        if short in ("is_finite", "fract") or "f64" in cal:
            return "VAL", short, si
        if short in ("eq", "ne", "lt", "gt", "le", "ge") or "PartialEq" in cal or "PartialOrd" in cal:
            return "VAL", short, si
        if short in ("is_some", "is_none", "is_some_and"):
            return "LOOKUP", short, si
        if short in ("is_empty", "len"):
            return "LEN", short, si
        if short in ("requires_mut_receiver",):
            return "OP", short, si
        return "OTHER", short, si
    if k == "place":
        if base_ty(si.get("ty", "")) in RT_TYPES:
            return "RT", place_sig(fn, si["place"]), si
        return "OTHER", place_sig(fn, si["place"]), si
    if k == "un":
        return "OTHER", "un", si
    return "OTHER", k, si


def operand_ty(fn, o):
    if isinstance(o, dict):
        if "const" in o:
            return o.get("ty", "")
        pl = o.get("copy") or o.get("move")
        if pl and not pl["p"]:
            return fn.locals[pl["l"]]["ty"]
    return ""


def sig_expr(e):
    """Expression text with temporaries anonymised (stable across unrelated edits)."""
    s = show(e)
    return re.sub(r"_\d+", "_", s)


def option_source(fn, pl):
    """Where does the Option in `pl` come from (callee short name or variable)."""
    name = fn.locals[pl["l"]]["name"]
    e = fn.place_expr({"l": pl["l"], "p": []}, 6)
    while e[0] in ("ref", "deref", "field", "as"):
        e = e[1]
    if e[0] == "call":
        return e[1].split("::")[-1]
    if name:
        return "var:" + name
    return sig_expr(e)


class Site:
    def __init__(self, fn, block, kind, callee, line):
        self.fn = fn
        self.block = block
        self.kind = kind          # diverge | expect | assert
        self.callee = callee
        self.line = line
        self.cons = []            # (cls, subject, names(set), S, dominating)
        self.message = ""

    def classes(self):
        return {c[0] for c in self.cons if c[0] not in NEUTRAL}

    def signature(self):
        by = {}
        for cls, subj, names, S, dom in self.cons:
            if cls in NEUTRAL:
                continue
            if dom:
                by[subj] = (by[subj] & names) if subj in by else set(names)
        alt = {}
        for cls, subj, names, S, dom in self.cons:
            if cls not in NEUTRAL and not dom:
                alt.setdefault(subj, set()).update(names)
        for subj, names in alt.items():
            by[subj] = (by[subj] & names) if subj in by else names
        return " ∧ ".join("%s∈{%s}" % (k, ",".join(sorted(v))) for k, v in sorted(by.items()))

    def empty_intersection(self):
        by = {}
        alt = {}
        for cls, subj, names, S, dom in self.cons:
            if cls in NEUTRAL:
                continue
            if dom:
                by.setdefault(subj, []).append(names)
            else:
                alt.setdefault(subj, set()).update(names)
        for subj, names in alt.items():
            by.setdefault(subj, []).append(names)
        for subj, sets in by.items():
            inter = set.intersection(*sets)
            if not inter:
                return subj
        return None


def panic_message(fn, block):
    """Literal text handed to the panic (description only, never part of a key)."""
    seen = set()
    st = [block]
    hops = 0
    while st and hops < 6:
        b = st.pop()
        if b in seen:
            continue
        seen.add(b)
        hops += 1
        t = fn.blocks[b]["t"]
        for a in t.get("args", []):
            if isinstance(a, dict) and "const" in a and '"' in a["const"]:
                return a["const"].strip('"')[:140]
        for p, lab in fn.pred[b]:
            if len(fn.succ[p]) == 1:
                st.append(p)
    return ""


def collect_sites(fn, prog=None, include_expect=True):
    """All explicit panic sites of a body with typed constraints."""
    sites = []
    for c in fn.calls():
        short = (c.callee or "").split("::")[-1]
        if c.target is None:
            if c.exp and (c.callee or "").endswith("precondition_check"):
                continue
            sites.append(Site(fn, c.block, "diverge", c.callee, c.line))
        elif include_expect and short in ("expect", "unwrap") and re.search(r"(option::Option|result::Result)::(expect|unwrap)$", c.callee or ""):
            sites.append(Site(fn, c.block, "expect", c.callee, c.line))
    exits = set(fn.exits())
    for st in sites:
        P = st.block
        entries = []
        domset = set()
        for S, al in fn.constraints(P):
            domset.add(S)
            entries.append((S, set(al), True))
        dec = {}
        for S, lab in fn.deciding(P):
            dec.setdefault(S, set()).add(lab)
        for S, labs in dec.items():
            if S in domset or fn.dominates(S, P):
                continue  # already expressed (or unrestricted) as a dominating constraint
            entries.append((S, labs, False))
        for S, labs, dom in sorted(entries, key=lambda e: e[0]):
            cls, subj, si = classify_switch(fn, S, prog)
            names = label_names(fn, S, labs, si)
            if not names and not dom:
                continue  # infeasible otherwise-edge of an exhaustive switch
            if dom and cls not in ("RT", "OP", "AST"):
                # "survived a check": every other outcome of S ends in a panic (assert!/assert_eq!)
                others = [j for lab, j in fn.succ[S] if lab not in labs]
                if others and not (fn.reach(others, removed_nodes=[S]) & exits):
                    cls = "PASS"
            st.cons.append((cls, subj, names, S, dom))
        st.message = panic_message(fn, P)
    return sites

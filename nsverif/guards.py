"""T-EXPR: relational guards that edge-dominate a use."""
from .mir import show

CMP = {"Lt", "Le", "Gt", "Ge", "Eq", "Ne"}
NEG = {"Lt": "Ge", "Le": "Gt", "Gt": "Le", "Ge": "Lt", "Eq": "Ne", "Ne": "Eq"}
FLIP = {"Lt": "Gt", "Le": "Ge", "Gt": "Lt", "Ge": "Le", "Eq": "Eq", "Ne": "Ne"}

IDENT_CALLS = ("cast_signed", "cast_unsigned", "clone", "deref", "deref_mut", "as_ref", "as_mut", "borrow", "into", "from", "as_bytes", "as_slice", "as_mut_slice", "as_str")
LEN_CALLS = ("len",)


def ne(e):
    """Normalise an expression tree: strip refs/derefs/casts/identity calls; len() calls -> ('len', x)."""
    k = e[0]
    if k in ("ref", "deref"):
        return ne(e[1])
    if k == "cast":
        return ne(e[1])
    if k == "var":
        return ("var", e[1])
    if k == "call":
        short = e[1].split("::")[-1]
        if short in IDENT_CALLS and len(e[2]) == 1:
            return ne(e[2][0])
        if short in LEN_CALLS and len(e[2]) == 1:
            return ("len", ne(e[2][0]))
        return ("call", e[1], tuple(ne(a) for a in e[2]))
    if k == "len":
        return ("len", ne(e[1]))
    if k == "bin":
        return ("bin", e[1], ne(e[2]), ne(e[3]))
    if k == "un":
        return ("un", e[1], ne(e[2]))
    if k == "field":
        return ("field", ne(e[1]), e[2])
    if k == "as":
        return ("as", ne(e[1]), e[2])
    if k == "index":
        return ("index", ne(e[1]), ne(e[2]))
    if k == "const":
        return ("const", e[2] if e[2] is not None else e[1])
    if k in ("local", "phi", "arg"):
        return (k, e[1])
    if k == "discr":
        return ("discr", ne(e[1]))
    if k == "agg":
        return ("agg", e[1], e[2], tuple(ne(a) for a in e[3]))
    return ("other", str(e[1:]))


def sh(e):
    k = e[0]
    if k == "var":
        return e[1]
    if k == "const":
        return str(e[1])
    if k == "len":
        return "len(%s)" % sh(e[1])
    if k == "bin":
        return "%s(%s,%s)" % (e[1], sh(e[2]), sh(e[3]))
    if k == "un":
        return "%s(%s)" % (e[1], sh(e[2]))
    if k == "field":
        return "%s.%s" % (sh(e[1]), e[2])
    if k == "as":
        return "%s@%s" % (sh(e[1]), e[2])
    if k == "index":
        return "%s[%s]" % (sh(e[1]), sh(e[2]))
    if k == "call":
        return "%s(%s)" % (e[1].split("::")[-1], ",".join(sh(a) for a in e[2]))
    if k in ("local", "phi"):
        return "_"
    if k == "arg":
        return "arg%d" % e[1]
    if k == "agg":
        return "%s::%s{%s}" % (e[1].split("::")[-1], e[2], ",".join(sh(a) for a in e[3]))
    if k == "discr":
        return "discr(%s)" % sh(e[1])
    return "?"


def vars_of(e, out=None):
    if out is None:
        out = set()
    if isinstance(e, tuple):
        if e and e[0] == "var":
            out.add(e[1])
        for x in e[1:]:
            vars_of(x, out)
    return out


def cmp_facts(fn, P, depth=10):
    """Relational facts that hold at block P: [(op, A, B, S)] meaning `A op B` is known true.
    From edge-dominating switches on comparison results; both orientations are NOT generated (see holds())."""
    facts = []
    for S, allowed in fn.constraints(P):
        si = fn.switch_info(S)
        if si["kind"] != "bin" or si["op"] not in CMP:
            continue
        labs = set(allowed)
        if labs == {0}:
            truth = False
        elif labs and 0 not in labs:
            truth = True
        else:
            continue
        A = ne(fn.expr(si["a"], depth))
        B = ne(fn.expr(si["b"], depth))
        op = si["op"] if truth else NEG[si["op"]]
        if stale(fn, S, P, vars_of(A) | vars_of(B)):
            continue
        facts.append((op, A, B, S))
    return facts


def stale(fn, S, P, names):
    """Is any named user variable re-assigned on some path from the test S to the use P?"""
    if not names:
        return False
    locs = {i for i, l in enumerate(fn.locals) if l["name"] in names}
    # paths S -> P that do not re-enter S (a re-entry re-evaluates the test)
    fwd = fn.reach([j for _, j in fn.succ[S]], removed_nodes=[S])
    back = set()
    st = [P]
    while st:
        x = st.pop()
        if x in back or x == S:
            continue
        back.add(x)
        for p, _ in fn.pred[x]:
            st.append(p)
    between = (fwd & back) - {P}
    for b in between:
        if b == S:
            continue
        for s in fn.blocks[b]["s"]:
            if s["lhs"]["l"] in locs and not s["lhs"]["p"]:
                return True
        t = fn.blocks[b]["t"]
        if t["k"] == "call" and t["dest"]["l"] in locs and not t["dest"]["p"]:
            return True
    return False


def upper_bound(facts, idx, bound, strict=True):
    """Is `idx < bound` (strict) or `idx <= bound` known?  Also accepts idx + k <= bound (k>=1) for strict.
    Returns ('ok', fact) | ('offbyone', fact) | ('none', None)."""
    weak = None
    for op, A, B, S in facts:
        for (o, a, b) in ((op, A, B), (FLIP[op], B, A)):
            if b != bound:
                continue
            if a == idx:
                if o == "Lt":
                    return "ok", (o, a, b, S)
                if o == "Le":
                    if not strict:
                        return "ok", (o, a, b, S)
                    weak = (o, a, b, S)
            # idx + k <= bound / idx + k < bound
            if a[0] == "bin" and a[1] == "Add":
                for x, y in ((a[2], a[3]), (a[3], a[2])):
                    if x == idx and y[0] == "const" and isinstance(y[1], int) and y[1] >= 1 and o in ("Le", "Lt"):
                        return "ok", (o, a, b, S)
    if weak:
        return "offbyone", weak
    return "none", None

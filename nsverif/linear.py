"""Linear normal form of reconstructed integer expressions.

lin(e) turns a normalised expression tree (guards.ne) built from +, -, multiplication by a constant and opaque leaves into
({leaf text: coefficient}, constant), or None when the expression is not linear in its leaves.  Two expressions with the same
normal form compute the same value whatever the spelling (`a - b + c`, `a - (b - c)`, `c + a - b`), so a rule can state what a
watermark or a length has to *be* instead of how it has to be written.  Wrapping/overflow is not modelled: the forms are equal
as integers, and the code under analysis keeps its offsets far below the word size."""
from .guards import sh

ADD = {"Add", "AddWithOverflow", "AddUnchecked"}
SUB = {"Sub", "SubWithOverflow", "SubUnchecked"}
MUL = {"Mul", "MulWithOverflow", "MulUnchecked"}


def lin(e):
    k = e[0]
    if k == "const":
        v = e[1] if isinstance(e[1], int) else (e[2] if len(e) > 2 and isinstance(e[2], int) else None)
        return ({}, v) if v is not None else ({sh(e): 1}, 0)
    if k == "bin" and e[1] in ADD | SUB:
        a, b = lin(e[2]), lin(e[3])
        if a is None or b is None:
            return None
        sign = 1 if e[1] in ADD else -1
        co = dict(a[0])
        for kk, v in b[0].items():
            co[kk] = co.get(kk, 0) + sign * v
        return ({kk: v for kk, v in co.items() if v != 0}, a[1] + sign * b[1])
    if k == "bin" and e[1] in MUL:
        a, b = lin(e[2]), lin(e[3])
        if a is None or b is None:
            return None
        if not a[0]:
            a, b = b, a
        if b[0]:
            return ({sh(e): 1}, 0)      # product of two non-constants: one opaque leaf
        return ({kk: v * b[1] for kk, v in a[0].items() if v * b[1] != 0}, a[1] * b[1])
    if k == "call" and e[1].split("::")[-1] in ("wrapping_add", "unchecked_add", "saturating_add") and len(e[2]) == 2:
        return lin(("bin", "Add", e[2][0], e[2][1]))
    if k == "call" and e[1].split("::")[-1] in ("wrapping_sub", "unchecked_sub") and len(e[2]) == 2:
        return lin(("bin", "Sub", e[2][0], e[2][1]))
    # a checked sum / difference / product whose failure leaves the function (`a.checked_add(b).ok_or(E)?`, `.unwrap()`,
    # `.expect(..)`): on the path that continues, the value is the plain result
    if k == "field" and str(e[2]) == "0" and isinstance(e[1], tuple) and e[1][0] == "as" and e[1][2] in ("Continue", "Some", "Ok"):
        inner = e[1][1]
        if isinstance(inner, tuple) and inner[0] == "call" and inner[1].endswith("::branch") and len(inner[2]) == 1:
            inner = inner[2][0]
        for _ in range(2):
            if isinstance(inner, tuple) and inner[0] == "call" and inner[1].split("::")[-1] in ("ok_or", "ok_or_else") and inner[2]:
                inner = inner[2][0]
        if isinstance(inner, tuple) and inner[0] == "call" and inner[1].split("::")[-1] in ("checked_add", "checked_sub", "checked_mul") and len(inner[2]) == 2:
            op = {"checked_add": "Add", "checked_sub": "Sub", "checked_mul": "Mul"}[inner[1].split("::")[-1]]
            return lin(("bin", op, inner[2][0], inner[2][1]))
    if k == "call" and e[1].split("::")[-1] in ("unwrap", "expect") and e[2] and isinstance(e[2][0], tuple) and e[2][0][0] == "call" and e[2][0][1].split("::")[-1] in ("checked_add", "checked_sub", "checked_mul") and len(e[2][0][2]) == 2:
        op = {"checked_add": "Add", "checked_sub": "Sub", "checked_mul": "Mul"}[e[2][0][1].split("::")[-1]]
        return lin(("bin", op, e[2][0][2][0], e[2][0][2][1]))
    return ({sh(e): 1}, 0)


def same(e1, e2):
    a, b = lin(e1), lin(e2)
    return a is not None and a == b


def show(e):
    l = lin(e)
    if l is None:
        return sh(e)
    parts = ["%s%s" % ("" if v == 1 else "-" if v == -1 else "%d*" % v, k) for k, v in sorted(l[0].items())]
    if l[1] or not parts:
        parts.append(str(l[1]))
    return " + ".join(parts).replace("+ -", "- ")

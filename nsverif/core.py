"""Check context: obligations, violations, known findings, evidence, exit status."""
import hashlib
import json
import os
import sys
import time
import traceback

from . import facts as factsmod
from .mir import AnchorMissing, Program

VERIF = factsmod.VERIF
KF_PATH = os.path.join(VERIF, "known_findings.json")
# runs against a scratch copy (self-test, seeded mutants) must not overwrite the committed evidence
if os.environ.get("NSV_EVIDENCE_DIR"):
    EVID = os.environ["NSV_EVIDENCE_DIR"]
elif factsmod.REPO != "/repo":
    EVID = os.path.join("/tmp", "nsv-evidence-%d" % os.getuid(), factsmod.REPO.strip("/").replace("/", "_"))
else:
    EVID = os.path.join(VERIF, "evidence")


def load_known_findings():
    try:
        with open(KF_PATH) as fh:
            return json.load(fh)["findings"]
    except FileNotFoundError:
        return []


class Ctx:
    def __init__(self, prop, tier, cfg, lib, binp, repo):
        self.prop = prop
        self.tier = tier
        self.cfg = cfg
        self.lib = lib      # Program (library crate)
        self.bin = binp     # Program (naija binary crate)
        self.repo = repo
        self.rule = None
        self.records = []   # dict(rule, cfg, instance, status, where, detail)
        self.fn_seen = set()
        self.call_sites = 0
        self.notes = []

    # ---- recording
    def touch(self, fn):
        self.fn_seen.add(fn.id)

    def ok(self, instance, where="", detail=""):
        self.records.append(dict(rule=self.rule, cfg=self.cfg, instance=instance, status="ok", where=where, detail=detail))

    def bad(self, key, where, what, witness=None):
        """key: structural identity of the violating construct (no line numbers)."""
        self.records.append(dict(rule=self.rule, cfg=self.cfg, instance=key, status="violation", where=where, detail=what, witness=witness,
                                 key="%s|%s" % (self.rule, key)))

    def floor(self, what, count, minimum):
        if count < minimum:
            self.bad("floor|%s" % what, "", "rule instance count for '%s' fell to %d, below the audited floor %d: the mechanism moved or the rule no longer sees it; re-audit" % (what, count, minimum))
        else:
            self.ok("floor|%s" % what, "", "%d instances (floor %d)" % (count, minimum))

    def note(self, text):
        self.notes.append("[%s/%s] %s" % (self.rule, self.cfg, text))

    def need(self, fid, prog=None):
        return (prog or self.lib).need(fid)


def run_check(prop, rules, tier, explanation, assumptions, trusted_base, nontrivial_rule, only_key=None, extra=None):
    """rules: list of (rule_id, callable(ctx)).  Returns exit code."""
    t0 = time.time()
    cfgs = ["dev"] if tier == "quick" else ["dev", "release"]
    records = []
    fn_seen = set()
    call_sites = 0
    notes = []
    machinery = []
    for cfg in cfgs:
        try:
            f = factsmod.load(cfg)
        except factsmod.MachineryError as e:
            print("MACHINERY-ERROR: %s" % e, file=sys.stderr)
            return 2
        roles = {}
        try:
            with open(os.path.join(VERIF, "reference", "local_roles.json")) as fh:
                roles = json.load(fh).get(cfg, {})
        except FileNotFoundError:
            pass
        spliced = []
        if roles:
            import copy
            from .mir import inline_new_helpers
            # helpers that did not exist when the rules were written are spliced back into their callers (on a copy: the
            # loaded facts are shared between rule runs of one process)
            for part in ("lib", "bin"):
                known = set(roles.get(part, {}))
                ids = {n_["id"] for n_ in f[part]["fns"]}
                from .mir import norm as _norm
                if any(_norm(i) not in known and "{closure" not in i for i in ids):
                    f = dict(f)
                    f[part] = copy.deepcopy(f[part])
                    spliced += inline_new_helpers(f[part], known)
        lib = Program(f["lib"])
        binp = Program(f["bin"])
        renamed = 0
        if roles:
            from .mir import apply_local_roles
            renamed = apply_local_roles(lib, roles.get("lib")) + apply_local_roles(binp, roles.get("bin"))
        from . import tables as _tables
        _tables.PEVAL_PROG = lib
        ctx = Ctx(prop, tier, cfg, lib, binp, f["repo"])
        for rid, fnc in rules:
            ctx.rule = rid
            try:
                fnc(ctx)
            except AnchorMissing as e:
                ctx.bad("anchor-missing|%s" % e, "", "anchor %s not found in the %s build: the mechanism this rule audits was renamed or removed; re-audit required" % (e, cfg))
            except Exception:
                machinery.append("%s/%s: %s" % (rid, cfg, traceback.format_exc()))
        records += ctx.records
        fn_seen |= ctx.fn_seen
        notes += ctx.notes
        call_sites += sum(len(lib.fns[k].calls()) for k in ctx.fn_seen if k in lib.fns)
    if machinery:
        for m in machinery:
            print("MACHINERY-ERROR: %s" % m, file=sys.stderr)
        return 2

    # ---- known findings
    kfs = [k for k in load_known_findings() if k["property"] == prop]
    open_keys = {k["key"]: k for k in kfs if k.get("status") == "open"}
    viol = {}
    for r in records:
        if r["status"] == "violation":
            viol.setdefault(r["key"], []).append(r)
    known_hit = []
    new = []
    if only_key is not None:
        viol = {k: v for k, v in viol.items() if k == only_key}
        if not viol:
            print("replay: %s does not reproduce on the current tree" % only_key)
    for key, rs in sorted(viol.items()):
        if key in open_keys:
            known_hit.append((key, rs))
        else:
            new.append((key, rs))
    os.makedirs(os.path.join(EVID, "replay"), exist_ok=True)
    for key, rs in known_hit:
        print("KNOWN-FINDING: property=%s %s -- %s" % (prop, key, open_keys[key]["what_fails"]))
    for key, rs in new:
        h = hashlib.sha256(key.encode()).hexdigest()[:12]
        path = os.path.join(EVID, "replay", "%s-%s.json" % (prop, h))
        with open(path, "w") as fh:
            json.dump(dict(property=prop, key=key, reports=rs), fh, indent=1)
        r = rs[0]
        print("  rule=%s cfg=%s at %s\n    key: %s\n    %s" % (r["rule"], ",".join(sorted({x["cfg"] for x in rs})), r["where"], key, r["detail"]))
        print("VIOLATION property=%s replay=%s" % (prop, path))
    stale = [k for k in open_keys if k not in viol]
    for k in stale:
        print("note: known finding no longer reproduced (can be marked fixed): %s" % k)

    # ---- evidence
    oks = [r for r in records if r["status"] == "ok"]
    distinct = {(r["rule"], r["instance"]) for r in records if not r["instance"].startswith("floor|")}
    by_rule = {}
    for r in records:
        d = by_rule.setdefault(r["rule"], dict(obligations=0, discharged=0, violations=0))
        d["obligations"] += 1
        if r["status"] == "ok":
            d["discharged"] += 1
        else:
            d["violations"] += 1
    samples = []
    seen_rules = set()
    for r in records:
        if r["rule"] not in seen_rules or len(samples) < 12:
            if r["instance"].startswith("floor|"):
                continue
            seen_rules.add(r["rule"])
            samples.append(dict(rule=r["rule"], cfg=r["cfg"], instance=r["instance"], status=r["status"], where=r["where"], detail=(r["detail"] or "")[:300]))
        if len(samples) >= 40:
            break
    ev = dict(
        property_id=prop,
        tier=tier,
        seed=int(os.environ.get("VERIF_SEED", "0") or 0),
        level="other",
        coverage=dict(
            explanation=explanation,
            obligations=len(records),
            discharged=len(oks),
            evaluations=len(records),
            distinct_nontrivial=len(distinct),
            rule=nontrivial_rule,
            samples=samples,
            checker_cmd="./check %s --tier %s" % (prop, tier),
            trusted_base=trusted_base,
            functions_analysed=len(fn_seen),
            call_sites=call_sites,
            configs=cfgs,
            rules=by_rule,
            known_findings_matched=[k for k, _ in known_hit],
            new_violations=[k for k, _ in new],
            notes=notes[:50],
            ledger=["%s %s %s %s%s" % (r["cfg"], r["rule"], "ok " if r["status"] == "ok" else ("KF " if any(k == r.get("key") for k, _ in known_hit) else "BAD"), r["instance"][:140], (" @ " + r["where"].split(" ")[0]) if r["where"] else "") for r in records][:6000],
            functions=sorted(fn_seen)[:600],
            tree_hash=factsmod.tree_hash(),
            exhaustive=False,
        ),
        assumptions=assumptions,
        wall_s=round(time.time() - t0, 3),
        violations=len(new),
    )
    with open(os.path.join(EVID, "%s.json" % prop), "w") as fh:
        json.dump(ev, fh, indent=1)
    print("%s tier=%s cfgs=%s obligations=%d discharged=%d known=%d new=%d wall=%.1fs" % (
        prop, tier, ",".join(cfgs), len(records), len(oks), len(known_hit), len(new), time.time() - t0))
    return 1 if new else 0

"""Fact export: runs the nsx rustc driver over /repo's *current working tree* and loads the JSON.

Facts are cached by a hash of everything that feeds the build, so all checks on one tree state
share one export and every edit to /repo forces a re-export (fail closed: a missing or stale fact
file is an error, never a silent pass)."""
import fcntl
import hashlib
import json
import os
import shutil
import subprocess
import sys
import time

VERIF = os.path.dirname(os.path.dirname(os.path.abspath(__file__)))
REPO = os.environ.get("NSV_REPO", "/repo")
CACHE = os.environ.get("NSV_CACHE", os.path.join(VERIF, ".cache"))
NSX = os.path.join(VERIF, "nsx", "target", "release", "nsx")

HASH_ROOTS = ["src", "wasm", "Cargo.toml", "Cargo.lock", ".cargo", "rust-toolchain.toml", "build.rs"]


class MachineryError(Exception):
    """The checker itself is broken (exit 2); never reported as a property violation."""


def _iter_files(root):
    for base in HASH_ROOTS:
        p = os.path.join(root, base)
        if os.path.isfile(p):
            yield p
        elif os.path.isdir(p):
            for d, dirs, files in os.walk(p):
                dirs[:] = sorted(x for x in dirs if x != "target")
                for f in sorted(files):
                    yield os.path.join(d, f)


def tree_hash(repo=REPO):
    h = hashlib.sha256()
    for p in _iter_files(repo):
        h.update(os.path.relpath(p, repo).encode())
        h.update(b"\0")
        with open(p, "rb") as fh:
            h.update(hashlib.sha256(fh.read()).digest())
    with open(NSX, "rb") as fh:
        h.update(hashlib.sha256(fh.read()).digest())
    return h.hexdigest()[:24]


def ensure_nsx():
    if not os.path.exists(NSX):
        r = subprocess.run([os.path.join(VERIF, "setup.sh")], capture_output=True, text=True)
        if r.returncode != 0 or not os.path.exists(NSX):
            raise MachineryError("cannot build nsx exporter:\n" + r.stdout + r.stderr)


def _sysroot():
    return subprocess.check_output(["rustc", "+nightly", "--print", "sysroot"], text=True).strip()


def _export(cfg, outdir, repo):
    target = os.path.join(CACHE, "target-" + cfg)
    os.makedirs(target, exist_ok=True)
    prof = "release" if cfg == "release" else "debug"
    fp = os.path.join(target, prof, ".fingerprint")
    if os.path.isdir(fp):
        for d in os.listdir(fp):
            if d.startswith("naijascript-") or d.startswith("naija-"):
                shutil.rmtree(os.path.join(fp, d), ignore_errors=True)
    tmp = outdir + ".tmp%d" % os.getpid()
    shutil.rmtree(tmp, ignore_errors=True)
    os.makedirs(tmp)
    nonce = "%s-%d-%f" % (cfg, os.getpid(), time.time())
    env = dict(os.environ)
    env.update(
        LD_LIBRARY_PATH=_sysroot() + "/lib",
        NSX_CRATES="naijascript,naija",
        NSX_OUT=tmp,
        NSX_NONCE=nonce,
        RUSTFLAGS="-Zmir-opt-level=0 -Awarnings",
        RUSTC_WORKSPACE_WRAPPER=NSX,
        CARGO_TARGET_DIR=target,
        CARGO_NET_OFFLINE="true",
    )
    env.pop("RUSTC_WRAPPER", None)
    cmd = ["cargo", "+nightly", "check", "--offline", "-p", "naijascript", "--lib", "--bins"]
    if cfg == "release":
        cmd.append("--release")
    r = subprocess.run(cmd, cwd=repo, env=env, capture_output=True, text=True)
    if r.returncode != 0:
        shutil.rmtree(tmp, ignore_errors=True)
        raise MachineryError("cargo check failed on %s (cfg %s):\n%s" % (repo, cfg, r.stderr[-4000:]))
    for name in ("naijascript.lib.json", "naija.bin.json"):
        p = os.path.join(tmp, name)
        if not os.path.exists(p):
            raise MachineryError("exporter did not write %s (cargo freshness cache?)" % name)
        with open(p) as fh:
            head = fh.read(400)
        if nonce not in head:
            raise MachineryError("fact file %s does not carry this run's nonce" % name)
    shutil.rmtree(outdir, ignore_errors=True)
    os.rename(tmp, outdir)


def _prune(keep):
    root = os.path.join(CACHE, "facts")
    try:
        ents = sorted(
            (os.path.getmtime(os.path.join(root, d)), d) for d in os.listdir(root) if d != keep
        )
    except FileNotFoundError:
        return
    for _, d in ents[:-3]:
        shutil.rmtree(os.path.join(root, d), ignore_errors=True)


_loaded = {}


def load(cfg="dev", repo=REPO):
    """Returns {'lib': doc, 'bin': doc, 'hash': treehash, 'cfg': cfg}."""
    key = (cfg, repo)
    if key in _loaded:
        return _loaded[key]
    ensure_nsx()
    os.makedirs(CACHE, exist_ok=True)
    with open(os.path.join(CACHE, "lock"), "w") as lk:
        fcntl.flock(lk, fcntl.LOCK_EX)
        th = tree_hash(repo)
        outdir = os.path.join(CACHE, "facts", th, cfg)
        fresh = False
        if not os.path.exists(os.path.join(outdir, "naijascript.lib.json")):
            os.makedirs(os.path.dirname(outdir), exist_ok=True)
            _export(cfg, outdir, repo)
            if not os.environ.get("NSV_NOPRUNE"):
                _prune(th)
            fresh = True
        fcntl.flock(lk, fcntl.LOCK_UN)
    with open(os.path.join(outdir, "naijascript.lib.json")) as fh:
        lib = json.load(fh)
    with open(os.path.join(outdir, "naija.bin.json")) as fh:
        binj = json.load(fh)
    want_da = cfg != "release"
    if lib.get("debug_assertions") != want_da:
        raise MachineryError("fact file config mismatch for %s" % cfg)
    out = {"lib": lib, "bin": binj, "hash": th, "cfg": cfg, "fresh": fresh, "repo": repo}
    _loaded[key] = out
    return out


if __name__ == "__main__":
    t = time.time()
    f = load(sys.argv[1] if len(sys.argv) > 1 else "dev")
    print(f["hash"], len(f["lib"]["fns"]), len(f["bin"]["fns"]), "fresh" if f["fresh"] else "cached", "%.1fs" % (time.time() - t))

"""Value provenance over MIR locals (flow-insensitive over the defs of a local, which is exact for the
compiler temporaries and near-SSA user variables these rules look at)."""
from .mir import norm


class Chain(int):
    """Block of the outermost assignment, carrying the blocks of the inner assignments of the copy chain."""

    def __new__(cls, outer, inner):
        o = int.__new__(cls, outer)
        o.blocks = (int(outer),) + (inner.blocks if isinstance(inner, Chain) else ((int(inner),) if inner is not None else ()))
        return o


def chain_blocks(b):
    if b is None:
        return ()
    return b.blocks if isinstance(b, Chain) else (int(b),)


def origins(fn, operand, depth=10, _seen=None):
    """All producers that can define the operand: list of (def_block, kind, detail).
    kind: 'call' (detail = callee path, Call terminator dict) | 'agg' (adt, variant, ops) | 'arg' (n)
          | 'const' | 'place' (text) | 'other'"""
    out = []
    if not isinstance(operand, dict):
        return [(None, "other", str(operand))]
    if "const" in operand:
        return [(None, "const", operand["const"])]
    pl = operand.get("move") or operand.get("copy")
    if pl is None:
        return [(None, "other", str(operand))]
    return place_origins(fn, pl, depth, _seen or frozenset())


def place_origins(fn, pl, depth=10, seen=frozenset()):
    l = pl["l"]
    if pl["p"]:
        # a projection of something: report the place and the origins of its root for context
        return [(None, "place", fn.place_str(pl))]
    if l in seen or depth <= 0:
        return [(None, "other", "cycle")]
    if 0 < l <= fn.argc:
        defs = fn.whole_defs(l)
        if not defs:
            return [(None, "arg", l)]
    seen = seen | {l}
    out = []
    defs = fn.whole_defs(l)
    if not defs:
        return [(None, "arg" if 0 < l <= fn.argc else "other", l)]
    if 0 < l <= fn.argc:
        out.append((None, "arg", l))
    for (bi, k, s) in defs:
        if k == "t":
            out.append((bi, "call", (norm(s.get("res") or s.get("callee")) or "<indirect>", s)))
            continue
        rv = s["rv"]
        kk = rv["k"]
        if kk == "use":
            a = rv["a"]
            if isinstance(a, dict) and "const" in a:
                out.append((bi, "const", a["const"]))
            else:
                p2 = a.get("move") or a.get("copy")
                if p2["p"]:
                    out.append((bi, "place", fn.place_str(p2)))
                else:
                    for (b2, k2, d2) in place_origins(fn, p2, depth - 1, seen):
                        # report the block of the outermost assignment: that is where the value enters
                        # the queried variable (what edge-dominance questions are about)
                        out.append((Chain(bi, b2), k2, d2))
        elif kk == "agg":
            out.append((bi, "agg", (norm(rv["adt"]), rv["variant"], rv["ops"])))
        elif kk in ("ref", "rawptr"):
            out.append((bi, "ref", fn.place_str(rv["of"])))
        elif kk == "cast":
            for (b2, k2, d2) in origins(fn, rv["a"], depth - 1, seen):
                out.append((Chain(bi, b2), k2, d2))
        else:
            out.append((bi, "other", kk))
    return out


def bool_switches(fn, pred):
    """Switch blocks whose scrutinee is a bool produced by something satisfying pred(kind, detail)."""
    out = []
    for S in sorted(fn.live):
        t = fn.blocks[S]["t"]
        if t["k"] != "switch":
            continue
        for (bi, k, d) in origins(fn, t["d"], 6):
            if pred(k, d):
                out.append(S)
                break
    return out


def fixpoint_flags(fn):
    """Bool locals used as the "something changed" flag of a fixpoint loop: tested by a switch, reset to false and raised to
    true inside a cycle that contains the test.  Returns [(local, [(block, kind, is_const, int|None)])]."""
    out = []
    for l, loc in enumerate(fn.locals):
        if loc["ty"].strip() != "bool" or l == 0:
            continue
        defs = fn.whole_defs(l)
        if len(defs) < 2:
            continue
        info = []
        for (b, k, st) in defs:
            if k != "t" and st["rv"]["k"] == "use" and isinstance(st["rv"]["a"], dict) and st["rv"]["a"].get("int") in (0, 1):
                info.append((b, k, True, st["rv"]["a"]["int"]))
            elif k != "t" and st["rv"]["k"] == "bin" and st["rv"]["op"] == "BitOr" and any(isinstance(o, dict) and ((o.get("copy") or o.get("move") or {}).get("l") == l) and not (o.get("copy") or o.get("move"))["p"] for o in (st["rv"]["a"], st["rv"]["b"])):
                info.append((b, k, True, 1))        # `flag |= x`: can only raise the flag - as sticky as `flag = true`
            else:
                info.append((b, k, False, None))
        if not any(c and v == 0 for (_b, _k, c, v) in info):
            continue
        tests = []
        for S in sorted(fn.live):
            t = fn.blocks[S]["t"]
            if t["k"] == "switch":
                pl = (t["d"].get("move") or t["d"].get("copy")) if isinstance(t["d"], dict) else None
                while pl is not None and not pl["p"] and pl["l"] != l:
                    dd = fn.whole_defs(pl["l"])
                    if len(dd) == 1 and dd[0][1] != "t" and dd[0][2]["rv"]["k"] == "use" and isinstance(dd[0][2]["rv"]["a"], dict):
                        pl = dd[0][2]["rv"]["a"].get("copy") or dd[0][2]["rv"]["a"].get("move")
                    else:
                        break
                if pl is not None and not pl["p"] and pl["l"] == l:
                    tests.append(S)
        if not tests:
            # a flag that is handed back instead of tested (`fn sweep(..) -> bool { let mut changed = false; for .. { .. changed
            # = true; } changed }`): reset once, raised inside a cycle, copied into the return place - the caller's loop tests it
            returned = any(st["lhs"]["l"] == 0 and not st["lhs"]["p"] and st["rv"]["k"] == "use" and isinstance(st["rv"]["a"], dict) and ((st["rv"]["a"].get("copy") or st["rv"]["a"].get("move") or {}).get("l") == l)
                           for b2 in fn.live for st in fn.blocks[b2]["s"])
            raised_in_cycle = any(c and v == 1 and b in fn.reach_from_succ(b) for (b, _k, c, v) in info) or any((not c) and b in fn.reach_from_succ(b) for (b, _k, c, v) in info)
            if returned and raised_in_cycle:
                out.append((l, info))
            continue
        resets = [b for (b, _k, c, v) in info if c and v == 0]
        in_loop = any(r in fn.reach_from_succ(S) and S in fn.reach_from_succ(r) for S in tests for r in resets)
        # a flag is lowered first and raised later: its reset comes before (dominates) another of its assignments.  A named
        # condition `let c = a && b` is also a bool that is "set to false" in a loop - on the branch where `a` is false -
        # but there each assignment sits on its own branch and none precedes another.
        lowered_first = any(b2 != r and fn.dominates(r, b2) for r in resets for (b2, _k, _c, _v) in info) or any(sum(1 for (b2, _k, _c, _v) in info if b2 == r) > 1 for r in resets)
        if in_loop and lowered_first:
            out.append((l, info))
    return out


def reaching_expr(fn, e, block, depth=3):
    """Replace a user variable that is assigned more than once by the value that reaches `block`: the one definition that
    dominates `block` and is dominated by every other dominating definition (None-safe: the tree is returned unchanged when
    there is no such unique definition, or another definition lies on a path in between)."""
    if not isinstance(e, tuple) or depth <= 0:
        return e
    if e[0] == "var" and len(e) > 2 and isinstance(e[2], int):
        l = e[2]
        defs = [(b, k, st) for (b, k, st) in fn.whole_defs(l)]
        if len(defs) > 1:
            dom = [d for d in defs if d[0] != block and fn.dominates(d[0], block)]
            if dom:
                last = [d for d in dom if all(fn.dominates(o[0], d[0]) for o in dom)]
                others = [d for d in defs if d not in dom]
                if len(last) == 1:
                    b0 = last[0][0]
                    # no other definition between the chosen one and the use
                    between = fn.reach([b0], removed_nodes=[block]) if False else None
                    blocked = False
                    for o in others:
                        if o[0] in fn.reach_from_succ(b0) and block in fn.reach([o[0]]) and not fn.dominates(block, o[0]):
                            blocked = True
                    if not blocked:
                        b, k, st = last[0]
                        if k == "t":
                            from .mir import norm
                            return ("call", norm(st.get("res") or st.get("callee")) or "<indirect>", [fn.deep(a) for a in st.get("args", [])], b)
                        return reaching_expr(fn, fn.deep_rvalue(st["rv"]), b, depth - 1)
        return e
    return tuple(reaching_expr(fn, x, block, depth) if isinstance(x, tuple) else ([reaching_expr(fn, y, block, depth) for y in x] if isinstance(x, list) else x) for x in e)

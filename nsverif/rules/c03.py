"""C03 — analysis-driven pruning never changes what a program does (mechanism integrity)."""
from ..flow import chain_blocks, origins
import re
import json

from ..guards import ne, sh
from ..mir import parent_fn
from ..panics import label_names
from ..tables import entry_discr_switch, first_arm, mir_enum_table

TYPE_SOURCE_RE = None


def _is_typed(ctx_or_none, text):
    """Does the reconstructed scrutinee derive from a static-type query of the checker (infer_expr_type, or a wrapper of it
    that takes the same expression and returns the same Option<ValueType>)?"""
    return bool(re.search(r"\b(infer_expr_type|settled_expr_type)\b", text)) or bool(TYPE_SOURCE_RE and TYPE_SOURCE_RE.search(text))


def _learn_type_sources(ctx):
    """Wrappers of infer_expr_type: resolver functions (self, expr) -> Option<ValueType> whose only type source is
    infer_expr_type on their own parameter."""
    global TYPE_SOURCE_RE
    names = []
    for fid, g in ctx.lib.fns.items():
        if g.file != "src/resolver.rs" or "{closure" in fid or g.argc != 2:
            continue
        if "ValueType" not in g.locals[0]["ty"] or "Option" not in g.locals[0]["ty"] or "parser::Expr" not in g.locals[2]["ty"]:
            continue
        names.append(re.escape(fid.split("::")[-1]))
    TYPE_SOURCE_RE = re.compile(r"\b(%s)\b" % "|".join(names)) if names else None


OPT = "analysis::opt::build_optimization_plan"
JOIN = "analysis::effects::ExprClass::join"
ORDER = {"PureNoTrap": 0, "PureMayTrap": 1, "Impure": 2}


def const_class(fn, operand):
    t = sh(ne(fn.deep(operand)))
    for k in ORDER:
        if t == "ExprClass::%s{}" % k:
            return k
    return None


def switches_on_call(fn, callee_suffix):
    """[(S, true_labels, false_labels)] for switches on the (possibly negated) bool result of a call."""
    out = []
    for S in sorted(fn.live):
        if fn.blocks[S]["t"]["k"] != "switch":
            continue
        e = ne(fn.deep(fn.blocks[S]["t"]["d"]))
        neg = False
        while e[0] == "un" and e[1] == "Not":
            neg = not neg
            e = e[2]
        if e[0] == "call" and e[1].endswith(callee_suffix):
            labs = [lab for lab, _ in fn.succ[S]]
            t = [l for l in labs if l != 0]
            f = [l for l in labs if l == 0]
            if neg:
                t, f = f, t
            out.append((S, t, f, e))
    return out


def natural_loop(fn, H):
    """Blocks of the natural loop(s) headed by H."""
    srcs = [p for p, _ in fn.pred[H] if p in fn.live and fn.dominates(H, p)]
    body = {H}
    st = list(srcs)
    while st:
        x = st.pop()
        if x in body:
            continue
        body.add(x)
        for p, _ in fn.pred[x]:
            if p in fn.live:
                st.append(p)
    return body if srcs else set()


def common_loop_head(fn, a, b):
    """Head of the innermost loop whose body contains both blocks."""
    best = None
    for H in sorted(fn.live):
        if not (fn.dominates(H, a) and fn.dominates(H, b)):
            continue
        body = natural_loop(fn, H)
        if a in body and b in body and (best is None or len(body) < best[1]):
            best = (H, len(body))
    return [best[0]] if best else []


def precedes_in_iteration(fn, first, second):
    """No `first` call can run after a `second` call within one iteration of their common loop."""
    for f in first:
        for s2 in second:
            head = common_loop_head(fn, f.block, s2.block)
            if f.block in fn.reach_from_succ(s2.block, removed_nodes=head) or f.block == s2.block:
                return False
    return True


def r1_plan_only_from_pure(ctx):
    fn = ctx.need(OPT)
    ctx.touch(fn)
    pushes = fn.calls_to("analysis::opt::push_unique")
    ne_sw = []
    for S, t, f, e in switches_on_call(fn, "::ne"):
        args = [sh(a) for a in e[2]]
        if any("stmt_effective_class" in a for a in args) and any(a == "ExprClass::PureNoTrap{}" for a in args):
            ne_sw.append((S, f, e))       # the `class == PureNoTrap` outcome is the FALSE edge of ne()
        elif any("stmt_effective_class" in a for a in args):
            ctx.bad("class-compared-with|%s" % [a for a in args if "ExprClass" in a], fn.where(S), "the removal test compares the effective class with %s, not with PureNoTrap" % args)
    for S, t, f, e in switches_on_call(fn, "::eq"):
        args = [sh(a) for a in e[2]]
        if any("stmt_effective_class" in a for a in args) and any(a == "ExprClass::PureNoTrap{}" for a in args):
            ne_sw.append((S, t, e))
    decl_sw = switches_on_call(fn, "declaration_is_runtime_removable")
    n = 0
    for c in pushes:
        item = sh(ne(fn.deep(c.args[1])))
        dst = sh(ne(fn.expr(c.args[0], 3)))
        n += 1
        if "unused_functions" in item:
            if "removable_function_defs" in dst:
                ctx.ok("push|functions", fn.where(c.block), "unused functions -> removable_function_defs")
            else:
                ctx.bad("push|functions-target", fn.where(c.block), "unused functions pushed into %s" % dst)
            continue
        if "removable_stmts" not in dst:
            ctx.bad("push|target|%s" % dst, fn.where(c.block), "statement id pushed into %s" % dst)
        if "unused_" not in item:
            # unreachable loop: only on !is_reachable
            ok = False
            for S, al in fn.constraints(c.block):
                d = sh(ne(fn.deep(fn.blocks[S]["t"]["d"])))
                if "reachable" in d and set(al) == {0}:
                    ok = True
            if ok:
                ctx.ok("push|unreachable", fn.where(c.block), "only on is_reachable == false")
            else:
                ctx.bad("push|unreachable", fn.where(c.block), "a statement is marked removable in the reachability loop without `!is_reachable`")
            continue
        src = "unused_assignments" if "unused_assignments" in item else "unused_variables" if "unused_variables" in item else None
        if src is None:
            ctx.bad("push|unknown-source", fn.where(c.block), "statement pushed from an unrecognised source `%s`" % item[:80])
            continue
        pure = any(src in sh(e[2][0]) + sh(e[2][1]) and fn.edge_dominated(c.block, S, labs) for S, labs, e in ne_sw)
        if pure:
            ctx.ok("push|%s|pure-no-trap" % src, fn.where(c.block), "edge-dominated by stmt_effective_class(..) == PureNoTrap")
        else:
            ctx.bad("push|%s|pure-no-trap" % src, fn.where(c.block), "a statement from %s becomes removable without the `stmt_effective_class == PureNoTrap` test: an impure or trapping statement can be pruned" % src)
        mine = [(S, t, f) for S, t, f, e in decl_sw if src in sh(e)]
        if not mine:
            ctx.bad("push|%s|declaration-check" % src, fn.where(c.block), "no declaration_is_runtime_removable test in the %s loop: a declaration that later statements assign to can be pruned" % src)
        elif src == "unused_variables":
            if any(fn.edge_dominated(c.block, S, t) for S, t, f in mine):
                ctx.ok("push|%s|declaration-check" % src, fn.where(c.block), "edge-dominated by declaration_is_runtime_removable == true")
            else:
                ctx.bad("push|%s|declaration-check" % src, fn.where(c.block), "unused-variable removal not restricted to runtime-removable declarations")
        else:
            # for assignments the test applies to `make` statements: the false outcome must not reach the push
            head = [x for x in fn.dominators(c.block) if any((cc.callee or "").endswith("Iterator>::next") and cc.block == x for cc in fn.calls())]
            stop = head[-1:] if head else []
            leak = False
            for S, t, f in mine:
                for lab, tgt in fn.succ[S]:
                    if lab in f and c.block in fn.reach([tgt], removed_nodes=stop + [S]):
                        leak = True
            if leak:
                ctx.bad("push|%s|declaration-check" % src, fn.where(c.block), "a `make` statement whose variable is still referenced later can be pruned (the declaration test does not block the push)")
            else:
                ctx.ok("push|%s|declaration-check" % src, fn.where(c.block), "the not-removable outcome skips the push")
    ctx.floor("push_unique sites in the plan builder", n, 4)

    # stmt_effective_class: folds callees, unavailable -> Impure, joins
    for g in ctx.lib.family("analysis::opt::stmt_effective_class"):
        ctx.touch(g)
    fam = ctx.lib.family("analysis::opt::stmt_effective_class")
    txt = json.dumps([g.m["blocks"] for g in fam])
    joins = [c for g in fam for c in g.calls_to(JOIN)]
    avail = any("available" in json.dumps(g.m["blocks"]) for g in fam)
    imp = any(s["rv"]["k"] == "agg" and s["rv"]["variant"] == "Impure" for g in fam for b in g.live for s in g.blocks[b]["s"])
    if joins and avail and imp and "direct_callees" in txt and "expr_class" in txt and "transitive_class" in txt:
        ctx.ok("effective-class|fold", fam[0].where(), "expr_class folded over direct callees with join(transitive_class); !available -> Impure")
    else:
        ctx.bad("effective-class|fold", fam[0].where(), "stmt_effective_class no longer folds every direct callee's transitive class (join=%d available=%s impure=%s)" % (len(joins), avail, imp))
    # join is the maximum over the 3x3 domain (HIR table)
    j = ctx.need(JOIN)
    ctx.touch(j)
    if not j.matches:
        ctx.bad("join|no-table", j.where(), "ExprClass::join is no longer a match over (self, other)")
    else:
        m = j.matches[0]
        for a in ORDER:
            for b in ORDER:
                arms = first_arm(m, ("T", [("V", a, []), ("V", b, [])]))
                got = None
                if arms:
                    paths = [p for p in _paths(m["arms"][arms[0]]["body_tree"])]
                    got = paths[-1].split("::")[-1] if paths else None
                want = a if ORDER[a] >= ORDER[b] else b
                if got == want:
                    ctx.ok("join|%s,%s" % (a, b), j.where(), "= %s" % got)
                else:
                    ctx.bad("join|%s,%s" % (a, b), j.where(), "join(%s, %s) = %s, expected the more severe class %s" % (a, b, got, want))


def _paths(t, out=None):
    from ..tables import tree_paths
    return tree_paths(t)


def variant_regions(fn, S, si):
    out = {}
    for lab, tgt in fn.succ[S]:
        for name in label_names(fn, S, [lab], si):
            out.setdefault(name, set()).update(fn.reach([tgt], removed_nodes=[S]))
    return out


def r1b_capture_write_is_an_effect(ctx):
    """A function that assigns to a variable of an enclosing scope has an effect its callers can observe.  Somewhere between
    the statement that performs the write and the removal test, that has to make the call non-removable: either the writing
    statement is classed Impure, or the summaries' class accounts for capture writes, or the effective class of a call
    statement consults the callee's capture-write sets."""
    from ..mir import fields_read
    where = []
    # (a) the effective class of a statement looks at the callees' capture writes
    sec = ctx.need("analysis::opt::stmt_effective_class")
    for g in ctx.lib.family(sec.id):
        ctx.touch(g)
        rd = fields_read(g, "FunctionSummary")
        for f in ("transitive_capture_writes", "direct_capture_writes"):
            if f in rd:
                # ... all of them: the question is "does the callee write any enclosing variable", not "one of mine" - a
                # helper two levels down that bumps a script-level counter is observable by everyone
                how = [(c.callee or "").split("::")[-1] for c in g.calls() if c.args and f in sh(ne(g.deep(c.args[0])))]
                filtered = [h for h in how if h in ("any", "all", "filter", "find", "position", "contains", "binary_search")] or \
                    [1 for k in ctx.lib.closures_of(g.id) if "owner" in k.dump() and any(f in sh(ne(g.deep(a))) for c in g.calls() for a in c.args if "{closure" in sh(ne(g.deep(a))))]
                if filtered and "is_empty" not in how:
                    ctx.bad("capture-write-is-an-effect|filtered|%s" % f, g.where(rd[f][0]), "stmt_effective_class looks at the callee's %s through a filter (%s) instead of asking whether the set is empty: a write to an enclosing variable that belongs to another function than the caller - a script-level counter bumped from two levels down - no longer makes the call an effect, and `make unused get serve()` is pruned" % (f, ", ".join(str(x) for x in filtered[:2])))
                    return
                where.append(("stmt_effective_class reads %s" % f, g.where(rd[f][0])))
    # (b) the class stored in the summaries is computed from the capture writes
    for fid in ("analysis::summary::compute_body_classes", "analysis::summary::initialize_summaries", "analysis::summary::summarize_component"):
        g0 = ctx.lib.fns.get(fid)
        if g0 is None:
            continue
        for g in ctx.lib.family(fid):
            ctx.touch(g)
            for b in sorted(g.live):
                for st in g.blocks[b]["s"]:
                    lp = st["lhs"]["p"]
                    if lp and isinstance(lp[-1], dict) and lp[-1].get("f") in ("transitive_class", "body_class"):
                        # is the stored value control- or data-dependent on a capture-write set?
                        deps = " ".join(sh(ne(g.deep(g.blocks[S]["t"]["d"]))) for S, al in g.constraints(b)) + " " + sh(ne(g.deep_rvalue(st["rv"])))
                        if "capture_writes" in deps:
                            where.append(("%s derives the class from capture writes" % fid.split("::")[-1], g.where(b)))
    # (c) the resolver classes the writing statement itself as Impure where it records the capture write
    cs = ctx.need("resolver::Resolver::check_stmt")
    rcw = ctx.need("resolver::Resolver::record_capture_write")
    for g in (cs, rcw):
        ctx.touch(g)
        for c in g.calls():
            if (c.callee or "").split("::")[-1] in ("set_stmt_expr_class", "join_stmt_expr_class") and "Impure" in sh(ne(g.deep(c.args[1]))):
                cons = " ".join(sh(ne(g.deep(g.blocks[S]["t"]["d"]))) for S, al in g.constraints(c.block))
                if g is rcw or ("AssignExisting" in " ".join(",".join(sorted(label_names(g, S, al, g.switch_info(S)))) for S, al in g.constraints(c.block) if g.switch_info(S)["kind"] == "discr") and "owner" in cons):
                    where.append(("the resolver classes a capture-writing assignment Impure", g.where(c.block)))
    if where:
        ctx.ok("capture-write-is-an-effect", where[0][1], where[0][0])
    else:
        ctx.bad("capture-write-is-an-effect", sec.where(), "nothing between a function's assignment to an enclosing variable and the removal test marks calls of that function as having an effect: the writing statement is classed by its right-hand side only, the summaries' class ignores the capture-write sets, and stmt_effective_class does not read them - `make unused get bump()` is pruned although bump() changes a variable that is printed afterwards")


def r2_effect_tables(ctx):
    _learn_type_sources(ctx)
    # ---- global built-ins: runtime arm facts vs effects::global_builtin_class
    g = ctx.need("analysis::effects::global_builtin_class")
    ctx.touch(g)
    gtab = mir_enum_table(g, 1)
    rt = ctx.need("runtime::Runtime::eval_builtin_call")
    ctx.touch(rt)
    S = None
    for cand in sorted(rt.live):
        if rt.blocks[cand]["t"]["k"] == "switch":
            si = rt.switch_info(cand)
            if si["kind"] == "discr" and si["ty"].endswith("GlobalBuiltin"):
                S = cand
                break
    if S is None or gtab is None:
        ctx.bad("global|no-dispatch", rt.where(), "cannot find the GlobalBuiltin dispatch / class table")
    else:
        si = rt.switch_info(S)
        regs = variant_regions(rt, S, si)
        for v, region in sorted(regs.items()):
            callees = {c.callee for c in rt.calls() if c.block in region}
            io = any(x in ("builtins::GlobalBuiltin::shout", "builtins::GlobalBuiltin::read_line") or (x or "").startswith("std::io::") for x in callees)
            mut = any((c.callee or "").endswith("Vec::push") and "self.output" in sh(ne(rt.deep(c.args[0]))) for c in rt.calls() if c.block in region)
            err = any(c.callee in ("runtime::RuntimeError::new", "runtime::RuntimeError::new_with_extras") for c in rt.calls() if c.block in region) or \
                any((gg.callee or "").endswith("RuntimeError::new") for k in ctx.lib.closures_of(rt.id) for gg in k.calls() if v == "ReadLine")
            need = "Impure" if (io or mut) else "PureMayTrap" if err else "PureNoTrap"
            got = (gtab.get(v) or ["?"])[0].split("::")[-1]
            errs = [c for c in rt.calls() if c.block in region and c.callee in ("runtime::RuntimeError::new", "runtime::RuntimeError::new_with_extras")]
            if need == "PureMayTrap" and ORDER.get(got, -1) < 1 and errs and all("TypeMismatch" in sh(ne(rt.deep(c.args[0]))) for c in errs):
                # the arm fails only on an argument of the wrong run-time type: classify_expr may answer that itself, by
                # joining MayTrap for this built-in unless the argument's static type is the right one
                ce_ = ctx.need("resolver::Resolver::classify_expr")
                typed_join = False
                for cj in ce_.calls_to(JOIN):
                    if const_class(ce_, cj.args[1]) not in ("PureMayTrap", "Impure"):
                        continue
                    names, typed = set(), False
                    for S7, al7 in ce_.constraints(cj.block):
                        s7 = ce_.switch_info(S7)
                        d7 = sh(ne(ce_.deep(ce_.blocks[S7]["t"]["d"])))
                        if s7["kind"] == "discr" and s7["ty"].endswith("GlobalBuiltin"):
                            names |= label_names(ce_, S7, al7, s7)
                        if s7["kind"] == "multi" and 0 not in al7:
                            from .c02 import matches_true_set
                            names |= matches_true_set(ce_, s7)
                        if _is_typed(ctx, d7):
                            typed = True
                        for mclo in re.finditer(r"\{closure#(\d+)\}", d7):
                            gclo = ctx.lib.fns.get("%s::{closure#%s}" % (ce_.id, mclo.group(1)))
                            if gclo is not None and any(_is_typed(ctx, (cc.callee or "").split("::")[-1]) for cc in gclo.calls()):
                                typed = True
                    if v in names and typed:
                        typed_join = True
                if typed_join:
                    ctx.ok("global|%s" % v, rt.where(S), "fails only on an argument of the wrong type; classify_expr joins MayTrap for it unless the argument's static type fits")
                    continue
            if ORDER.get(got, -1) >= ORDER[need]:
                ctx.ok("global|%s" % v, rt.where(S), "runtime arm needs %s, table says %s" % (need, got))
            else:
                ctx.bad("global|%s" % v, rt.where(S), "the runtime arm of %s performs %s but effects::global_builtin_class says %s: an unused `make x get %s(..)` would be pruned" % (v, "I/O or a store" if need == "Impure" else "a trapping operation", got, v.lower()))
    # ---- member built-ins: mutating dispatchers need Impure
    for enum, table_fn, mut_fn in (("ArrayBuiltin", "analysis::effects::array_builtin_class", "runtime::Runtime::eval_array_member_call_mut"),
                                   ("ProcessCommandBuiltin", "analysis::effects::process_command_builtin_class", "runtime::Runtime::eval_process_command_call_mut")):
        t = ctx.need(table_fn)
        ctx.touch(t)
        tab = mir_enum_table(t, 1)
        m = ctx.need(mut_fn)
        ctx.touch(m)
        S2, si2 = None, None
        for cand in sorted(m.live):
            if m.blocks[cand]["t"]["k"] == "switch":
                s2 = m.switch_info(cand)
                if s2["kind"] == "discr" and s2["ty"].endswith(enum):
                    S2, si2 = cand, s2
                    break
        if S2 is None or tab is None:
            ctx.bad("member|%s|no-dispatch" % enum, m.where(), "cannot find the %s dispatch / class table" % enum)
            continue
        for v, region in sorted(variant_regions(m, S2, si2).items()):
            mutates = any((c.callee or "").endswith("get_mutable_array") or (c.callee or "").endswith("get_mutable_process_command") for c in m.calls() if c.block in region)
            if not mutates:
                continue
            got = (tab.get(v) or ["?"])[0].split("::")[-1]
            if got == "Impure":
                ctx.ok("member|%s::%s" % (enum, v), m.where(S2), "mutating arm, class Impure")
            else:
                ctx.bad("member|%s::%s" % (enum, v), m.where(S2), "%s::%s mutates its receiver in the runtime but is classified %s: the call can be pruned" % (enum, v, got))
    # `run` spawns a process
    pc = mir_enum_table(ctx.need("analysis::effects::process_command_builtin_class"), 1) or {}
    if (pc.get("Run") or ["?"])[0].endswith("Impure"):
        ctx.ok("member|ProcessCommandBuiltin::Run", "", "spawning is Impure")
    else:
        ctx.bad("member|ProcessCommandBuiltin::Run", "src/analysis/effects.rs", "`run` is not classified Impure")
    # ---- a member call can end in TypeMismatch for any method when the receiver's run-time type does not fit
    emc = ctx.need("runtime::Runtime::eval_member_call")
    ctx.touch(emc)
    rt_traps = [c for c in emc.calls() if c.callee == "runtime::RuntimeError::new_with_extras"]
    ce = ctx.need("resolver::Resolver::classify_expr")
    ctx.touch(ce)
    mcalls = ce.calls_to("analysis::effects::member_builtin_class")
    if rt_traps and mcalls:
        mb = mcalls[0]
        after = ce.reach_from_succ(mb.block)
        strong = [c.block for c in ce.calls_to(JOIN) if const_class(ce, c.args[1]) in ("PureMayTrap", "Impure") and c.block in after]
        # static-type escape: a switch whose scrutinee derives from infer_expr_type
        typed = []
        for S3 in sorted(ce.live):
            if ce.blocks[S3]["t"]["k"] == "switch" and S3 in after:
                d = sh(ne(ce.deep(ce.blocks[S3]["t"]["d"])))
                si3 = ce.switch_info(S3)
                multi_typed = False
                if si3["kind"] == "multi":
                    for (bi, kk, st) in si3["defs"]:
                        for S4, lab in ce.deciding(bi):
                            if _is_typed(ctx, sh(ne(ce.deep(ce.blocks[S4]["t"]["d"])))) or "from_name" in sh(ne(ce.deep(ce.blocks[S4]["t"]["d"]))):
                                multi_typed = True
                if _is_typed(ctx, d) or multi_typed:
                    typed += [(S3, lab) for lab, _ in ce.succ[S3] if lab != 0]
        r = ce.reach_from_succ(mb.block, removed_nodes=strong, removed_edges=typed)
        if r & set(ce.exits()):
            ctx.bad("member|receiver-type-trap", ce.where(mb.block),
                    "eval_member_call returns Err(TypeMismatch) on %d paths decided by the receiver's run-time type, but classify_expr lets a member call keep class PureNoTrap without knowing the receiver's static type: an unused `make x get a.len()` is pruned and the error disappears" % len(rt_traps))
        else:
            ctx.ok("member|receiver-type-trap", ce.where(mb.block), "member calls are >= PureMayTrap unless the receiver's static type is known to have the method")
    # ---- expression arms: Index and Divide/Mod trap in the runtime, so must be >= MayTrap in classify_expr
    ev = ctx.need("runtime::Runtime::eval_expr")
    S0, si0 = entry_discr_switch_of(ev, "parser::Expr")
    C0, ci0 = entry_discr_switch_of(ce, "parser::Expr")
    if S0 is None or C0 is None:
        ctx.bad("expr|no-dispatch", ev.where(), "eval_expr / classify_expr no longer dispatch on the expression kind")
        return
    ev_regs = variant_regions(ev, S0, si0)
    ce_regs = variant_regions(ce, C0, ci0)

    def err_kind(c):
        return sh(ne(ev.deep(c.args[0]))) if c.args else "?"

    def typed_edges(region):
        """Edges of classify_expr (inside region) taken on the *positive* outcome of a test on inferred static types: a switch
        whose scrutinee derives from infer_expr_type, or a bool assigned in arms that such tests decide (`operands_fit`)."""
        out, sets = [], []
        for S3 in sorted(region):
            if ce.blocks[S3]["t"]["k"] != "switch":
                continue
            d = sh(ne(ce.deep(ce.blocks[S3]["t"]["d"])))
            si3 = ce.switch_info(S3)
            typed = _is_typed(ctx, d)
            if si3["kind"] in ("multi", "place"):
                l3 = si3["local"] if si3["kind"] == "multi" else si3["place"]["l"]
                for (bi, kk, st) in ce.whole_defs(l3):
                    for S4, lab in ce.deciding(bi):
                        if _is_typed(ctx, sh(ne(ce.deep(ce.blocks[S4]["t"]["d"])))):
                            typed = True
                if si3["kind"] == "multi":
                    from .c02 import matches_true_set
                    ts = matches_true_set(ce, si3)
                    if ts:
                        sets.append(ts)
            if typed:
                out += [(S3, lab) for lab, _ in ce.succ[S3] if lab != 0]
        return out, sets

    def static_sets(region):
        """The sets of ValueType variants named by `matches!(.., Some(A | B | ..))` tests inside the region."""
        found = []
        for S3 in sorted(region):
            if ce.blocks[S3]["t"]["k"] != "switch":
                continue
            si3 = ce.switch_info(S3)
            if si3["kind"] == "discr" and si3["ty"].endswith("ValueType"):
                explicit = {si3["vars"].get(lab) for lab, _t in ce.succ[S3] if lab != "else"}
                found.append({x for x in explicit if x})
        return found
    for v in sorted(ev_regs):
        traps = [c for c in ev.calls() if c.block in ev_regs[v] and c.callee == "runtime::RuntimeError::new"]
        if not traps or v == "Call":
            continue
        value_traps = [c for c in traps if "TypeMismatch" not in err_kind(c)]
        type_traps = [c for c in traps if "TypeMismatch" in err_kind(c)]
        strong = [c for c in ce.calls_to(JOIN) if c.block in ce_regs.get(v, ()) and const_class(ce, c.args[1]) in ("PureMayTrap", "Impure")]
        if not strong:
            ctx.bad("expr|%s" % v, ce.where(C0), "eval_expr's %s arm can return a runtime error but classify_expr's %s arm never joins PureMayTrap" % (v, v))
            continue
        entry = [tgt for lab, tgt in ce.succ[C0] if v in label_names(ce, C0, [lab], ci0)]
        if v == "Binary" and value_traps:
            cls_ops = set()
            for c in strong:
                for S6, al in ce.constraints(c.block):
                    s6 = ce.switch_info(S6)
                    if s6["kind"] == "multi" and 0 not in al:
                        from .c02 import matches_true_set
                        cls_ops |= matches_true_set(ce, s6)
                    elif s6["kind"] == "discr" and s6["ty"].endswith("BinaryOp"):
                        cls_ops |= label_names(ce, S6, al, s6)
            trap_ops = set()
            for t in value_traps:
                best = None
                for S5, al in ev.constraints(t.block):
                    s5 = ev.switch_info(S5)
                    if s5["kind"] == "discr" and s5["ty"].endswith("BinaryOp"):
                        nm = label_names(ev, S5, al, s5)
                        best = nm if best is None else best & nm
                trap_ops |= best or set()
            # for each operator that can fail on a *value* every path through the arm must join >= MayTrap (an exemption
            # that depends on the operand's value cannot be verified here and fails closed)
            from ..tables import peval
            leaky = []
            for opn in sorted(trap_ops):
                for pth in peval(ce, 0, {"expr": "Binary", "op": opn}):
                    if pth["end"] != "return":
                        continue
                    strong_hit = any(e[0] == "call" and e[1] == JOIN and any(("ExprClass::%s" % k2) in " ".join(e[3]) for k2 in ("PureMayTrap", "Impure")) for e in pth["events"])
                    if not strong_hit:
                        leaky.append(opn)
                        break
            if leaky:
                ctx.bad("expr|Binary|exempt|%s" % ",".join(leaky), ce.where(C0), "classify_expr has a path on which `%s` is not classified as may-trap although the runtime returns DivisionByZero for it depending on the divisor's value: an unused division can be pruned together with its error" % "/".join(x.lower() for x in leaky))
            elif trap_ops <= cls_ops or not cls_ops:
                ctx.ok("expr|Binary", ce.where(C0), "runtime fails on a value for %s; classified MayTrap on every path for those" % sorted(trap_ops))
            else:
                ctx.bad("expr|Binary|%s" % ",".join(sorted(trap_ops - cls_ops)), ce.where(C0), "the runtime can fail on %s but classify_expr marks only %s as may-trap" % (sorted(trap_ops), sorted(cls_ops)))
        elif value_traps:
            # unconditional in the region: every path through the arm must join >= MayTrap
            r = ce.reach(entry, removed_nodes=[c.block for c in strong] + [C0])
            if r & set(ce.exits()):
                ctx.bad("expr|%s|path" % v, ce.where(C0), "a path through classify_expr's %s arm avoids join(PureMayTrap)" % v)
            else:
                ctx.ok("expr|%s" % v, ce.where(C0), "every path joins >= PureMayTrap")
        if type_traps:
            # A run-time type mismatch depends on the operands' kinds.  The arm may stay trap-free only on the positive side of
            # a test on the operands' *static* types, and the types it lets through must be ones for which the runtime cannot
            # answer with a mismatch (checked against the runtime's own table below).
            if not (ce.reach(entry, removed_nodes=[c.block for c in strong] + [C0]) & set(ce.exits())):
                ctx.ok("expr|%s|type-trap" % v, ce.where(C0), "every path joins >= PureMayTrap, whatever the operands' static types")
                continue
            tedges, tsets = typed_edges(ce_regs.get(v, ()))
            r = ce.reach(entry, removed_nodes=[c.block for c in strong] + [C0], removed_edges=tedges)
            if r & set(ce.exits()):
                ctx.bad("expr|%s|type-trap" % v, ce.where(C0), "eval_expr's %s arm answers operands of the wrong run-time type with Type mismatch, but classify_expr lets the expression keep PureNoTrap on a path that no test of the operands' static types guards: an unused `make u get <%s on a parameter>` is pruned together with its error" % (v, v.lower()))
                continue
            exempt = set()
            for ts in static_sets(ce_regs.get(v, ())) + tsets:
                exempt |= {t for t in ts if t in ("Number", "String", "Bool", "Null", "Array", "Dynamic", "ProcessCommand", "ProcessResult")}
            exempt -= set()
            kind_of = {"Number": "Number", "String": "Str", "Bool": "Bool", "Null": "Null", "Array": "Array"}
            from ..tables import peval as _pe
            problems = []
            if v == "Binary":
                from .c09 import binary_tables
                acc = binary_tables(ctx) or {}
                for T in sorted(exempt):
                    if T not in kind_of:
                        problems.append("%s (not a concrete type)" % T)
                        continue
                    for op in ctx.lib.variants("syntax::parser::BinaryOp"):
                        if not (acc.get(op) or {}).get((T, T)):
                            continue        # rejected statically: never runs
                        known = {"expr": "Binary", "op": op}
                        known.update({"l": kind_of[T], "r": kind_of[T]} if op in ("And", "Or") else {"_.0": kind_of[T], "_.1": kind_of[T]})
                        for pth in _pe(ev, 0, known):
                            if pth["end"] == "return" and any(e[0] == "agg" and e[1].endswith("RuntimeErrorKind") and e[2] == "TypeMismatch" for e in pth["events"]):
                                problems.append("%s %s %s" % (T, op, T))
                                break
            elif v == "Unary":
                for T in sorted(exempt):
                    if T not in kind_of:
                        problems.append("%s (not a concrete type)" % T)
                        continue
                    from .c09 import single_operand_sets
                    sos = single_operand_sets(ctx)
                    for op, fits in (("Not", sos.get("unary-not") or ("Bool", "Null")), ("Minus", sos.get("unary-minus") or ("Number",))):
                        if T not in fits:
                            continue        # `minus true` / `not 1` are rejected statically
                        for pth in _pe(ev, 0, {"expr": "Unary", "@UnaryOp": op, "_.1": kind_of[T]}):
                            if pth["end"] == "return" and any(e[0] == "agg" and e[1].endswith("RuntimeErrorKind") and e[2] == "TypeMismatch" for e in pth["events"]):
                                problems.append("%s %s" % (op, T))
                                break
            if not exempt:
                ctx.bad("expr|%s|type-trap|no-types" % v, ce.where(C0), "cannot see which static operand types classify_expr's %s arm treats as safe" % v)
            elif problems:
                ctx.bad("expr|%s|type-trap|%s" % (v, ";".join(problems)[:60]), ce.where(C0), "classify_expr treats %s as unable to fail when the operands are statically %s, but the runtime can answer %s with Type mismatch" % (v.lower(), sorted(exempt), problems[:3]))
            else:
                ctx.ok("expr|%s|type-trap" % v, ce.where(C0), "trap-free only for operands statically typed %s, for which the runtime has no Type mismatch outcome" % sorted(exempt))


def entry_discr_switch_of(fn, ty_suffix):
    for S in sorted(fn.live):
        if fn.blocks[S]["t"]["k"] == "switch":
            si = fn.switch_info(S)
            if si["kind"] == "discr" and si["ty"].endswith(ty_suffix):
                return S, si
    return None, None


def r3_plan_consulted(ctx):
    ebf = ctx.need("runtime::Runtime::exec_block_with_flow")
    ctx.touch(ebf)
    pr = ebf.calls_to("runtime::Runtime::stmt_is_pruned")
    ex = ebf.calls_to("runtime::Runtime::exec_stmt")
    if pr and ex and all(any(ebf.dominates(p.block, e.block) for p in pr) for e in ex):
        # exec_stmt only on the false outcome
        sw = switches_on_call(ebf, "stmt_is_pruned")
        ok = any(all(ebf.edge_dominated(e.block, S, f) for e in ex) for S, t, f, e2 in sw)
        if ok:
            ctx.ok("consult|stmt", ebf.where(pr[0].block), "exec_stmt only on stmt_is_pruned == false")
        else:
            ctx.bad("consult|stmt-edge", ebf.where(pr[0].block), "exec_stmt is not restricted to the not-pruned outcome")
    else:
        ctx.bad("consult|stmt", ebf.where(), "exec_block_with_flow no longer asks stmt_is_pruned before executing a statement")
    allowed = {
        "runtime::Runtime::stmt_is_pruned": {"runtime::Runtime::exec_block_with_flow"},
        "runtime::Runtime::function_is_pruned": {"runtime::Runtime::register_function"},
        "analysis::opt::OptimizationPlan::contains_removable_stmt": {"runtime::Runtime::stmt_is_pruned"},
        "analysis::opt::OptimizationPlan::contains_removable_function_def": {"runtime::Runtime::function_is_pruned"},
    }
    for callee, who in allowed.items():
        cs = ctx.lib.callers_of(callee)
        bad = [c for c in cs if parent_fn(c.fn.id) not in who]
        if not cs:
            ctx.bad("who|%s|unused" % callee.split("::")[-1], "", "%s is never called: the plan is not consulted" % callee)
        elif bad:
            ctx.bad("who|%s|%s" % (callee.split("::")[-1], parent_fn(bad[0].fn.id)), bad[0].fn.where(bad[0].block), "%s consulted from an unexpected place" % callee)
        else:
            ctx.ok("who|%s" % callee.split("::")[-1], cs[0].fn.where(cs[0].block), "called only from %s" % sorted(x.split("::")[-1] for x in who))
    from .c18 import r3_no_plan_runs_everything
    r3_no_plan_runs_everything(ctx)
    # the ids consulted are the ids the plan was built for: stmt_is_pruned maps the node through facts.stmt_id
    sp = ctx.need("runtime::Runtime::stmt_is_pruned")
    if any((c.callee or "").endswith("bound_stmt_id") for c in sp.calls()):
        ctx.ok("consult|stmt-id", sp.where(), "node -> StmtId through facts.stmt_id")
    else:
        ctx.bad("consult|stmt-id", sp.where(), "stmt_is_pruned no longer derives the id from the resolver's facts")


def r4_dataflow_shape(ctx):
    aot = ctx.need("analysis::liveness::apply_op_transfer")
    ctx.touch(aot)
    clears = aot.calls_to("analysis::liveness::clear_local")
    sets = aot.calls_to("analysis::liveness::set_local") + aot.calls_to("analysis::liveness::set_all_locals")
    if clears and sets and all(not (c.block in aot.reach_from_succ(s.block)) for c in clears for s in sets):
        ctx.ok("transfer|kill-before-gen", aot.where(), "every clear_local precedes every set_local (live = (live - def) U use)")
    else:
        ctx.bad("transfer|kill-before-gen", aot.where(), "apply_op_transfer can clear a local after setting it: a statement that reads and writes the same variable (`x get x add 1`) would kill its own use")
    # the block-level fixpoint applies the same equation with whole masks: in = ((out - defs) - kills) U uses.  Within one
    # round, no subtraction from the live-in set may follow the union with the block's uses (a use in the block keeps the
    # variable live on entry even if the block also ends its scope).
    ua = ctx.need("analysis::liveness::unused_assignments")
    ctx.touch(ua)
    subs = [c for c in ua.calls() if (c.callee or "").split("::")[-1] in ("subtract_mask", "subtract_from", "difference_with")]
    unis = [c for c in ua.calls() if (c.callee or "").split("::")[-1] in ("union_from", "union_mask", "union_with") and "uses" in sh(ne(ua.deep(c.args[1])))]
    if not subs or not unis:
        ctx.bad("block-transfer|shape", ua.where(), "unused_assignments no longer computes live-in from live-out with mask subtraction and a union of the uses")
    else:
        late = []
        for u in unis:
            tgt = sh(ne(ua.deep(u.args[0])))
            heads = common_loop_head(ua, u.block, u.block)
            for sb in subs:
                if sh(ne(ua.deep(sb.args[0]))) == tgt and sb.block in ua.reach_from_succ(u.block, removed_nodes=heads):
                    late.append(sh(ne(ua.deep(sb.args[1])))[-30:])
        if late:
            ctx.bad("block-transfer|kill-after-gen|%s" % late[0].split(".")[-1], ua.where(unis[0].block), "the block-level fixpoint subtracts `%s` from the live-in set after it has added the block's uses: a variable that the block reads and whose scope the block ends (or that it reads and redefines) is no longer live on entry, the assignment that feeds the read is reported unused and pruned" % late[0])
        else:
            ctx.ok("block-transfer|kill-before-gen", ua.where(unis[0].block), "in = ((out - defs) - kills) U uses: every subtraction precedes the union with the uses")
    if aot.calls_to("analysis::liveness::set_all_locals"):
        ctx.ok("transfer|unavailable-all-live", aot.where(), "unavailable summary -> all locals live")
    else:
        ctx.bad("transfer|unavailable-all-live", aot.where(), "an unavailable callee summary no longer makes all locals live")
    # may-writes of callees used as kills
    callee_kill = []
    for c in clears:
        src = sh(ne(aot.deep(c.args[1])))
        if "transitive_capture_writes" in src or "capture_writes" in src:
            callee_kill.append(c)
    cbf = ctx.need("analysis::liveness::compute_block_facts")
    ctx.touch(cbf)
    for c in cbf.calls_to("analysis::liveness::note_def"):
        src = sh(ne(cbf.deep(c.args[1])))
        if "capture_writes" in src:
            callee_kill.append(c)
    fn = ctx.need(OPT)
    if callee_kill:
        # then pruning must be protected against conditionally-writing callees
        guard = False
        for c in fn.calls_to("analysis::opt::push_unique"):
            if "unused_assignments" not in sh(ne(fn.deep(c.args[1]))):
                continue
            for S, al in fn.constraints(c.block):
                d = sh(ne(fn.deep(fn.blocks[S]["t"]["d"])))
                if "capture_writes" in d or "captured_for_write" in d or "capture_written" in d:
                    guard = True
            # closure-based test: any(|summary| summary.transitive_capture_writes.contains(..))
            for S, al in fn.constraints(c.block):
                e = ne(fn.deep(fn.blocks[S]["t"]["d"]))
                if e[0] == "call" or (e[0] == "un" and e[2][0] == "call"):
                    cal = e if e[0] == "call" else e[2]
                    for k in ctx.lib.closures_of(OPT):
                        if "capture_writes" in json.dumps(k.m["blocks"]) and any(a and "closure" in sh(a) for a in cal[2]):
                            guard = True
        if guard:
            ctx.ok("liveness|may-write-kill", fn.where(), "liveness kills through callee capture writes, but the plan builder keeps assignments to capture-written locals")
        else:
            ctx.bad("liveness|may-write-kill", aot.where(callee_kill[0].block),
                    "liveness treats a callee's transitive capture *writes* as a definite kill, and the plan builder prunes on that verdict: a callee that writes the variable only on some paths makes a live assignment look dead")
    else:
        ctx.ok("liveness|may-write-kill", aot.where(), "kills come only from the statement's own writes")
    # only the transitive summary sets may feed liveness / used-ness: a callee reads what its callees read
    from ..mir import fields_read
    for fid in ("analysis::liveness::compute_block_facts", "analysis::liveness::apply_op_transfer", "analysis::diagnostics::unused_variables",
                "analysis::opt::compute_max_local_reference_stmt"):
        g = ctx.need(fid)
        ctx.touch(g)
        rd = fields_read(g, "FunctionSummary")
        if "direct_capture_reads" in rd:
            ctx.bad("summary-sets|direct-reads|%s" % fid.split("::")[-1], g.where(rd["direct_capture_reads"][0]), "%s uses a callee's *direct* capture reads: variables read further down the call chain are not counted as uses, so a live assignment looks dead" % fid.split("::")[-1])
        elif "transitive_capture_reads" in rd:
            ctx.ok("summary-sets|transitive-reads|%s" % fid.split("::")[-1], g.where(rd["transitive_capture_reads"][0]), "transitive_capture_reads")
        else:
            ctx.bad("summary-sets|no-reads|%s" % fid.split("::")[-1], g.where(), "%s no longer accounts for variables read by callees" % fid.split("::")[-1])
    # a declaration may be dropped at run time only if nothing refers to the variable later - reading OR writing it (a later
    # assignment through a callee's capture needs the slot the declaration creates)
    g = ctx.need("analysis::opt::compute_max_local_reference_stmt")
    rd = set()
    for gg in ctx.lib.family(g.id):
        rd |= set(fields_read(gg, "FunctionSummary"))
    missing = [f_ for f_ in ("transitive_capture_reads", "transitive_capture_writes") if f_ not in rd]
    if missing:
        ctx.bad("max-reference|callee-%s-ignored" % "+".join(x.split("_")[-1] for x in missing), g.where(), "compute_max_local_reference_stmt does not count a callee's %s as references to the variable: the declaration of a variable that is only %s inside called functions is pruned, and the callee then finds no slot (panic in assign_bound_local / a read of nothing)" % (" / ".join(missing), "written" if "transitive_capture_writes" in missing else "read"))
    else:
        ctx.ok("max-reference|reads-and-writes", g.where(), "callee capture reads and writes both count as later references")
    # block equation: subtract defs, subtract kills, then union uses; reads before writes per op
    ua = ctx.need("analysis::liveness::unused_assignments")
    ctx.touch(ua)
    subs = ua.calls_to("analysis::liveness::subtract_mask")
    uni = [c for c in ua.calls_to("analysis::liveness::union_from") if "uses" in sh(ne(ua.deep(c.args[1])))]
    ok = bool(subs) and bool(uni) and all(ua.dominates(s.block, u.block) for u in uni for s in subs if "scratch_live_in" in sh(ne(ua.deep(s.args[0]))))
    if ok:
        ctx.ok("block-equation|order", ua.where(), "in = (out - defs - kills) U uses")
    else:
        ctx.bad("block-equation|order", ua.where(), "the block equation no longer subtracts defs/kills before adding uses")
    # the liveness test of an assignment is made before the op's own transfer is applied
    cl = [c for c in ua.calls_to("analysis::liveness::contains_local")]
    ap = ua.calls_to("analysis::liveness::apply_op_transfer")
    pushw = [c for c in ua.calls() if (c.callee or "").endswith("Vec::push") and "warnings" in sh(ne(ua.expr(c.args[0], 4)))]
    if cl and ap and pushw and precedes_in_iteration(ua, pushw, ap) and precedes_in_iteration(ua, cl, ap):
        ctx.ok("report|test-before-transfer", ua.where(), "liveness of the written local is tested before apply_op_transfer of the same op")
    else:
        ctx.bad("report|test-before-transfer", ua.where(), "the unused-assignment test is made after the statement's own transfer was applied (its own read/write already changed the set)")
    # per-op order in compute_block_facts: note_use (reads) before note_def (writes)
    nu = [c for c in cbf.calls_to("analysis::liveness::note_use") if "op.reads" in sh(ne(cbf.deep(c.args[2]))) or ".reads" in sh(ne(cbf.deep(c.args[2])))]
    nd = [c for c in cbf.calls_to("analysis::liveness::note_def") if ".writes" in sh(ne(cbf.deep(c.args[1]))) and "capture" not in sh(ne(cbf.deep(c.args[1])))]
    # uses contributed by callees (their capture reads) belong to the same statement: they too happen before the
    # statement's own write (`x get f()` where f reads x uses the old x)
    nu_callee = [c for c in cbf.calls_to("analysis::liveness::note_use") if "capture_reads" in sh(ne(cbf.deep(c.args[2])))]
    if nu_callee and nd and not precedes_in_iteration(cbf, nu_callee, nd):
        ctx.bad("block-facts|callee-reads-after-own-write", cbf.where(nu_callee[0].block), "compute_block_facts notes the statement's own write before the reads of its callees: in `x get f()` with f reading x, x is not upward-exposed, so an earlier assignment to x in another block looks dead and is pruned")
    elif nu_callee:
        ctx.ok("block-facts|callee-reads-before-own-write", cbf.where(nu_callee[0].block), "callee capture reads are noted before the statement's own writes")
    if nu and nd and precedes_in_iteration(cbf, nu, nd):
        ctx.ok("block-facts|reads-before-writes", cbf.where(), "reads noted before writes per op; note_use consults defs")
    else:
        ctx.bad("block-facts|reads-before-writes", cbf.where(), "compute_block_facts notes an op's writes before its reads: `x get x add 1` would not count as a use of x")
    nuf = ctx.need("analysis::liveness::note_use")
    if nuf.calls_to("analysis::liveness::contains_local") and nuf.calls_to("analysis::liveness::set_local"):
        ctx.ok("block-facts|upward-exposed", nuf.where(), "use recorded only if not already defined in the block")
    else:
        ctx.bad("block-facts|upward-exposed", nuf.where(), "note_use lost its upward-exposed test")


def r4b_reads_and_writes_reach_the_summaries(ctx):
    """Every use of a looked-up variable is recorded twice: for the statement (liveness inside the function) and for the
    function (what its callers must assume).  A site that records only the statement half makes a variable that a callee
    reads - or writes - look untouched by the call."""
    n = 0
    pairs = (("record_stmt_read", "record_capture_read", "read"), ("record_stmt_write", "record_capture_write", "write"))
    for fn in [f for f in ctx.lib.fns.values() if f.file == "src/resolver.rs" and "Resolver::" in f.id]:
        rec = [c for c in fn.calls() if (c.callee or "").startswith("resolver::Resolver::record_")]
        for a_name, b_name, what in pairs:
            for a in [c for c in rec if c.callee.split("::")[-1] == a_name]:
                arg = sh(ne(fn.deep(a.args[1])))
                if not ("lookup_var_info(" in arg or "expr_root_local(" in arg or "lookup" in arg):
                    continue    # the local just declared by this statement: it belongs to the current function
                n += 1
                ctx.touch(fn)
                partners = {b.block for b in rec if b.callee.split("::")[-1] == b_name and sh(ne(fn.deep(b.args[1]))) == arg}
                short = fn.id.split("::")[-1]
                ordn = sum(1 for r in ctx.records if r["rule"] == ctx.rule and r["instance"].startswith("paired|%s|%s#" % (short, what)))
                key = "paired|%s|%s#%d" % (short, what, ordn + 1)
                if not partners:
                    ctx.bad("unpaired|%s|%s|%s" % (short, what, re.sub(r"next\(.*?\)\)\)\)", "item", arg)[:50]), fn.where(a.block), "%s records the %s of `%s` for the statement but not for the enclosing function (%s missing): callers of this function do not see that it %ss the variable, so an assignment that only this function %s is treated as dead (or as surviving) across the call" % (short, what, arg[:60], b_name, what, "reads" if what == "read" else "overwrites"))
                    continue
                r = fn.reach([j for _, j in fn.succ[a.block]], removed_nodes=partners)
                if (r & set(fn.exits())) or a.block in r:
                    ctx.bad("unpaired|%s|%s|conditional" % (short, what), fn.where(a.block), "%s can record the %s of `%s` for the statement without recording it for the function" % (short, what, arg[:60]))
                else:
                    ctx.ok(key, fn.where(a.block), "%s is always followed by %s of the same local" % (a_name, b_name))
    ctx.floor("looked-up variable uses recorded in the resolver", n, 7)


def r4c_summaries_are_a_transitive_closure(ctx):
    """summarize_component extends each transitive set of the caller with the *same* transitive set of the callee, re-iterates
    while anything changed, and starts every transitive set from the function's own direct set."""
    sc = ctx.need("analysis::summary::summarize_component")
    ctx.touch(sc)
    ext = [c for c in sc.calls() if (c.callee or "").endswith("summary::extend_unique")]
    seen = set()
    for c in ext:
        dst = sh(ne(sc.deep(c.args[0])))
        src = sh(ne(sc.deep(c.args[1])))
        fd = dst.rsplit(".", 1)[-1]
        fs = src.rsplit(".", 1)[-1]
        side_d = re.search(r"\)\.(\d)\.\w+$", dst)
        side_s = re.search(r"\)\.(\d)\.\w+$", src)
        seen.add(fd)
        if fd == fs and fd.startswith("transitive_") and side_d and side_s and side_d.group(1) != side_s.group(1):
            ctx.ok("closure|extend|%s" % fd, sc.where(c.block), "caller.%s += callee.%s" % (fd, fs))
        else:
            ctx.bad("closure|extend|%s<-%s" % (fd, fs), sc.where(c.block), "summarize_component extends the caller's %s with the callee's %s: what a function reaches through two or more calls is missing from its summary, so a variable read (or written) only deep in a call chain looks untouched by the call - its assignment is pruned / reported unused" % (fd, fs))
        # the change flag is raised when the set grew
        tgt = c.target
        grew = False
        S = tgt
        hops = 0
        while S is not None and hops < 8:
            t = sc.blocks[S]["t"]
            if t["k"] == "switch":
                break
            S = t.get("t") if t["k"] in ("goto", "call") else None
            hops += 1
        reach = sc.reach([tgt]) if tgt is not None else set()
        for b in reach:
            for st in sc.blocks[b]["s"]:
                if not st["lhs"]["p"] and (sc.locals[st["lhs"]["l"]]["name"] == "changed") and st["rv"]["k"] == "use" and isinstance(st["rv"]["a"], dict) and st["rv"]["a"].get("int") == 1:
                    grew = True
        if not grew:
            ctx.bad("closure|no-fixpoint|%s" % fd, sc.where(c.block), "growing %s does not raise the `changed` flag: the iteration stops before the closure is reached" % fd)
    for want in ("transitive_callees", "transitive_capture_reads", "transitive_capture_writes"):
        if want not in seen:
            ctx.bad("closure|missing|%s" % want, sc.where(), "summarize_component no longer propagates %s from callees to callers" % want)
    ctx.floor("set extensions in summarize_component", len(ext), 3)
    # every direct callee contributes - the members of the function's own component above all (mutually recursive functions
    # learn each other's effects only here).  The one callee that may be skipped is the function itself.
    if ext:
        skips = []
        for S, al in sc.constraints(ext[0].block):
            si = sc.switch_info(S)
            d = sh(ne(sc.deep(sc.blocks[S]["t"]["d"])))
            if si["kind"] == "call" and (si["callee"] or "").split("::")[-1] in ("contains", "any", "binary_search", "binary_search_by_key", "is_some", "position"):
                skips.append(d[:60])
        if skips:
            ctx.bad("closure|skip|membership", sc.where(ext[0].block), "summarize_component skips a callee under `%s` - a membership test, not `callee == function`: callees inside the component are the ones that matter for mutual recursion, and with them skipped ping never learns what pong reads or writes (an assignment that only pong reads is pruned)" % skips[0])
        else:
            ctx.ok("closure|skip", sc.where(ext[0].block), "no callee other than the function itself is skipped")
    j = [c for c in sc.calls() if (c.callee or "").endswith("ExprClass::join")]
    if j and all(sh(ne(sc.deep(c.args[1]))).endswith(".transitive_class") for c in j):
        ctx.ok("closure|class", sc.where(j[0].block), "caller class joins the callee's transitive class")
    else:
        ctx.bad("closure|class", sc.where(), "the caller's class is not joined with the callee's *transitive* class (%s)" % [sh(ne(sc.deep(c.args[1])))[-30:] for c in j])
    # initial value of every transitive set is the direct set of the same kind
    ini = ctx.need("analysis::summary::initialize_summaries")
    ctx.touch(ini)
    fields = [f[0] for f in ctx.lib.adt("analysis::summary::FunctionSummary")["variants"][0]["fields"]]
    ok_init = False
    for b in sorted(ini.live):
        for st in ini.blocks[b]["s"]:
            rv = st["rv"]
            if rv["k"] == "agg" and "FunctionSummary" in str(rv.get("adt")) and len(rv["ops"]) == len(fields):
                ok_init = True
                vals = {f: sh(ne(ini.deep(o))) for f, o in zip(fields, rv["ops"])}
                for kind in ("callees", "capture_reads", "capture_writes"):
                    t, dd = vals.get("transitive_" + kind, ""), vals.get("direct_" + kind, "")
                    core_t = re.sub(r"^(clone_ids\()+", "", t)
                    core_d = re.sub(r"^(clone_ids\()+", "", dd)
                    src_t = re.findall(r"\.(direct_[a-z_]+)", t)
                    src_d = re.findall(r"\.(direct_[a-z_]+)", dd)
                    if src_t and set(src_t) == {"direct_" + kind} and set(src_d) == {"direct_" + kind}:
                        ctx.ok("closure|init|%s" % kind, ini.where(b), "transitive_%s starts as a copy of direct_%s" % (kind, kind))
                    else:
                        ctx.bad("closure|init|%s" % kind, ini.where(b), "transitive_%s is not initialised from direct_%s (%s)" % (kind, kind, t[:60]))
    if not ok_init:
        ctx.bad("closure|init|shape", ini.where(), "cannot see how initialize_summaries builds a FunctionSummary")


def r5_loop_cfg_shape(ctx):
    """The control-flow graph the liveness analysis runs on has the loop the language has: the condition block is entered from
    before the loop, from the end of the body and from `next`; its true edge enters the body, its false edge is where `comot`
    and the code after the loop continue.  Block ids are all of one type, so a swap still compiles; each id is identified here
    by the call that created it."""
    from ..mir import fields_read
    fn = ctx.need("analysis::cfg::FunctionBuilder::lower_stmt")
    ctx.touch(fn)

    def ident(op, depth=0):
        out = set()
        for bi, k, det in origins(fn, op, 8):
            if k == "agg" and str(det[0]).endswith("Option") and det[1] == "Some" and depth < 3:
                out |= ident(det[2][0], depth + 1)
            elif k == "call":
                out.add((chain_blocks(bi)[-1], det[0].split("::")[-1]))
            else:
                out.add((None, "%s:%s" % (k, det if not isinstance(det, tuple) else det[0])))
        return out
    S = None
    for cand in sorted(fn.live):
        if fn.blocks[cand]["t"]["k"] == "switch":
            si = fn.switch_info(cand)
            if si["kind"] == "discr" and "parser::Stmt" in si["ty"]:
                S = (cand, si)
                break
    if S is None:
        ctx.bad("loop-cfg|no-dispatch", fn.where(), "lower_stmt does not dispatch on the statement kind")
        return
    S, si = S
    arm = None
    for lab, tgt in fn.succ[S]:
        if label_names(fn, S, [lab], si) == {"Loop"}:
            arm = {b for b in fn.live if fn.edge_dominated(b, S, [lab])} | {tgt}
    if not arm:
        ctx.bad("loop-cfg|no-arm", fn.where(), "lower_stmt has no arm of its own for Loop statements")
        return
    calls = [c for c in fn.calls() if c.block in arm]
    ps = [c for c in calls if (c.callee or "").endswith("::push_stmt")]
    bt = [c for c in calls if (c.callee or "").endswith("::branch_terminator")]
    lb = [c for c in calls if (c.callee or "").endswith("::lower_block")]
    if len(ps) != 1 or len(bt) != 1 or len(lb) != 1:
        ctx.bad("loop-cfg|shape", fn.where(sorted(arm)[0]), "the Loop arm no longer has one push_stmt (condition), one branch_terminator and one lower_block (body): %d/%d/%d" % (len(ps), len(bt), len(lb)))
        return
    COND = ident(ps[0].args[2])
    BODY = ident(bt[0].args[3])
    EXIT = ident(bt[0].args[4])
    if len(COND) != 1 or len(BODY) != 1 or len(EXIT) != 1 or len(COND | BODY | EXIT) != 3:
        ctx.bad("loop-cfg|blocks", fn.where(ps[0].block), "condition / body / exit blocks of a loop are not three distinct fresh blocks (%s %s %s)" % (COND, BODY, EXIT))
        return

    def check(key, got, want, what):
        if got == want:
            ctx.ok("loop-cfg|" + key, fn.where(sorted(arm)[0]), what)
        else:
            names = {frozenset(COND): "the condition block", frozenset(BODY): "the body entry", frozenset(EXIT): "the exit block"}
            ctx.bad("loop-cfg|" + key, fn.where(sorted(arm)[0]), "%s: it is %s, it has to be %s. Liveness then follows edges the program never takes (or misses ones it does): an assignment that is read on the real path looks dead and is pruned" % (what, names.get(frozenset(got), sorted(got)), names.get(frozenset(want))))
    # the branch sits on the condition block
    st = [c for c in calls if (c.callee or "").endswith("::set_terminator") and any(k == "branch_terminator" for _, k in ident(c.args[2]))]
    check("branch-on-condition-block", ident(st[0].args[1]) if st else set(), COND, "the two-way branch is the terminator of the block that holds the condition")
    # LoopContext { break_target, continue_target, .. }
    fields = [f[0] for f in ctx.lib.adt("analysis::cfg::LoopContext")["variants"][0]["fields"]]
    lc = [(b, stt["rv"]) for b in sorted(arm) for stt in fn.blocks[b]["s"] if stt["rv"]["k"] == "agg" and str(stt["rv"].get("adt", "")).endswith("LoopContext")]
    if len(lc) == 1 and "break_target" in fields and "continue_target" in fields:
        ops = lc[0][1]["ops"]
        check("break-target", ident(ops[fields.index("break_target")]), EXIT, "`comot` continues at the loop's exit block")
        check("continue-target", ident(ops[fields.index("continue_target")]), COND, "`next` continues at the condition block (the condition is evaluated again)")
    else:
        ctx.bad("loop-cfg|context", fn.where(sorted(arm)[0]), "cannot see the LoopContext the body is lowered with")
    # the body is lowered starting at the body entry
    cur = lb[0].args[2]
    got = set()
    for bi, k, det in origins(fn, cur, 6):
        if k == "agg" and str(det[0]).endswith("Cursor"):
            got |= ident(det[2][0])
    check("body-entry", got, BODY, "the body is lowered into the block the branch's true edge enters")
    # every Goto built in the arm goes to the condition block (from before the loop and from the end of the body)
    gotos = [(b, stt["rv"]) for b in sorted(arm) for stt in fn.blocks[b]["s"] if stt["rv"]["k"] == "agg" and str(stt["rv"].get("adt", "")).endswith("Terminator") and stt["rv"].get("variant") == "Goto"]
    for i, (b, rv) in enumerate(gotos):
        check("goto-condition#%d" % (i + 1), ident(rv["ops"][0]), COND, "entry into the loop and the end of the body jump to the condition block")
    ctx.floor("jumps to the condition block", len(gotos), 2)
    # the statements after the loop are lowered into the exit block
    rets = [(b, stt["rv"]) for b in sorted(arm) for stt in fn.blocks[b]["s"] if stt["lhs"]["l"] == 0 and not stt["lhs"]["p"] and stt["rv"]["k"] == "agg" and str(stt["rv"].get("adt", "")).endswith("Cursor")]
    if rets:
        check("continues-at-exit", ident(rets[-1][1]["ops"][0]), EXIT, "code after the loop continues in the exit block")
    # Break reads break_target, Continue reads continue_target
    for kind, field in (("Break", "break_target"), ("Continue", "continue_target")):
        blocks = [b for b in sorted(fn.live) for stt in fn.blocks[b]["s"] if stt["rv"]["k"] == "agg" and str(stt["rv"].get("adt", "")).endswith("Terminator") and stt["rv"].get("variant") == kind]
        ok = False
        for b in blocks:
            rv = [stt["rv"] for stt in fn.blocks[b]["s"] if stt["rv"]["k"] == "agg" and stt["rv"].get("variant") == kind][0]
            for o in rv["ops"]:
                t = sh(ne(fn.deep(o)))
                m = re.search(r"(\{closure#\d+\})", t)
                if m:
                    clo = ctx.lib.fns.get(fn.id + "::" + m.group(1))
                    if clo is not None:
                        rd = set(fields_read(clo, "LoopContext"))
                        ok = rd == {field}
                        if not ok:
                            ctx.bad("loop-cfg|%s-reads|%s" % (kind.lower(), ",".join(sorted(rd))), fn.where(b), "the %s terminator takes its target from LoopContext.%s instead of .%s" % (kind, sorted(rd), field))
                if field in t:
                    ok = True
        if ok:
            ctx.ok("loop-cfg|%s-reads-%s" % (kind.lower(), field), fn.where(blocks[0]) if blocks else fn.where(), "%s terminator targets LoopContext.%s" % (kind, field))
        elif not any(r["rule"] == ctx.rule and r["status"] == "violation" and ("%s-reads" % kind.lower()) in r["instance"] for r in ctx.records):
            ctx.bad("loop-cfg|%s-target" % kind.lower(), fn.where(), "cannot see where the %s terminator takes its target from" % kind)


def r4d_bitset_arithmetic_agrees(ctx):
    """The liveness sets are words of bits.  Every helper that turns a local's index into (word, bit) - set, clear, test, fill,
    size - divides and reduces by the same number, and that number is the bit width of the word type.  One helper with another
    constant makes a local's bit unreachable for it (never set, or never cleared): every assignment to such a local looks dead."""
    helpers = {}
    for fid, fn in sorted(ctx.lib.fns.items()):
        if not fid.startswith("analysis::liveness::") or "{closure" in fid:
            continue
        ops = []
        for b in sorted(fn.live):
            for st in fn.blocks[b]["s"]:
                rv = st["rv"]
                if rv["k"] == "bin" and rv["op"] in ("Div", "Rem"):
                    t = sh(ne(fn.expr(rv["b"], 4)))
                    ops.append((rv["op"], int(t) if t.isdigit() else t[:12], b))
                    num = sh(ne(fn.deep(rv["a"])))
                    ops.append(("Num", num, b))
                if rv["k"] == "bin" and rv["op"] in ("Shl", "ShlUnchecked"):
                    ops.append(("ShlTy", fn.locals[st["lhs"]["l"]]["ty"], b))
        for c in fn.calls():
            if (c.callee or "").split("::")[-1] == "div_ceil":
                t = sh(ne(fn.deep(c.args[1])))
                ops.append(("Div", int(t) if t.isdigit() else t[:12], c.block))
        if ops:
            helpers[fid] = (fn, ops)
    n = 0
    widths = {"u64": 64, "u32": 32, "u128": 128, "u16": 16, "u8": 8, "usize": 64}
    word = None
    for fid, (fn, ops) in helpers.items():
        for kind, v, b in ops:
            if kind == "ShlTy":
                word = word or v
    want = widths.get(word or "", None)
    if want is None:
        ctx.bad("bitset|word-type", "src/analysis/liveness.rs", "cannot determine the word type of the liveness bit sets (mask type `%s`)" % word)
        return
    for fid, (fn, ops) in sorted(helpers.items()):
        ctx.touch(fn)
        short = fid.split("::")[-1]
        for kind, v, b in ops:
            n += 1
            if kind == "Num":
                # what is divided is the index / the count itself (a shifted numerator moves every word boundary by one)
                if re.match(r"^[A-Za-z_][A-Za-z0-9_.]*$", v) or re.match(r"^(Sub|sub)\(\w+(\.0)?,\w+\)$", v) and "local_start" in v:
                    ctx.ok("bitset|%s|numerator" % short, fn.where(b), "divides `%s`" % v)
                elif re.match(r"^Sub\(.*\blocal_start\b.*\)$", v) or re.match(r"^[a-z_]+\([A-Za-z_][A-Za-z0-9_.]*\)$", v):
                    ctx.ok("bitset|%s|numerator" % short, fn.where(b), "divides `%s`" % v[:40])
                else:
                    ctx.bad("bitset|%s|numerator|%s" % (short, v[:24]), fn.where(b), "%s splits `%s` into (word, bit) instead of the index / count itself: every word boundary moves, so for counts that are an exact multiple of the word size the last word is not covered (a live variable among the last %d looks dead)" % (short, v[:40], want))
                continue
            if kind == "ShlTy":
                if v == word:
                    ctx.ok("bitset|%s|mask-type" % short, fn.where(b), "mask built in %s" % v)
                else:
                    ctx.bad("bitset|%s|mask-type|%s" % (short, v), fn.where(b), "%s builds its bit mask in %s while the sets are words of %s" % (short, v, word))
            else:
                if v == want:
                    ctx.ok("bitset|%s|%s-by-%d" % (short, kind.lower(), want), fn.where(b), "index %s %d" % ("/" if kind == "Div" else "%", want))
                else:
                    ctx.bad("bitset|%s|%s-by-%s" % (short, kind.lower(), v), fn.where(b), "%s computes the %s with %s, the sets are words of %d bits (%s) and the other helpers use %d: locals whose index is %s or more get a bit this helper never touches, so what one helper sets another cannot see - a live variable is reported dead and its assignment pruned" % (short, "word index" if kind == "Div" else "bit index", v, want, word, want, v))
    ctx.floor("index computations in the liveness bit-set helpers", n, 10)


def r4e_fixpoint_flags_are_sticky(ctx):
    """Every iterate-until-stable loop of the analyses (summaries, liveness, reachability, reachable functions) resets its
    "changed" flag once per round and only ever raises it with a constant: a computed assignment lets the last element of a
    round decide, and the iteration stops on a state that is not a fixpoint."""
    from ..flow import fixpoint_flags
    n = 0
    for fn in [f for f in ctx.lib.fns.values() if f.file.startswith("src/analysis/")]:
        for l, info in fixpoint_flags(fn):
            n += 1
            ctx.touch(fn)
            name = fn.locals[l]["name"] or "_%d" % l
            computed = [(b, k) for (b, k, c, v) in info if not c]
            short = parent_fn(fn.id).split("::")[-1]
            if computed:
                ctx.bad("fixpoint-flag|%s|overwritten" % short, fn.where(computed[0][0]), "the fixpoint flag `%s` of %s is assigned a computed value inside the loop: the iteration can stop before the sets are stable, and facts that only appear in a later round (a use reached through a back edge, a capture reached through a longer call chain) are missing" % (name, short))
            else:
                ctx.ok("fixpoint-flag|%s|sticky" % short, fn.where(info[0][0]), "`%s` is only reset to false and raised to true" % name)
    ctx.floor("fixpoint flags in the analyses", n, 2)


def r3b_plan_queries_read_their_own_table(ctx):
    """The plan has one table per kind of removable thing; each query answers from the table of its own kind (both tables hold
    u32 ids, so the wrong one compiles and merely gives answers about other ids)."""
    from ..mir import fields_read
    pairs = {"contains_removable_stmt": "removable_stmts", "contains_removable_function_def": "removable_function_defs"}
    n = 0
    for meth, field in pairs.items():
        f = ctx.need("analysis::opt::OptimizationPlan::" + meth)
        rd = set()
        for g in ctx.lib.family(f.id):
            ctx.touch(g)
            rd |= set(fields_read(g, "OptimizationPlan"))
        n += 1
        if rd == {field}:
            ctx.ok("plan-query|%s" % meth, f.where(), "reads %s" % field)
        else:
            ctx.bad("plan-query|%s|%s" % (meth, ",".join(sorted(rd))), f.where(), "%s answers from %s instead of %s: a function (statement) is treated as removed when some *statement* (function) with the same numeric id is - a function that is called is not hoisted, or a live statement is skipped" % (meth, sorted(rd), field))
    # and build_optimization_plan fills exactly these two tables
    fields = [x[0] for x in ctx.lib.adt("analysis::opt::OptimizationPlan")["variants"][0]["fields"]]
    extra = [x for x in fields if x.startswith("removable_") and x not in pairs.values()]
    if extra:
        ctx.bad("plan-query|unqueried|%s" % ",".join(extra), "src/analysis/opt.rs", "the plan has a table %s that no audited query reads" % extra)
    ctx.floor("plan queries", n, 2)


def r2b_no_trap_verdicts_rest_on_stable_types(ctx):
    """`make u get x.len()` with u unused is removed when x.len() "cannot trap", and that verdict comes from x's recorded static
    type.  The verdict is only as good as that type: if a statement later in the text - executed earlier or later - can change
    the recorded type (a same-scope redeclaration with another type, an assignment of another type), an expression classified
    while the old type was on record can trap at run time after all, and removing it changes how the program ends.  The
    checker is single-pass, so the rule reports the combination: the classifier reaches the table of recorded variable types,
    and routines of the checker overwrite entries of that table after the declaration."""
    cg = ctx.lib.callgraph()
    cls = ctx.need("resolver::Resolver::classify_expr")
    ctx.touch(cls)
    seen, st = set(), [cls.id]
    while st:
        x = st.pop()
        if x in seen:
            continue
        seen.add(x)
        for cal in cg.get(x, {}):
            if cal in ctx.lib.fns:
                st.append(cal)
        st.extend(g.id for g in ctx.lib.closures_of(x))
    reads_types = "resolver::Resolver::lookup_var_info" in seen
    # writers of a recorded type other than the first declaration: stores of a ValueType through a projection rooted in
    # variable_scopes, outside the branch that pushes a new entry
    writers = []
    for fid, g in sorted(ctx.lib.fns.items()):
        if g.file != "src/resolver.rs":
            continue
        for b in sorted(g.live):
            for stt in g.blocks[b]["s"]:
                if not stt["lhs"]["p"]:
                    continue
                lty = g.locals[stt["lhs"]["l"]]["ty"]
                txt = sh(ne(g.deep({"copy": {"l": stt["lhs"]["l"], "p": []}})))
                is_vt = (stt["rv"]["k"] == "agg" and str(stt["rv"].get("adt", "")).endswith("ValueType")) or ("ValueType" in lty and "mut" in lty) or (stt["rv"]["k"] == "use" and "ValueType" in (g.locals[(stt["rv"]["a"].get("copy") or stt["rv"]["a"].get("move") or {"l": 0})["l"]]["ty"] if isinstance(stt["rv"]["a"], dict) and (stt["rv"]["a"].get("copy") or stt["rv"]["a"].get("move")) else ""))
                if is_vt and ("variable_scopes" in txt or "ValueType" in lty):
                    writers.append((parent_fn(fid), g.block_line(b)))
    writers = sorted(set(w for w, _l in writers))
    if not reads_types:
        ctx.ok("classifier-type-free", cls.where(), "the classifier does not consult recorded variable types")
        return
    if not writers:
        ctx.ok("classifier-types-stable", cls.where(), "recorded variable types are written once, at the declaration")
        return
    # Types do change.  The classifier may then use a type only behind a gate that answers, for the expression concerned,
    # "its type rests on nothing that can change": a wrapper W(expr) that reaches the type tables only on the false outcome of
    # a predicate P(expr).  Without such a gate on every route from the classifier to the tables, the old finding stands.
    R = "resolver::Resolver::"
    INFER, LOOKUP, LOOKF = R + "infer_expr_type", R + "lookup_var_info", R + "lookup_func"
    gates = {}
    for fid, w in sorted(ctx.lib.fns.items()):
        if w.file != "src/resolver.rs" or "{closure" in fid or fid in (INFER, cls.id):
            continue
        inf = [c for c in w.calls() if c.callee in (INFER, LOOKUP)]
        if not inf:
            continue
        ok_all = True
        pred = None
        for c in inf:
            subj = sh(ne(w.deep(c.args[1]))) if len(c.args) > 1 else None
            good = False
            for S, al in w.constraints(c.block):
                si = w.switch_info(S)
                if si["kind"] == "call" and set(al) == {0} and (si["callee"] or "").startswith(R) and si["call"]["args"] and sh(ne(w.deep(si["call"]["args"][-1]))) == subj:
                    pf = ctx.lib.fns.get(si["callee"])
                    if pf is not None and pf.locals[0]["ty"] == "bool":
                        good, pred = True, pf
            ok_all = ok_all and good
        if ok_all and pred is not None:
            gates[fid] = pred
    # reachability of the type tables from the classifier with the gates removed
    seen2, st = set(), [cls.id]
    while st:
        x = st.pop()
        if x in seen2 or x in gates:
            continue
        seen2.add(x)
        for cal in cg.get(x, {}):
            if cal in ctx.lib.fns:
                st.append(cal)
        st.extend(g.id for g in ctx.lib.closures_of(x))
    if LOOKUP in seen2 or not gates:
        ctx.bad("classifier-trusts-types-that-change", cls.where(), "classify_expr decides 'cannot trap' from the recorded static type of variables (it reaches lookup_var_info), and %s overwrite recorded types after the declaration: an expression classified under the old type - in a function defined earlier, or earlier in a loop body - is removed as harmless although it fails at run time once the variable holds the other type (`make x get \"abc\"  do g() start make u get x.len() end  x get 5  g()` prints on, while `shout(x.len())` in the same place ends in Type mismatch)" % ", ".join(w.split("::")[-1] for w in writers))
        return
    ctx.ok("classifier-gated", cls.where(), "every route from classify_expr to the recorded types passes %s" % ", ".join(sorted(g.split("::")[-1] for g in gates)))
    from ..tables import mir_enum_table
    from .c02 import _dispatch_arm
    inf = ctx.need(INFER)
    ctx.touch(inf)
    # which functions reach the tables (variable types, function return types)
    reach_tab = set()
    radj = {}
    for src, d in cg.items():
        for cal in d:
            radj.setdefault(cal, set()).add(src)
    st = [LOOKUP, LOOKF]
    while st:
        x = st.pop()
        if x in reach_tab:
            continue
        reach_tab.add(x)
        st.extend(radj.get(x, ()))
    for pf in {id(v): v for v in gates.values()}.values():
        ctx.touch(pf)
        pname = pf.id.split("::")[-1]
        arg = pf.argc      # the expression is the last parameter (with or without self)
        tab = mir_enum_table(pf, arg) or {}
        if not tab:
            ctx.bad("settled|%s|no-table" % pname, pf.where(), "%s does not dispatch on the kind of its expression" % pname)
            continue
        table_field = None
        needs_table = False
        for kind, res in sorted(tab.items()):
            vals = [str(x) for x in res]
            pa = _dispatch_arm(pf, "parser::Expr", kind)
            ia = _dispatch_arm(inf, "parser::Expr", kind)
            i_calls = [c for c in inf.calls() if ia and c.block in ia]
            i_tables = [c for c in i_calls if c.callee in reach_tab and c.callee != INFER]
            i_rec = sorted({sh(ne(inf.deep(c.args[1]))) for c in i_calls if c.callee == INFER and len(c.args) > 1})
            p_calls = [c for c in pf.calls() if pa and c.block in pa]
            p_rec = sorted({sh(ne(pf.deep(c.args[-1]))) for c in p_calls if c.callee == pf.id and c.args})
            key = "settled|%s|%s" % (pname, kind)
            if vals == ["false"]:
                if i_tables or i_rec:
                    ctx.bad(key + "|called-settled", pf.where(), "%s answers `cannot change` for every %s expression, but the type of one is inferred from %s: a type that rests on a reassigned variable is trusted" % (pname, kind, sorted({(c.callee or "").split("::")[-1] for c in i_tables}) or i_rec))
                else:
                    ctx.ok(key, pf.where(), "type of a %s expression rests on no table" % kind)
                continue
            if vals == ["true"]:
                ctx.ok(key, pf.where(), "never trusted")
                continue
            problems = []
            missing = [x for x in i_rec if x not in p_rec]
            if missing:
                problems.append("does not look into %s, which the inferred type depends on" % ", ".join(missing))
            if any(c.callee == LOOKUP for c in i_tables):
                needs_table = True
                cont = [c for c in p_calls if (c.callee or "").endswith("::contains")]
                fld = [sh(ne(pf.deep(c.args[0]))) for c in cont]
                fld = [f for f in fld if f.startswith("self.")]
                if fld:
                    table_field = fld[0]
                else:
                    problems.append("reads a variable's recorded type without asking whether the variable is assigned again")
            if any(c.callee == LOOKF for c in i_tables):
                # `is not a built-in` must itself be the answer on that path (one of the returned alternatives), not one
                # conjunct of it: `from_name(f).is_none() && args.any(may_change)` trusts the recorded return type of f()
                userfn = ("call:is_none" in vals and any((c.callee or "").endswith("Option::is_none") and "from_name" in sh(ne(pf.deep(c.args[0]))) for c in p_calls)) or (vals == ["true"])
                if not userfn:
                    problems.append("trusts the recorded return type of a user function (typed when the function was declared)")
            if problems:
                ctx.bad(key + "|" + problems[0][:28].replace(" ", "-"), pf.where(), "%s on a %s expression %s" % (pname, kind, "; ".join(problems)))
            else:
                ctx.ok(key, pf.where(), "asks %s" % (", ".join(p_rec) or table_field or "the built-in table"))
        if not needs_table:
            ctx.ok("settled|%s|no-variable-type-trusted" % pname, pf.where(), "no expression kind whose type comes from a variable's recorded type is ever called settled")
            continue
        if table_field is None:
            ctx.bad("settled|%s|no-table-of-reassigned-names" % pname, pf.where(), "%s never consults a table of reassigned variables" % pname)
            continue
        # the table is complete: filled by one collector that runs before anything is classified, sees every assignment and
        # every second declaration, and descends into every block a statement can hold
        fld = table_field.split(".", 1)[1]
        pushers, shrinkers = [], []
        for fid, g in sorted(ctx.lib.fns.items()):
            if g.file != "src/resolver.rs":
                continue
            for c in g.calls():
                short = (c.callee or "").split("::")[-1]
                if not c.args or sh(ne(g.deep(c.args[0]))).replace("&mut ", "") != table_field:
                    continue
                if short in ("push", "extend", "insert", "extend_from_slice", "push_within_capacity"):
                    pushers.append((g, c))
                elif short in ("clear", "truncate", "pop", "retain", "remove", "swap_remove", "drain", "dedup"):
                    shrinkers.append((g, c))
        for g, c in shrinkers:
            ctx.bad("settled|%s|shrinks|%s" % (fld, parent_fn(g.id).split("::")[-1]), g.where(c.block), "%s removes names from %s: a reassigned variable is forgotten" % (parent_fn(g.id).split("::")[-1], table_field))
        cols = sorted({parent_fn(g.id) for g, c in pushers})
        if len(cols) != 1:
            ctx.bad("settled|%s|collector|%s" % (fld, ",".join(x.split("::")[-1] for x in cols) or "none"), pf.where(), "%s is filled by %s (expected exactly one collecting pass)" % (table_field, cols))
            continue
        col = ctx.need(cols[0])
        ctx.touch(col)
        cname = col.id.split("::")[-1]
        rs = ctx.need(R + "resolve")
        cc = [c for c in rs.calls() if c.callee == col.id]
        cb = [c for c in rs.calls() if c.callee == R + "check_block"]
        if cc and cb and all(rs.dominates(cc[0].block, c.block) for c in cb):
            ctx.ok("settled|collector-runs-first", rs.where(cc[0].block), "%s runs before the first statement is checked" % cname)
        else:
            ctx.bad("settled|collector-runs-first", rs.where(), "%s does not run before check_block in resolve: expressions are classified against an incomplete table" % cname)
        stmt = ctx.lib.adt("syntax::parser::Stmt")
        for v in stmt["variants"]:
            arm = _dispatch_arm(col, "parser::Stmt", v["name"])
            calls_arm = [c for c in col.calls() if arm and c.block in arm]
            for fname, fty, _vis in v["fields"]:
                if "parser::Block" in fty:
                    want = "@%s.%s" % (v["name"], fname)
                    rec = [c for c in calls_arm if c.callee == col.id and any(want in sh(ne(col.deep(a))) for a in c.args[1:2])]
                    if not rec:
                        # an or-pattern (`FunctionDef { body, .. } | Loop { body, .. }`) shares one arm: the recursive call is
                        # reached from this variant's edge and one of the reaching definitions of its argument is this field
                        for S in sorted(col.live):
                            if col.blocks[S]["t"]["k"] != "switch":
                                continue
                            si = col.switch_info(S)
                            if si["kind"] == "discr" and si["ty"].endswith("parser::Stmt"):
                                for lab, tgt in col.succ[S]:
                                    if v["name"] in label_names(col, S, [lab], si):
                                        reg = col.reach([tgt], removed_nodes=[S])
                                        for c in col.calls():
                                            if not (c.block in reg and c.callee == col.id and len(c.args) > 1):
                                                continue
                                            op = c.args[1]
                                            for _ in range(4):      # through `&*binding` / `*binding` copies to the binding itself
                                                pl = (op.get("copy") or op.get("move")) if isinstance(op, dict) else None
                                                ds = col.whole_defs(pl["l"]) if pl is not None and not pl["p"] else []
                                                if len(ds) == 1 and ds[0][1] != "t" and ds[0][2]["rv"]["k"] == "ref" and ds[0][2]["rv"]["of"]["p"] == ["*"]:
                                                    op = {"copy": {"l": ds[0][2]["rv"]["of"]["l"], "p": []}}
                                                elif len(ds) == 1 and ds[0][1] != "t" and ds[0][2]["rv"]["k"] == "use" and isinstance(ds[0][2]["rv"]["a"], dict) and ((ds[0][2]["rv"]["a"].get("copy") or ds[0][2]["rv"]["a"].get("move") or {}).get("p") == ["*"]):
                                                    op = {"copy": {"l": (ds[0][2]["rv"]["a"].get("copy") or ds[0][2]["rv"]["a"].get("move"))["l"], "p": []}}
                                                else:
                                                    break
                                            if any(want in sh(ne(a)) for a in col.alt_exprs(op, 6)):
                                                rec.append(c)
                                break
                    if not rec:
                        # the iterative form: the block is pushed onto the work list that the collector's outer loop pops and
                        # whose popped element is the block whose statements are scanned
                        pops = [c for c in col.calls() if (c.callee or "").endswith("Vec::pop")]
                        feeds = any("pop(" in sh(ne(col.deep(c.args[0], 16))) and ".stmts" in sh(ne(col.deep(c.args[0], 16))) for c in col.calls() if (c.callee or "").split("::")[-1] in ("into_iter", "iter"))
                        worklists = {sh(ne(col.deep(c.args[0]))).replace("&mut ", "") for c in pops} if feeds else set()
                        for S in sorted(col.live):
                            if col.blocks[S]["t"]["k"] != "switch":
                                continue
                            si = col.switch_info(S)
                            if si["kind"] == "discr" and si["ty"].endswith("parser::Stmt"):
                                for lab, tgt in col.succ[S]:
                                    if v["name"] in label_names(col, S, [lab], si):
                                        reg = col.reach([tgt], removed_nodes=[S])
                                        for c in col.calls():
                                            if not (c.block in reg and (c.callee or "").endswith("Vec::push") and len(c.args) > 1 and sh(ne(col.deep(c.args[0]))).replace("&mut ", "") in worklists):
                                                continue
                                            op = c.args[1]
                                            for _ in range(4):
                                                pl = (op.get("copy") or op.get("move")) if isinstance(op, dict) else None
                                                ds = col.whole_defs(pl["l"]) if pl is not None and not pl["p"] else []
                                                if len(ds) == 1 and ds[0][1] != "t" and ds[0][2]["rv"]["k"] == "ref" and ds[0][2]["rv"]["of"]["p"] == ["*"]:
                                                    op = {"copy": {"l": ds[0][2]["rv"]["of"]["l"], "p": []}}
                                                elif len(ds) == 1 and ds[0][1] != "t" and ds[0][2]["rv"]["k"] == "use" and isinstance(ds[0][2]["rv"]["a"], dict) and ((ds[0][2]["rv"]["a"].get("copy") or ds[0][2]["rv"]["a"].get("move") or {}).get("p") == ["*"]):
                                                    op = {"copy": {"l": (ds[0][2]["rv"]["a"].get("copy") or ds[0][2]["rv"]["a"].get("move"))["l"], "p": []}}
                                                else:
                                                    break
                                            if any(want in sh(ne(a)) for a in col.alt_exprs(op, 6)):
                                                rec.append(c)
                                break
                    if rec:
                        ctx.ok("settled|collector|descends|%s.%s" % (v["name"], fname), col.where(rec[0].block), "descends into the block (recursive call or work list)")
                    else:
                        ctx.bad("settled|collector|descends|%s.%s|missing" % (v["name"], fname), col.where(), "%s does not descend into %s.%s: an assignment inside it is not seen, the variable counts as never reassigned and its recorded type is trusted" % (cname, v["name"], fname))
            if v["name"] == "AssignExisting":
                pushes = [c for c in calls_arm if (c.callee or "").split("::")[-1] == "push" and sh(ne(col.deep(c.args[0]))).replace("&mut ", "") == table_field]
                tgt = arm and min(arm)
                entry = None
                for S in sorted(col.live):
                    if col.blocks[S]["t"]["k"] == "switch":
                        si = col.switch_info(S)
                        if si["kind"] == "discr" and si["ty"].endswith("parser::Stmt"):
                            entry = [t for lab, t in col.succ[S] if label_names(col, S, [lab], si) == {"AssignExisting"}]
                uncond = bool(pushes) and bool(entry) and all(not [sw for sw, al in col.constraints(c.block) if sw in arm] for c in pushes)
                if uncond:
                    ctx.ok("settled|collector|assignment-recorded", col.where(pushes[0].block), "every `x get ..` records x")
                else:
                    ctx.bad("settled|collector|assignment-recorded", col.where(), "%s does not record the target of every assignment unconditionally" % cname)
            if v["name"] == "Assign":
                pushes = [c for c in calls_arm if (c.callee or "").split("::")[-1] == "push" and sh(ne(col.deep(c.args[0]))).replace("&mut ", "") == table_field]
                seen_test = [c for c in calls_arm if (c.callee or "").endswith("::contains")]
                firsts = [c for c in calls_arm if (c.callee or "").split("::")[-1] == "push" and c not in pushes]
                if pushes and seen_test and firsts and all(any(sw_al[1] != [0] for sw_al in col.constraints(c.block) if sw_al[0] in arm) for c in pushes):
                    ctx.ok("settled|collector|redeclaration-recorded", col.where(pushes[0].block), "a second `make x` records x; the first is remembered")
                else:
                    ctx.bad("settled|collector|redeclaration-recorded", col.where(), "%s does not record a name that is declared a second time (a redeclaration may change the type)" % cname)

def r4f_a_set_is_deduplicated_against_itself(ctx):
    """The fact tables are sets kept in vectors: `if !v.contains(x) { v.push(x) }`.  The membership test and the push must
    name the same vector and the same item.  Tested against a sibling (a write recorded only if the local was not *read*
    before), an element that is already in the other set is silently dropped - a function that has read a captured variable
    before it assigns to it loses the capture write, its calls look effect-free and are pruned."""
    n = 0
    for fid, fn in sorted(ctx.lib.fns.items()):
        if not (fn.file.startswith("src/analysis/") or fn.file == "src/resolver.rs"):
            continue
        for c in fn.calls():
            if not (c.callee or "").endswith("::push") or len(c.args) < 2:
                continue
            for S, al in fn.constraints(c.block):
                si = fn.switch_info(S)
                if not (si["kind"] == "call" and (si["callee"] or "").endswith("::contains") and set(al) == {0}):
                    continue
                n += 1
                ctx.touch(fn)
                pv, cv = sh(ne(fn.deep(c.args[0]))).replace("&mut ", ""), sh(ne(fn.deep(si["call"]["args"][0]))).replace("&mut ", "")
                pi, ci = sh(ne(fn.deep(c.args[1]))), sh(ne(fn.deep(si["call"]["args"][1])))
                short = parent_fn(fid).split("::")[-1]
                ordn = sum(1 for r in ctx.records if r["rule"] == ctx.rule and r["instance"].startswith("dedupe|%s#" % short))
                if pv == cv and pi == ci:
                    ctx.ok("dedupe|%s#%d" % (short, ordn + 1), fn.where(c.block), "tests and extends %s" % pv[:50])
                elif pv != cv:
                    ctx.bad("dedupe|%s|other-set|%s" % (short, cv.split(".")[-1][:30]), fn.where(c.block), "%s pushes into `%s` when the item is missing from `%s`: an item that is already in the other set is never recorded" % (short, pv[:60], cv[:60]))
                else:
                    ctx.bad("dedupe|%s|other-item" % short, fn.where(c.block), "%s tests `%s` for membership but pushes `%s`" % (short, ci[:40], pi[:40]))
    ctx.floor("deduplicating pushes of the analyses", n, 8)


def r5b_scope_kills_sit_where_the_scope_ends(ctx):
    """A block's variables die where the block *ends*: the kill set of a lexical scope is attached to the basic block in which
    lowering the nested block left the cursor - not to the one in which it started.  For a straight-line block the two are
    the same; once the nested block contains an `if` or a loop they differ, and kills attached at the start declare the
    block's variables dead at the end of its first basic block, so an assignment read only after that control flow is
    pruned."""
    n = 0
    for fid, fn in sorted(ctx.lib.fns.items()):
        if fn.file != "src/analysis/cfg.rs":
            continue
        for c in fn.calls():
            if not (c.callee or "").endswith("::add_scope_kills") or len(c.args) < 3:
                continue
            where = sh(ne(fn.deep(c.args[1], 18)))
            scope = sh(ne(fn.deep(c.args[2], 18)))
            m = re.search(r"scope_of_block\([^,]+,([^)]+)\)", scope)
            if not m:
                continue        # kill_scopes_through: kills for a jump out of several scopes, placed at the jump (R5)
            n += 1
            ctx.touch(fn)
            ast_block = m.group(1)
            key = "scope-kill|%s" % ast_block.split("@")[-1]
            if where.startswith("lower_block(") and ("," + ast_block + ",") in where.replace(" ", "")[:200]:
                ctx.ok(key, fn.where(c.block), "kills of %s attached to the block its lowering ended in" % ast_block[-24:])
            else:
                ctx.bad(key + "|at-start", fn.where(c.block), "the variables of %s are killed in `%s`, which is not the block in which lowering %s ended: with control flow inside the nested block they are declared dead too early and a later assignment to one of them is pruned" % (ast_block[-24:], where[:50], ast_block[-24:]))
    ctx.floor("scope-exit kill placements", n, 4)


def r4g_reads_and_writes_are_each_walked(ctx):
    """The passes that treat a statement's reads and writes alike (the last statement that references a local, the liveness
    transfer, the block facts) have one loop per set.  Two loops over the same set and none over its sibling is the copy-paste
    slip that type-checks: with the writes never walked, a declaration that is only written afterwards looks unreferenced, its
    `make` is pruned, and the later write meets a variable that does not exist."""
    pairs = (("reads", "writes"), ("transitive_capture_reads", "transitive_capture_writes"), ("direct_capture_reads", "direct_capture_writes"))
    n = 0
    for fid, fn in sorted(ctx.lib.fns.items()):
        if not fn.file.startswith("src/analysis/") or "{closure" in fid:
            continue
        its = []
        for c in fn.calls():
            if (c.callee or "").split("::")[-1] in ("into_iter", "iter") and c.args:
                t = sh(ne(fn.deep(c.args[0], 8)))
                m = re.search(r"\.(reads|writes|direct_capture_reads|direct_capture_writes|transitive_capture_reads|transitive_capture_writes)\b\)*$", t)
                if m:
                    its.append(m.group(1))
        if not its:
            continue
        short = fid.split("::")[-1]
        for a, b in pairs:
            ca, cb = its.count(a), its.count(b)
            if ca + cb == 0:
                continue
            n += 1
            ctx.touch(fn)
            if (ca >= 2 and cb == 0) or (cb >= 2 and ca == 0):
                twice, never = (a, b) if ca >= 2 else (b, a)
                ctx.bad("walks|%s|%s-twice" % (short, twice), fn.where(), "%s walks `%s` twice and `%s` never: what it computes ignores every %s (a declaration that is only written later is taken for unreferenced and pruned; the write then panics on a missing variable)" % (short, twice, never, never.replace("_", " ")))
            else:
                ctx.ok("walks|%s|%s/%s" % (short, a, b), fn.where(), "%d/%d" % (ca, cb))
    ctx.floor("read/write walks in the analyses", n, 5)


def r5c_if_branches_flow_into_the_join_from_their_ends(ctx):
    """After an `if`, control continues at a join block that is entered from where each branch *ended* (the cursor its lowering
    left) - not from where it began.  A branch with control flow of its own ends in another block than it starts in; a goto
    placed on its entry block overwrites that block's branch, the real tail is left without a successor, and when the other
    branch ends in `comot` / `next` / `return` the join is unreachable: everything after the `if` is pruned as dead code,
    whatever it does (a read_line, a shout)."""
    from .c02 import _dispatch_arm
    fn = ctx.need("analysis::cfg::FunctionBuilder::lower_stmt")
    ctx.touch(fn)
    arm = _dispatch_arm(fn, "parser::Stmt", "If") or set()
    n = 0
    for c in fn.calls():
        if not (c.callee or "").endswith("::set_terminator") or c.block not in arm or len(c.args) < 3:
            continue
        term = sh(ne(fn.deep(c.args[2], 6))).replace(" ", "")
        if not term.startswith("Terminator::Goto{new_block("):
            continue
        n += 1
        src = sh(ne(fn.deep(c.args[1], 10))).replace(" ", "")
        # an or-pattern binds the block in two arms (`(Some(tail), None) | (None, Some(tail))`): every reaching definition counts
        alts = [sh(ne(a)).replace(" ", "") for a in fn.alt_exprs(c.args[1], 6)]
        if len(alts) > 1:
            n += len(alts) - 1
        if "lower_block(" in src or (alts and all("lower_block(" in a for a in alts)):
            ctx.ok("if-join|from-branch-end#%d" % n, fn.where(c.block), "goto join placed on the block the branch's lowering ended in")
        else:
            ctx.bad("if-join|from-branch-entry|%s" % src[:24], fn.where(c.block), "the goto into the join block after an `if` is placed on `%s`, which is not where lowering the branch ended: for a branch that contains an `if` or a loop the join becomes unreachable from it and the statements after the `if` are pruned as dead" % src[:50])
    ctx.floor("gotos into the join block of an if", n, 4)


def r5d_a_jump_kills_exactly_the_scopes_it_leaves(ctx):
    """`comot` / `next` leave the scopes from the innermost one out to the loop body's scope, inclusive, and no further: the
    walk over the scope stack stops when the scope just killed *is* the boundary it was given.  Stopping one scope later kills
    the variables of the block that holds the loop, so a store to one of them right before the jump is pruned."""
    fn = ctx.lib.fns.get("analysis::cfg::FunctionBuilder::kill_scopes_through")
    if fn is None:
        ctx.bad("jump-kills|anchor", "", "kill_scopes_through not found")
        return
    ctx.touch(fn)
    kills = [c for c in fn.calls() if (c.callee or "").endswith("::add_scope_kills")]
    stops = []
    for S in sorted(fn.live):
        t = fn.blocks[S]["t"]
        if t["k"] != "switch":
            continue
        d = sh(ne(fn.deep(t["d"], 10))).replace(" ", "")
        if "boundary" in d:
            stops.append((S, d))
    good = [d for S, d in stops if re.fullmatch(r"(eq|Eq)\((next\(.*\)@Some\.0|scope),boundary\)|(eq|Eq)\(boundary,(next\(.*\)@Some\.0|scope)\)", d) or re.fullmatch(r"eq\(.*scope.*,.*boundary.*\)", d) and "parent" not in d and "scopes[" not in d]
    # the same set of scopes computed up front: the walk runs over `scope_stack[p..]` where p is the position of the boundary
    # in the stack (the whole stack when it is not there), so the boundary is the last scope killed
    sliced = False
    if kills and not stops:
        pos = [c for c in fn.calls() if (c.callee or "").split("::")[-1] in ("rposition", "position") and sh(ne(fn.deep(c.args[0], 6))) == "iter(scope_stack)"]
        clo = [g for g in ctx.lib.closures_of(fn.id)]
        if len(pos) == 1 and len(clo) == 1:
            cc = list(clo[0].calls())
            is_eq = len(cc) == 1 and (cc[0].callee or "").split("::")[-1] == "eq" and cc[0].dest["l"] == 0 and not any(clo[0].blocks[b]["t"]["k"] == "switch" for b in clo[0].live) \
                and sorted(sh(ne(clo[0].deep(a))).lstrip("*") for a in cc[0].args) == ["arg1.0", "arg2"] and "boundary" in sh(ne(fn.deep(pos[0].args[1], 6)))
            p_txt = sh(ne(fn.deep(pos[0].dest, 8))) if False else "%s(iter(scope_stack),%s)" % ((pos[0].callee or "").split("::")[-1], sh(ne(fn.deep(pos[0].args[1], 6))))
            want = "index(scope_stack,RangeFrom::RangeFrom{unwrap_or(%s,0)})" % p_txt
            walked = [sh(ne(fn.deep(c.args[0], 14))).replace(" ", "") for c in fn.calls() if (c.callee or "").split("::")[-1] == "into_iter"]
            killed = [sh(ne(fn.deep(k_.args[2], 6))) for k_ in kills]
            if is_eq and walked and all(w in ("rev(iter(%s))" % want, "iter(%s)" % want) for w in walked) and all(k_.startswith("next(") and k_.endswith("@Some.0") for k_ in killed) \
                    and all(fn.in_loop(k_.block) if hasattr(fn, "in_loop") else True for k_ in kills):
                sliced = True
    if sliced:
        ctx.ok("jump-kills|stops-at-the-boundary", fn.where(kills[0].block), "the walk covers the stack from the boundary's position to the top: the boundary is the last scope killed")
    elif kills and stops and len(good) == len(stops):
        ctx.ok("jump-kills|stops-at-the-boundary", fn.where(stops[0][0]), "the walk ends when the scope just killed equals the boundary")
    else:
        ctx.bad("jump-kills|stop-test|%s" % (stops[0][1][:30] if stops else "none"), fn.where(), "kill_scopes_through ends its walk on `%s`, not on `scope == boundary`: the scopes killed at a `comot` / `next` are not exactly the ones the jump leaves" % (stops[0][1][:70] if stops else "no test of the boundary"))


def r6_reachability_follows_every_call(ctx):
    """A function body is scanned for calls as soon as the function is found reachable, wherever its definition stands in the
    text: the worklist of compute_function_reachability gets every callee whose body becomes reachable, unconditionally.  A
    push that also asks whether the definition has been seen makes the result depend on text order - a function called only
    from a hoisted function is reported `never called`, pruned, and the runtime panics at the call."""
    fn = ctx.lib.fns.get("analysis::diagnostics::compute_function_reachability")
    if fn is None:
        ctx.bad("reachability|anchor", "", "compute_function_reachability not found")
        return
    ctx.touch(fn)
    n = 0
    for c in fn.calls():
        if not (c.callee or "").endswith("::push"):
            continue
        # the worklist: the vector that the routine's outer loop pops
        popped = {sh(ne(fn.deep(p_.args[0], 6))).replace("&mut ", "") for p_ in fn.calls() if (p_.callee or "").endswith("Vec::pop")}
        if sh(ne(fn.deep(c.args[0], 6))).replace("&mut ", "") not in popped:
            continue
        item = sh(ne(fn.deep(c.args[1], 12)))
        if "next(" not in item:
            continue        # the root function, pushed once before the loop
        n += 1
        conds = [sh(ne(fn.expr(fn.blocks[S]["t"]["d"], 5))).replace(" ", "") for S, al in fn.constraints(c.block)]
        # the tests a push may sit under: the loops' own drivers, `reachable[stmt]`, and `the callee's body was not reachable
        # yet` (the flag that is set right before the push); a test of the *definition* table is the text-order dependence
        extra = [d for d in conds if "definition_reachable" in d or ("definition" in d and "body" not in d)]
        if extra:
            ctx.bad("reachability|worklist|conditional-on-definition", fn.where(c.block), "a callee whose body has just become reachable is put on the worklist only if `%s`: whether its own calls are followed depends on where its definition stands in the text" % extra[0][:60])
        else:
            ctx.ok("reachability|worklist#%d" % n, fn.where(c.block), "every newly reachable callee is scanned")
    ctx.floor("worklist pushes of newly reachable callees", n, 1)


RULES = [("C03-R1", r1_plan_only_from_pure), ("C03-R1b", r1b_capture_write_is_an_effect), ("C03-R2", r2_effect_tables), ("C03-R2b", r2b_no_trap_verdicts_rest_on_stable_types), ("C03-R3", r3_plan_consulted), ("C03-R3b", r3b_plan_queries_read_their_own_table), ("C03-R4", r4_dataflow_shape), ("C03-R4b", r4b_reads_and_writes_reach_the_summaries), ("C03-R4c", r4c_summaries_are_a_transitive_closure), ("C03-R4d", r4d_bitset_arithmetic_agrees), ("C03-R4e", r4e_fixpoint_flags_are_sticky), ("C03-R4f", r4f_a_set_is_deduplicated_against_itself), ("C03-R4g", r4g_reads_and_writes_are_each_walked), ("C03-R5", r5_loop_cfg_shape), ("C03-R5b", r5b_scope_kills_sit_where_the_scope_ends), ("C03-R5c", r5c_if_branches_flow_into_the_join_from_their_ends), ("C03-R5d", r5d_a_jump_kills_exactly_the_scopes_it_leaves), ("C03-R6", r6_reachability_follows_every_call)]

EXPLANATION = (
    "R1: in build_optimization_plan every push into the removable sets is edge-dominated by the test that justifies it "
    "(!is_reachable; stmt_effective_class == PureNoTrap; declaration_is_runtime_removable), stmt_effective_class folds every "
    "direct callee and maps an unavailable summary to Impure, ExprClass::join is the maximum over its 3x3 domain. R2: sibling "
    "check between the runtime and the effect tables - per built-in variant the runtime arm's region is summarised from MIR "
    "(I/O, stores, Err construction, &mut access to the environment) and the class the tables assign must be at least as "
    "severe; the same per-Expr-variant comparison between eval_expr and classify_expr (Index, Divide/Mod); member calls must "
    "be >= PureMayTrap unless the receiver's static type is known. R3: the plan is consulted only from exec_block_with_flow "
    "(before exec_stmt, which runs only on the not-pruned outcome) and register_function, and answers false without a plan. "
    "R4: local shape of the dataflow equations (kill before gen, reads before writes, test before transfer, in = (out - defs "
    "- kills) U uses) and the may/must distinction: a callee's capture writes must not act as kills for a pruning verdict. "
    "Decides the integrity of the mechanism; does not decide soundness of the liveness/summary fixpoints as algorithms."
)
EXPLANATION += (
    " Added after seeded changes were missed: R1b an assignment to an enclosing variable is an effect - the writing statement is classed Impure, or the summaries' class is derived from the capture-write sets, or stmt_effective_class reads them (one of the three must hold); R4b every use of a looked-up variable is recorded for the statement and, on every path, also for the enclosing function (read with read, write with write); R4c summarize_component extends each transitive set of the caller with the same transitive set of the callee, raises the change flag when a set grew, joins the callee's transitive class, and every transitive set starts from the direct set of the same kind."
)
EXPLANATION += (
    " R3b: each query on the pruning plan answers from the table of its own kind (statements / function definitions; both hold u32 ids, so the wrong one type-checks). R4e: every iterate-until-stable loop of the analyses resets its `changed` flag once per round and only raises it with a constant. R4 additionally: the largest local id a function's frame is sized for counts the ids written by the callees' capture sets as well as the function's own, and the transfer function applies kills before gens in every statement class."
)
EXPLANATION += (
    " R2b: the classifier's 'cannot trap' verdicts must not rest on variable types that later statements can change: it reports the combination 'classify_expr reaches the table of recorded variable types' and 'checker routines overwrite entries of that table after the declaration' (open known finding D35: the checker is single-pass)."
)
EXPLANATION += (
    " R2 (rewritten after D40): traps of the expression arms are split by what they depend on - a value (division by zero, index range: may-trap on every path, an exemption by value fails closed) or a run-time type (Type mismatch: the arm may stay trap-free only on the positive side of a test on inferred static types, and every static type that test lets through is checked against the runtime's table obtained by partial evaluation - no Type mismatch outcome for an operator the checker accepts on those types); a global built-in that fails only on an argument's type may be answered by a typed may-trap join in classify_expr."
)
ASSUMPTIONS = ["the tables in effects.rs are the only source of built-in effect classes", "user-function effects enter only through summaries (direct_callees)"]
TRUSTED = ["rustc nightly MIR/HIR", "nsx exporter", "nsverif table extraction (constant propagation over acyclic table functions)"]
NONTRIVIAL = "one obligation per push site clause, per built-in variant, per join cell and per equation-order clause; distinct = distinct clause"
EXPLANATION += (
    " Round 6: R2b is a chain of obligations since the D35 repair (gate in front of the recorded types, predicate checked kind by kind against infer_expr_type's arms; a variable's type or a user call's result is never trusted - or, in the collector form, looked up in a complete table). R4f: `if !v.contains(x) { v.push(x) }` tests and extends the same vector with the same item. R4g: a pass with one loop per read/write set does not walk one set twice and its sibling never. R5b: the kills of a lexical scope are attached to the block in which lowering the nested block *ended*. R5c: the gotos into the join block after an `if` are placed on the branches' end blocks. R4c's initial-set comparison was repaired (it compared a prefix both sides share)."
)
EXPLANATION += (
    " Round 7: R5d the walk that kills scopes at a `comot` / `next` ends when the scope just killed equals its boundary; R6 every callee whose body becomes reachable is put on the reachability worklist unconditionally (no test of the definition table); R2b's user-call clause requires `is not a built-in` to be the answer itself, not a conjunct."
)

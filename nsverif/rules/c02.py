"""C02 — memory reclamation is invisible (mechanism integrity on MIR)."""
import re
from ..flow import chain_blocks, origins
from ..guards import ne, sh
from ..mir import norm as mir_norm, parent_fn, show
from ..panics import label_names

PROMOTE = "runtime::Value::promote"
DETACH_OK = {PROMOTE, "runtime::Value::detach", "arena::pool::PoolSet::alloc_str", "arena::cow::ArenaCow::promote"}
FREE = "runtime::Value::return_to_pool"
RESET = ("arena::bump::Arena::reset", "arena::debug::Arena::reset")
HEAPLESS = {"Null", "Number", "Bool"}


def runtime_bodies(ctx):
    return sorted([f for f in ctx.lib.in_file("src/runtime.rs")], key=lambda f: (f.line, f.id))


def operand_ty(fn, o):
    pl = (o.get("move") or o.get("copy")) if isinstance(o, dict) else None
    if pl and not pl["p"]:
        return fn.locals[pl["l"]]["ty"]
    return ""


def frame_switches(fn):
    """Switches on `has_frame_arena()` (or on a bool parameter/variable named has_frame)."""
    out = []
    for S in sorted(fn.live):
        if fn.blocks[S]["t"]["k"] != "switch":
            continue
        d = fn.blocks[S]["t"]["d"]
        for (bi, k, det) in origins(fn, d, 6):
            if k == "call" and det[0] == "runtime::Runtime::has_frame_arena":
                out.append(S)
                break
            if k == "arg" and fn.locals[det]["name"] == "has_frame":
                out.append(S)
                break
    return out


def no_frame_edge_dominates(fn, block, hf):
    return any(fn.edge_dominated(block, S, [0]) for S in hf)


def check_sink(ctx, fn, kind, block, operand, accepted=None, what=""):
    accepted = accepted or DETACH_OK
    hf = frame_switches(fn)
    bad = []
    good = []
    for (bi, k, det) in origins(fn, operand, 8):
        if k == "call" and det[0] in accepted:
            good.append(det[0].split("::")[-1])
            continue
        if k == "const":
            continue
        if k == "agg" and det[0] == "runtime::Value" and det[1] in HEAPLESS:
            continue
        if k == "call" and det[0] in ("std::mem::replace", "core::mem::replace", "std::mem::take"):
            # value moved out of another place: judged at the def block like any raw value
            pass
        if any(no_frame_edge_dominates(fn, b, hf) for b in chain_blocks(bi) + (block,)):
            continue
        bad.append((k, det[0] if k in ("call", "agg") else det, bi))
    key = "%s|%s|%s" % (parent_fn(fn.id), kind, what)
    ordn = sum(1 for r in ctx.records if r["rule"] == ctx.rule and r["instance"].split("#")[0] == key)
    key = "%s#%d" % (key, ordn + 1)
    if bad:
        ctx.bad(key, fn.where(block),
                "value stored/escaping %s without passing promotion on the frame-arena path: raw producers %s (accepted: %s)" % (
                    what, [(k, str(d)) for k, d, b in bad], sorted(x.split("::")[-1] for x in accepted)))
    else:
        ctx.ok(key, fn.where(block), "producers on the frame path: %s" % (sorted(set(good)) or "heap-free constants"))


def r1_promote_before_store(ctx):
    n = 0
    for fn in runtime_bodies(ctx):
        ctx.touch(fn)
        pid = parent_fn(fn.id)
        if pid in ("runtime::Value::promote", "runtime::Value::clone_into", "runtime::Value::detach"):
            continue  # the copy routines themselves build the detached value
        for b in sorted(fn.live):
            for s in fn.blocks[b]["s"]:
                rv = s["rv"]
                lhs = s["lhs"]
                if rv["k"] == "agg" and rv["adt"].endswith("LocalSlot") and len(rv["ops"]) >= 3:
                    if pid == "runtime::Runtime::eval_function_call":
                        # A parameter's value may stay on the frame: the slot lives in the callee's own scope and is popped
                        # before the frame is rewound.  The one way such a value could outlive its storage - an array that
                        # grows inside a loop body of the callee - is R7's obligation (until D21/D29 was repaired this sink
                        # demanded a promoted value here, which is more than the property needs).
                        param_binding(ctx, fn, b, rv["ops"][2])
                    else:
                        check_sink(ctx, fn, "LocalSlot", b, rv["ops"][2], what="into a variable slot")
                    n += 1
                elif rv["k"] == "agg" and rv["adt"].endswith("ExecFlow") and rv["variant"] == "Return":
                    check_sink(ctx, fn, "ExecFlow::Return", b, rv["ops"][0], accepted=DETACH_OK,
                               what="out of the scopes that own its storage (returned past pop_scope / the callee's frame reset)")
                    n += 1
                elif lhs["p"] == ["*"] and "mut runtime::Value" in fn.locals[lhs["l"]]["ty"] and rv["k"] == "use":
                    check_sink(ctx, fn, "slot-write", b, rv["a"], what="through &mut Value")
                    n += 1
        for c in fn.calls():
            if c.callee in ("std::mem::replace", "core::mem::replace") and "mut runtime::Value" in operand_ty(fn, c.args[0]):
                check_sink(ctx, fn, "mem::replace", c.block, c.args[1], what="through &mut Value")
                n += 1
            elif c.callee and c.callee.endswith("Vec::push") and "runtime::Value" in operand_ty(fn, c.args[1]):
                recv = sh(ne(fn.deep(c.args[0])))
                if not recv.startswith("self."):
                    continue  # only vectors owned by the Runtime are stores; temporaries live on the frame
                check_sink(ctx, fn, "push", c.block, c.args[1], what="into %s" % recv)
                n += 1
            elif c.callee == "builtins::array::ArrayBuiltin::push":
                check_sink(ctx, fn, "array-push", c.block, c.args[1], what="into a script array")
                n += 1
    ctx.floor("store/escape sinks", n, 10)
    host_value_storage(ctx)


def param_binding(ctx, fn, block, operand):
    """Arguments live in the callee's frame scope; only a borrowed alias of a pool slot must be detached."""
    ok = False
    for (bi, k, det) in origins(fn, operand, 8):
        if k == "agg" and det[0] == "runtime::Value" and det[1] == "Str":
            # Value::Str(Owned(alloc_str(..))) built under Borrowed ∧ pool.contains(..)
            txt = show(fn.deep(det[2][0]))
            cons = fn.constraints(chain_blocks(bi)[-1])
            has_contains = any(fn.switch_info(S)["kind"] == "call" and (fn.switch_info(S)["callee"] or "").endswith("PoolSet::contains") and 0 not in al for S, al in cons)
            if "alloc_str" in txt and has_contains:
                ok = True
    # An array argument is a fresh vector, but its string items are borrows of the source variable's pool slots
    # (ArenaCow::clone borrows): it has to go through a routine that visits the items (detach / promote) as well.
    detaching = set()
    for (bi, k, det) in origins(fn, operand, 8):
        if k == "agg" and det[0] == "runtime::Value" and det[1] == "Str" and "alloc_str" in show(fn.deep(det[2][0])):
            detaching.add(chain_blocks(bi)[-1])     # the string idiom: Value::Str(Owned(pool.alloc_str(..)))
        if k == "call" and det[0] in DETACH_OK:
            detaching.add(chain_blocks(bi)[-1])
    vs = None
    for S in sorted(fn.live):
        if fn.blocks[S]["t"]["k"] != "switch" or not fn.dominates(S, block):
            continue
        si = fn.switch_info(S)
        if si["kind"] == "discr" and si["ty"].endswith("runtime::Value") and not fn.dominates(block, S):
            # the closest dominating dispatch on a Value that is not the loop-carried one
            if fn.reach([S], removed_nodes=[block]) and block in fn.reach_from_succ(S):
                vs = (S, si)
    akey = "%s|param-binding|Array" % parent_fn(fn.id)
    if vs is None:
        ctx.bad(akey + "|no-dispatch", fn.where(block), "parameter binding does not look at the kind of the argument: an array argument whose string items borrow the caller's variable slots is bound as it is")
    else:
        S, si = vs
        through = set()
        for lab, tgt in fn.succ[S]:
            names = label_names(fn, S, [lab], si)
            if block in fn.reach([tgt], removed_nodes=detaching - {block}):
                through |= names
        if "Array" in through:
            ctx.bad(akey + "|passthrough", fn.where(S), "an Array argument is bound to its parameter without visiting its items: string items of the argument still borrow the pool slots of the variable it was read from, so when the callee (or anything it calls) overwrites that variable's element the parameter reads a recycled slot")
        else:
            ctx.ok(akey, fn.where(S), "Array arguments pass a detaching routine before they are bound")
    key = "%s|param-binding" % parent_fn(fn.id)
    if ok:
        ctx.ok(key, fn.where(block), "Borrowed ∧ pool.contains(..) -> pool.alloc_str(..) detach present")
    else:
        ctx.bad(key, fn.where(block), "parameter binding no longer detaches a borrowed alias of a pool slot (the caller's slot can be recycled while the callee still reads the parameter)")


def param_binding_rule(ctx):
    """The parameter-binding obligations on their own (shared with C05-R5: an argument array is a value of its own)."""
    fn = ctx.need("runtime::Runtime::eval_function_call")
    ctx.touch(fn)
    n = 0
    for b in sorted(fn.live):
        for s in fn.blocks[b]["s"]:
            rv = s["rv"]
            if rv["k"] == "agg" and rv["adt"].endswith("LocalSlot") and len(rv["ops"]) >= 3:
                param_binding(ctx, fn, b, rv["ops"][2])
                n += 1
    ctx.floor("parameter slots built in eval_function_call", n, 1)


def host_value_storage(ctx):
    """Text handed to a process command (argument, environment entry, working directory, stdin text, program) is stored in the
    command, which lives on the persistent arena for as long as the script keeps it: the text has to be allocated there too,
    not on the frame arena that is rewound at the end of the loop iteration / call in which the command was configured."""
    n = 0

    def persistent(fn, operand, depth=0):
        t = sh(ne(fn.deep(operand)))
        m = re.match(r"^&?(?:branch\()?(\w+)\((.*)$", t)
        if re.match(r"^&?(to_string|from_str|from_str_in|with_capacity_in|new_in)\(&?self\.arena\b", t) or t in ("self.arena", "&self.arena"):
            return True, t
        if "self.frame" in t.split(",")[0]:
            return False, "allocated on the frame arena (%s)" % t[:50]
        if m and depth < 2:
            callee = [c for c in fn.calls() if (c.callee or "").split("::")[-1] == m.group(1) and (c.callee or "").startswith("runtime::Runtime::")]
            if callee:
                g = ctx.lib.fns.get(callee[0].callee)
                if g is not None:
                    oks = []
                    for b in sorted(g.live):
                        for st in g.blocks[b]["s"]:
                            rv = st["rv"]
                            if st["lhs"]["l"] == 0 and not st["lhs"]["p"] and rv["k"] == "agg" and rv.get("variant") == "Ok":
                                oks.append(persistent(g, rv["ops"][0], depth + 1))
                    if oks:
                        bad = [w for ok, w in oks if not ok]
                        return (not bad, bad[0] if bad else "through %s" % m.group(1))
        return False, "storage of `%s` not recognised" % t[:50]
    for fn in runtime_bodies(ctx):
        for c in fn.calls():
            cal = c.callee or ""
            if not cal.startswith("process::ProcessCommand::") or len(c.args) < 2:
                continue
            short = cal.split("::")[-1]
            if short == "new":
                continue    # a fresh command is a temporary on the frame; it becomes persistent through HostHandle::promote (R5)
            for k, a in enumerate(c.args[1:]):
                pl = (a.get("move") or a.get("copy")) if isinstance(a, dict) else None
                ty = fn.locals[pl["l"]]["ty"] if pl is not None and not pl["p"] else ""
                if "ArenaString" not in ty:
                    continue
                n += 1
                ctx.touch(fn)
                ok, why = persistent(fn, a)
                key = "host-store|%s|%s#%d" % (parent_fn(fn.id).split("::")[-1], short, k + 1)
                if ok:
                    ctx.ok(key, fn.where(c.block), "allocated on the persistent arena")
                else:
                    ctx.bad(key, fn.where(c.block), "the text stored by %s is %s: the command outlives the loop iteration / call in which it is configured, the frame arena is rewound there, and the child later receives whatever was allocated over it" % (short, why))
    ctx.floor("texts stored into process commands", n, 4)


def r2_copy_before_free(ctx):
    """Within one body no copy of a pre-existing value may follow the release of a slot it can alias."""
    n = 0
    for fn in runtime_bodies(ctx):
        frees = fn.calls_to(FREE)
        if not frees:
            continue
        copies = [c for c in fn.calls() if c.callee in (PROMOTE, "arena::pool::PoolSet::alloc_str", "runtime::Value::clone_into", "runtime::Value::detach")]
        if not copies:
            continue
        n += 1
        ctx.touch(fn)
        for fr in frees:
            after = fn.reach_from_succ(fr.block)
            late = [c for c in copies if c.block in after and not fn.dominates(c.block, fr.block)]
            key = "%s|free-then-copy" % parent_fn(fn.id)
            if late:
                # the copied operand must have been produced before the free to be at risk
                c = late[0]
                ctx.bad(key, fn.where(fr.block),
                        "return_to_pool (bb%d) can be followed by %s (bb%d, line %d) of a value that was alive before the release: if the new value borrows the released slot (`x get x`), the copy reads freed, poisoned memory" % (
                            fr.block, c.callee.split("::")[-1], c.block, c.line))
            else:
                ctx.ok(key, fn.where(fr.block), "every copy dominates the release")
    ctx.floor("bodies with both a release and a copy", n, 2)


def matches_true_set(fn, si):
    """For a bool assigned constants under a discriminant switch (matches!(v, A | B)): the variants that set it true."""
    out = set()
    for (bi, kk, st) in si["defs"]:
        if kk == "t":
            continue
        rv = st["rv"]
        if rv["k"] == "use" and isinstance(rv["a"], dict) and rv["a"].get("int") == 1:
            for S2, lab in fn.deciding(bi):
                si2 = fn.switch_info(S2)
                if si2["kind"] == "discr":
                    out |= label_names(fn, S2, [lab], si2)
    return out


def frame_resets(fn):
    out = []
    for c in fn.calls():
        if c.callee in RESET or c.declared in RESET:
            recv = sh(ne(fn.deep(c.args[0])))
            out.append((c, recv))
    return out


AUDITED_RESET_CALLERS = {
    "runtime::Runtime::exec_stmt": "per-iteration frame reset of the loop arm",
    "runtime::Runtime::relocate_return_value": "callee frame reset and reclaim of the staging copy",
    "<arena::scratch::ScratchArena as std::ops::Drop>::drop": "scoped reset of a scratch arena",
    "arena::scratch::init": "re-initialisation of the two scratch arenas",
    "arena::debug::Arena::reset": "debug wrapper forwarding to bump::Arena::reset",
}


def r4_resets(ctx):
    # the primitive itself: reset(to) leaves the watermark at exactly `to` (shared with C11-R2)
    from .c11 import reset_sets_its_argument
    reset_sets_its_argument(ctx)
    # who may call reset
    n = 0
    for fn in ctx.lib.fns.values():
        for c in fn.calls():
            if c.callee in RESET or c.declared in RESET:
                n += 1
                pid = parent_fn(fn.id)
                if pid in AUDITED_RESET_CALLERS:
                    ctx.ok("who|%s" % pid, fn.where(c.block), AUDITED_RESET_CALLERS[pid])
                else:
                    ctx.bad("who|%s" % pid, fn.where(c.block), "Arena::reset called from a body outside the audited set: every reset site needs the staging/liveness argument of C02-R4")
    ctx.floor("Arena::reset call sites", n, 7 if ctx.cfg == "release" else 8)

    rrv = ctx.need("runtime::Runtime::relocate_return_value")
    ctx.touch(rrv)
    resets = frame_resets(rrv)
    fr = [c for c, recv in resets if recv.endswith(".frame")]
    pr = [c for c, recv in resets if recv.endswith(".arena")]
    exits = set(rrv.exits())
    # every path passes exactly one frame reset
    r = rrv.reach([0], removed_nodes=[c.block for c in fr])
    if r & exits:
        ctx.bad("relocate|path-without-reset", rrv.where(), "a path through relocate_return_value reaches the return without resetting the callee's frame")
    else:
        ctx.ok("relocate|every-path-resets", rrv.where(), "%d frame resets cover all paths" % len(fr))
    for c in fr:
        others = [d for d in fr if d is not c and d.block in rrv.reach_from_succ(c.block)]
        if others:
            ctx.bad("relocate|double-reset", rrv.where(c.block), "two frame resets on one path")
        # the reset uses the offset parameter
        arg = sh(ne(rrv.expr(c.args[1], 6)))
        if arg != "frame_offset":
            ctx.bad("relocate|reset-offset", rrv.where(c.block), "frame reset uses `%s`, not the offset captured before the call" % arg)
    # classify the region of each frame reset
    stage_calls = [c for c in rrv.calls() if c.callee == "arena::string::ArenaString::from_str"]
    promotes = rrv.calls_to(PROMOTE)
    kinds = {}
    for c in fr:
        pre_stage = [s for s in stage_calls if rrv.dominates(s.block, c.block) and sh(ne(rrv.deep(s.args[0]))).endswith(".arena")]
        pre_prom = [p for p in promotes if rrv.dominates(p.block, c.block)]
        if pre_stage:
            kinds["staged"] = c
            post = [s for s in stage_calls if rrv.dominates(c.block, s.block) and sh(ne(rrv.deep(s.args[0]))).endswith(".frame")]
            if not post:
                ctx.bad("relocate|no-rebuild", rrv.where(c.block), "after the frame reset the staged string is not rebuilt on the caller's frame")
                continue
            src = sh(ne(rrv.expr(post[0].args[1], 6)))
            if "staged" not in src:
                ctx.bad("relocate|rebuild-source", rrv.where(post[0].block), "the post-reset copy reads `%s` instead of the staged string (the frame string is gone by then)" % src)
            else:
                ctx.ok("relocate|staged-string", rrv.where(c.block), "stage on persistent -> reset frame -> rebuild from staged")
            for p in pr:
                if not rrv.dominates(post[0].block, p.block):
                    ctx.bad("relocate|stage-reclaimed-early", rrv.where(p.block), "the staging copy is reclaimed before it has been copied back")
                else:
                    ctx.ok("relocate|stage-reclaim-order", rrv.where(p.block), "persistent reset dominated by the copy back")
        elif pre_prom:
            kinds["array"] = c
            ctx.ok("relocate|array-promoted", rrv.where(c.block), "promote dominates the frame reset")
        else:
            kinds["plain"] = c
            # must be the path on which the value owns no frame memory: not a frame-owned string,
            # not an array, not a host handle (both are cloned onto the frame by every variable read)
            excluded = set()
            n_tests = 0
            for S, al in rrv.constraints(c.block):
                si = rrv.switch_info(S)
                if si["kind"] == "multi" and set(al) == {0}:
                    n_tests += 1
                    excluded |= matches_true_set(rrv, si)
                elif si["kind"] == "discr" and si["ty"].endswith("runtime::Value"):
                    n_tests += 1
                    excluded |= set(si["vars"].values()) - label_names(rrv, S, al, si)
                elif si["kind"] == "place" and set(al) == {0}:
                    n_tests += 1
            missing = {"Array", "Host"} - excluded
            if missing or n_tests < 2:
                ctx.bad("relocate|plain-path|%s" % ",".join(sorted(missing) or ["frame-string-test"]), rrv.where(c.block),
                        "the unstaged frame reset is reached by %s values: they are cloned onto the callee's frame by every variable read, so the returned value points into reset memory" % (sorted(missing) or "frame-owned string"))
            else:
                ctx.ok("relocate|plain-path", rrv.where(c.block), "plain reset only for values that own no frame memory (excluded: %s + frame-owned strings)" % sorted(excluded))
    for k in ("staged", "array", "plain"):
        if k not in kinds:
            ctx.bad("relocate|missing-%s-path" % k, rrv.where(), "relocate_return_value lost its %s path" % k)

    # loop arm and call boundary: the offset is captured before the body runs
    def captured_before(fn, reset_call, offset_arg, work_calls, label):
        """The offset handed to the reset comes from Arena::offset() read at a point that no evaluation precedes."""
        offs = [o for o in fn.calls() if (o.callee or "").endswith("Arena::offset") and "frame" in sh(ne(fn.deep(o.args[0])))]
        src_ok = False
        opt_locals = set()

        def root_place(op, depth=0):
            pl = (op.get("move") or op.get("copy")) if isinstance(op, dict) else None
            if pl is None:
                return None
            if pl["p"]:
                return pl
            defs = fn.whole_defs(pl["l"])
            if len(defs) == 1 and defs[0][1] != "t" and defs[0][2]["rv"]["k"] == "use" and depth < 6:
                return root_place(defs[0][2]["rv"]["a"], depth + 1)
            return pl
        rp = root_place(offset_arg)
        if rp is not None and rp["p"] and "Option" in fn.locals[rp["l"]]["ty"]:
            # the payload of an Option local: that local must be Some(frame.offset()) wherever it is Some
            opt_locals.add(rp["l"])
            for (bi, k, det) in origins(fn, {"copy": {"l": rp["l"], "p": []}}, 8):
                if k == "agg" and det[1] == "Some" and any(kk == "call" and dd[0].endswith("Arena::offset") for (_b, kk, dd) in origins(fn, det[2][0], 6)):
                    src_ok = True
        for (bi, k, det) in origins(fn, offset_arg, 8):
            if k == "call" and det[0].endswith("Arena::offset"):
                src_ok = True
        if not offs or not src_ok:
            ctx.bad("%s|offset-source" % label, fn.where(reset_call.block), "the frame offset handed to the reset is not one read from frame.offset()")
            return
        bad = []
        # the branch on which no offset was captured (single-arena mode) performs no reset at all
        skip = []
        for S in sorted(fn.live):
            if fn.blocks[S]["t"]["k"] == "switch":
                si = fn.switch_info(S)
                if si["kind"] == "discr" and si["ty"].endswith("Option") and si["of"]["l"] in opt_locals:
                    skip += [(S, lab) for lab, _ in fn.succ[S] if label_names(fn, S, [lab], si) == {"None"}]
        for w in work_calls:
            r = fn.reach_from_succ(w.block, removed_nodes=[reset_call.block], removed_edges=skip)
            if any(o.block in r for o in offs):
                bad.append(w)
        if bad:
            ctx.bad("%s|offset-before-work" % label, fn.where(bad[0].block), "frame.offset() is read after `%s` already ran: memory allocated by it survives the reset or live data is cut off" % bad[0].callee.split("::")[-1])
        else:
            ctx.ok("%s|offset-before-work" % label, fn.where(reset_call.block), "offset read before %d evaluation call(s); none can reach the read without passing the reset" % len(work_calls))

    es = ctx.need("runtime::Runtime::exec_stmt")
    ctx.touch(es)
    for c, recv in frame_resets(es):
        work = [w for w in es.calls_to("runtime::Runtime::exec_block_with_flow") if c.block in es.reach_from_succ(w.block)]
        captured_before(es, c, c.args[1], work, "loop")
        # the iteration's memory is released only on the path that goes round the loop again: whatever leaves exec_stmt after
        # the reset has been produced after it (the next evaluation of the condition, the next run of the body).  A `return`
        # out of the body carries a value that lives in that memory; it has to be on its way before the reset.
        fresh = [w.block for w in es.calls_to("runtime::Runtime::exec_block_with_flow") + es.calls_to("runtime::Runtime::eval_expr") if w.block in es.reach_from_succ(c.block)]
        r = es.reach_from_succ(c.block, removed_nodes=fresh)
        if r & set(es.exits()):
            ctx.bad("loop|reset-before-leaving", es.where(c.block), "after the per-iteration frame reset exec_stmt can still return what the finished iteration produced (the body's Return value, for instance) without evaluating anything new: that value lives in the memory just released, so `return` from inside a loop hands out recycled bytes")
        else:
            ctx.ok("loop|reset-only-when-continuing", es.where(c.block), "every exit after the reset passes a new evaluation of the condition or body")
    efc = ctx.need("runtime::Runtime::eval_function_call")
    ctx.touch(efc)
    for rel in efc.calls_to("runtime::Runtime::relocate_return_value"):
        work = [w for w in efc.calls_to("runtime::Runtime::eval_expr") + efc.calls_to("runtime::Runtime::exec_block_with_flow")]
        captured_before(efc, rel, rel.args[2], work, "call")


def host_colocation(ctx):
    """Handle and payload of a host value are built on the same arena (shared with C16-R5: captured output that dangles is not
    the output the child produced)."""
    # A host value is a handle plus a payload (a command's texts, a result's captured output).  HostHandle::promote decides
    # from the *handle's* address alone whether the value has to be copied off the frame, so handle and payload have to be
    # allocated on the same arena wherever a host value is built: a payload on the frame behind a persistent handle is never
    # copied and dangles after the next frame reset.
    nh = 0
    arena_re = re.compile(r"\bself\.(?:frame|arena)\b|\barena\(&?\*?(?:self\.)?pool\)|(?<![\w.])arena(?![\w(])")
    for fn in sorted(ctx.lib.fns.values(), key=lambda f: (f.file, f.line, f.id)):
        if not fn.file.startswith("src/"):
            continue
        for c in fn.calls():
            if not (c.callee or "").endswith("HostHandle::new_in") or len(c.args) < 2:
                continue
            nh += 1
            ctx.touch(fn)
            home = sh(ne(fn.deep(c.args[0]))).lstrip("&*")
            payload = sh(ne(fn.deep(c.args[1])))
            # arenas handed to the routines that build the payload (the scratch vector of evaluated arguments is not payload)
            payload_wo_tmp = re.sub(r"with_capacity_in\(len\([^()]*\),self\.frame\)", "tmp", payload)
            used = set(m.group(0).replace("&", "").replace("*", "") for m in arena_re.finditer(payload_wo_tmp))
            short = parent_fn(fn.id).split("::")[-1]
            ordn = sum(1 for r in ctx.records if r["rule"] == ctx.rule and r["instance"].startswith("host-colocation|%s#" % short))
            other = sorted(u for u in used if u != home)
            if not used and re.search(r"\bclone\(", show(fn.deep(c.args[1]))):
                # a derived Clone keeps the allocator of what it copies: the payload stays wherever the source lives
                ctx.bad("host-colocation|%s|%s-vs-clone" % (short, home[:16]), fn.where(c.block), "%s puts the handle of a host value on `%s` but builds the payload with a plain clone(), which keeps the source's allocator: a value promoted out of a frame region keeps its program, arguments, environment and captured output on the frame, where the next reset recycles them" % (short, home))
            elif not other:
                ctx.ok("host-colocation|%s#%d" % (short, ordn + 1), fn.where(c.block), "handle and payload on `%s`" % home)
            else:
                ctx.bad("host-colocation|%s|%s-vs-%s" % (short, home[:16], other[0][:16]), fn.where(c.block), "%s builds a host value whose handle lives on `%s` while its payload is allocated on `%s`: HostHandle::promote looks only at the handle, so the payload is never copied off that arena - a captured output / configured text on the frame behind a persistent handle reads recycled memory after the next frame reset" % (short, home, other[0]))
    ctx.floor("host values built (handle + payload)", nh, 4)


def r5_promotion_complete(ctx):
    vp = ctx.need(PROMOTE)
    ctx.touch(vp)
    from ..tables import entry_discr_switch
    S, si = entry_discr_switch(vp, 1)
    if S is None:
        ctx.bad("promote|no-dispatch", vp.where(), "Value::promote does not dispatch on the value's variant")
        return
    want = {"Str": "arena::cow::ArenaCow::promote", "Host": "process::HostHandle::promote", "Array": PROMOTE}
    for lab, tgt in vp.succ[S]:
        name = si["vars"].get(lab)
        if name is None:
            continue
        region = vp.reach([tgt], removed_nodes=[S])
        callees = {c.callee for c in vp.calls() if c.block in region}
        callees |= {c.callee for k in ctx.lib.closures_of(vp.id) if any(par is vp and b in region for par, b, rv in ctx.lib.closure_sites(k)) for c in k.calls()}
        if name in want:
            if want[name] in callees:
                ctx.ok("promote|%s" % name, vp.where(tgt), "calls %s" % want[name].split("::")[-2:])
            else:
                ctx.bad("promote|%s" % name, vp.where(tgt), "the %s arm of Value::promote no longer calls %s: data of that kind is stored without being copied out of the frame" % (name, want[name]))
            if name == "Array":
                dest = [sh(ne(vp.deep(c.args[1]))) for c in vp.calls() if c.block in region and (c.callee or "").endswith("with_capacity_in")]
                if dest and all("arena(" in d or "pool" in d for d in dest):
                    ctx.ok("promote|Array|target", vp.where(tgt), "new backing store on %s" % dest[0])
                else:
                    ctx.bad("promote|Array|target", vp.where(tgt), "promoted array is not allocated on the persistent arena (%s)" % dest)
    # every deep-copy routine recurses into array items
    for fid in (PROMOTE, "runtime::Value::detach", "runtime::Value::clone_into"):
        g = ctx.lib.fns.get(fid)
        if g is None:
            if fid.endswith("detach"):
                ctx.bad("copy-routine|missing|detach", "src/runtime.rs", "Value::detach is gone: returned values are no longer detached from scope-owned storage")
            continue
        ctx.touch(g)
        S2, si2 = entry_discr_switch(g, 1)
        rec = False
        if S2 is not None:
            for lab, tgt in g.succ[S2]:
                if "Array" in label_names(g, S2, [lab], si2):
                    region = g.reach([tgt], removed_nodes=[S2])
                    only = {b for b in region if g.edge_dominated(b, S2, [lab])}
                    arm_closures = [k for k in ctx.lib.closures_of(g.id) if any(par is g and b in only for par, b, rv in ctx.lib.closure_sites(k))]
                    rec = any(c.callee == fid and c.block in only for c in g.calls()) or any(c.callee == fid for k in arm_closures for c in k.calls())
                    # ... and the arm has no way round the item loop: every value it returns is a *new* vector filled
                    # by that loop, never the incoming vector itself (whatever arena that vector lives on, its items
                    # may still borrow storage that is about to be released)
                    short = fid.split("::")[-1]
                    rets = [(b, st) for b in sorted(only) for st in g.blocks[b]["s"] if st["lhs"]["l"] == 0 and not st["lhs"]["p"]]
                    for b, st in rets:
                        rv = st["rv"]
                        if rv["k"] == "agg" and rv["adt"].endswith("Value") and rv["variant"] == "Array":
                            src = sh(ne(g.deep(rv["ops"][0])))
                            if re.match(r"^(with_capacity_in|new_in)\(", src):
                                ctx.ok("copy-routine|%s|array-result-fresh" % short, g.where(b), "returns a new vector (%s)" % src[:40])
                            else:
                                ctx.bad("copy-routine|%s|array-passthrough" % short, g.where(b), "the Array arm of Value::%s can return the incoming vector itself (`%s`) without visiting its items: strings inside it keep borrowing a variable's pool slot or frame memory that is recycled later, so a copy of an array changes when the original is written" % (short, src[:50]))
                        else:
                            ctx.bad("copy-routine|%s|array-passthrough" % short, g.where(b), "the Array arm of Value::%s returns `%s` without visiting the items" % (short, sh(ne(g.deep_rvalue(rv)))[:50]))
                    if not rets:
                        ctx.bad("copy-routine|%s|array-result-missing" % short, g.where(), "cannot see what the Array arm of Value::%s returns" % short)
                    # ... and everything that goes into the new vector comes out of the recursive call: no bulk move of
                    # items (unless the path is guarded by `all(<only heap-free kinds>)`)
                    ADDERS = ("push", "extend", "append", "insert", "extend_from_slice", "extend_from_within", "push_within_capacity", "resize", "resize_with", "from_iter", "collect", "extend_trusted", "spec_extend")
                    for c in g.calls():
                        if c.block not in only:
                            continue
                        last = (c.callee or "").split("::")[-1]
                        if last not in ADDERS or "Vec" not in (c.callee or "") and last not in ("collect", "from_iter", "extend"):
                            continue
                        if last == "push":
                            prod = [(k, d[0] if k == "call" else d) for (bi, k, d) in origins(g, c.args[1], 6)]
                            if prod and all(k == "call" and d == fid for k, d in prod):
                                ctx.ok("copy-routine|%s|items-through-recursion" % short, g.where(c.block), "each pushed item is the result of %s on the source item" % short)
                            else:
                                ctx.bad("copy-routine|%s|item-not-copied" % short, g.where(c.block), "the Array arm of Value::%s pushes an item that did not go through %s (%s): a string inside it keeps borrowing storage that is released" % (short, short, prod[:2]))
                            continue
                        # `extend(iter.map(|item| item.<routine>(..)))` is the item loop in another spelling
                        src_txt = " ".join(sh(ne(g.deep(a))) for a in c.args[1:])
                        mapped = False
                        for k in arm_closures:
                            tag = k.id.split("::")[-1]
                            if ("map(" in src_txt or "filter_map(" in src_txt) and tag in src_txt:
                                rets = [(kk, d[0] if kk == "call" else d) for (bi, kk, d) in origins(k, {"copy": {"l": 0, "p": []}}, 6)]
                                if rets and all(kk == "call" and d == fid for kk, d in rets):
                                    mapped = True
                        if mapped:
                            ctx.ok("copy-routine|%s|items-through-recursion" % short, g.where(c.block), "%s over map(|item| item.%s(..))" % (last, short))
                            continue
                        # bulk transfer: acceptable only under a dominating `all(|item| matches!(item, <heap-free kinds>))`
                        guarded = False
                        for S3, al in g.constraints(c.block):
                            si3 = g.switch_info(S3)
                            if si3["kind"] == "call" and (si3["callee"] or "").split("::")[-1] == "all" and 0 not in al:
                                clos = [k for k in ctx.lib.closures_of(g.id)]
                                for k in clos:
                                    trues = set()
                                    for S4 in sorted(k.live):
                                        if k.blocks[S4]["t"]["k"] == "switch":
                                            si4 = k.switch_info(S4)
                                            if si4["kind"] == "discr" and si4["ty"].endswith("runtime::Value"):
                                                for lab4, t4 in k.succ[S4]:
                                                    sets_true = any(st["lhs"]["l"] == 0 and st["rv"]["k"] == "use" and isinstance(st["rv"]["a"], dict) and st["rv"]["a"].get("int") == 1 for b4 in k.reach([t4], removed_nodes=[S4]) for st in k.blocks[b4]["s"])
                                                    if sets_true:
                                                        trues |= label_names(k, S4, [lab4], si4)
                                    if trues and trues <= HEAPLESS:
                                        guarded = True
                        if guarded:
                            ctx.ok("copy-routine|%s|bulk-heapless" % short, g.where(c.block), "bulk move only when all items are heap-free")
                        else:
                            ctx.bad("copy-routine|%s|bulk-move|%s" % (short, last), g.where(c.block), "the Array arm of Value::%s moves items into the new vector in bulk (`%s`) without a dominating test that *all* of them are heap-free: strings and nested arrays among them keep pointing into the frame / the source variable's slots" % (short, last))
        if rec:
            ctx.ok("copy-routine|%s|recurses-into-arrays" % fid.split("::")[-1], g.where(), "the Array arm calls %s on the items" % fid.split("::")[-1])
        else:
            ctx.bad("copy-routine|%s|array-arm" % fid.split("::")[-1], g.where(), "Value::%s has no Array arm that recurses into the items: strings inside an array keep pointing into storage that is released" % fid.split("::")[-1])
    dt = ctx.lib.fns.get("runtime::Value::detach")
    if dt is not None:
        # the borrowed-string copy is taken when the pool OR the frame contains the pointer
        tests = {(dt.switch_info(S3).get("callee") or "").split("::")[-1] for S3 in dt.live if dt.blocks[S3]["t"]["k"] == "switch" and dt.switch_info(S3)["kind"] == "call"}
        copies = [c for c in dt.calls() if (c.callee or "").endswith("ArenaString::from_str")]
        if {"contains", "contains_ptr"} <= tests and copies:
            # pass-through of a Borrowed string only when both tests failed
            ok = True
            for c in copies:
                r = dt.reach([0], removed_edges=[(S3, lab) for S3 in dt.live if dt.blocks[S3]["t"]["k"] == "switch" and dt.switch_info(S3)["kind"] == "call" for lab, _ in dt.succ[S3] if lab != 0])
                if c.block in r:
                    ok = False
            if ok:
                ctx.ok("detach|borrowed-copy", dt.where(), "copied when pool.contains(ptr) || frame.contains_ptr(ptr)")
            else:
                ctx.bad("detach|borrowed-copy", dt.where(), "detach copies a borrowed string on a path where neither containment test succeeded")
        else:
            ctx.bad("detach|borrowed-tests|%s" % ",".join(sorted(tests)), dt.where(), "detach no longer tests both pool.contains and frame.contains_ptr before letting a borrowed string through (tests: %s)" % sorted(tests))
    # every caller tells the copy routines which arena is the *frame*: the one whose pointers must not survive.  Passing any
    # other arena (the persistent one has the same type) makes "does the frame contain this pointer" answer for the wrong
    # arena, and strings that merely borrow frame memory are stored as they are.
    ncall = 0
    for fn in runtime_bodies(ctx):
        for c in fn.calls():
            if c.callee in (PROMOTE, "runtime::Value::detach", "arena::cow::ArenaCow::promote", "process::HostHandle::promote") and len(c.args) >= 3:
                pid = parent_fn(fn.id)
                if pid in (PROMOTE, "runtime::Value::detach"):
                    want = ("frame",)
                else:
                    want = ("self.frame", "frame")
                ncall += 1
                got = sh(ne(fn.deep(c.args[2]))).lstrip("&")
                if "{closure" in fn.id:
                    got = ctx.lib.captured_text(fn, got).lstrip("&*")
                short = pid.split("::")[-1]
                ordn = sum(1 for r in ctx.records if r["rule"] == ctx.rule and r["instance"].startswith("frame-argument|%s#" % short))
                if got in want:
                    ctx.ok("frame-argument|%s#%d" % (short, ordn + 1), fn.where(c.block), "%s(.., %s)" % (c.callee.split("::")[-1], got))
                else:
                    ctx.bad("frame-argument|%s|%s" % (short, got[:20]), fn.where(c.block), "%s calls %s with `%s` where the frame arena belongs: the routine then tests containment in the wrong arena, so a string that only borrows frame memory is stored uncopied and changes when the frame is reused" % (short, c.callee.split("::")[-1], got))
    ctx.floor("calls of the copy routines from the runtime", ncall, 8)
    host_colocation(ctx)
    cp = ctx.need("arena::cow::ArenaCow::promote")
    ctx.touch(cp)
    # pass-through aggregates
    sw = {}
    weak = {}
    for S2 in sorted(cp.live):
        if cp.blocks[S2]["t"]["k"] == "switch":
            si2 = cp.switch_info(S2)
            if si2["kind"] == "call":
                sw[S2] = (si2["callee"] or "").split("::")[-1]
                if si2.get("threaded"):
                    # `a && f(x)`: the outcome the short-circuit constant also produces says nothing about f(x)
                    weak[S2] = si2.get("weak_label")
    for b in sorted(cp.live):
        for s in cp.blocks[b]["s"]:
            rv = s["rv"]
            if rv["k"] == "agg" and rv["adt"].endswith("ArenaCow") and s["lhs"]["l"] == 0:
                src = [k for (bi, k, d) in origins(cp, rv["ops"][0], 6)]
                prod = [d[0] for (bi, k, d) in origins(cp, rv["ops"][0], 6) if k == "call"]
                if any(p.endswith("alloc_str") for p in prod):
                    continue  # a fresh pooled copy
                guards = {sw[S2]: al for S2, al in cp.constraints(b) if S2 in sw and not (S2 in weak and list(al) == [weak[S2]])}
                if rv["variant"] == "Borrowed" and not (guards.get("contains_ptr") == [0] and guards.get("contains") == [0]):
                    # the disjunction may have been given a name (`let transient = a || b; if !transient {..}`): the named
                    # flag is false only through the definition on the path where `a` was false and that copies b's result
                    for S2, al in cp.constraints(b):
                        t2 = cp.blocks[S2]["t"]
                        pl2 = (t2["d"].get("copy") or t2["d"].get("move")) if isinstance(t2["d"], dict) else None
                        if pl2 is None or pl2["p"] or list(al) != [0] or cp.locals[pl2["l"]]["ty"].strip() != "bool":
                            continue
                        root = pl2["l"]
                        for _ in range(3):      # through plain copies of the flag
                            dd = cp.whole_defs(root)
                            if len(dd) == 1 and dd[0][1] != "t" and dd[0][2]["rv"]["k"] == "use" and isinstance(dd[0][2]["rv"]["a"], dict) and (dd[0][2]["rv"]["a"].get("copy") or dd[0][2]["rv"]["a"].get("move")) and not (dd[0][2]["rv"]["a"].get("copy") or dd[0][2]["rv"]["a"].get("move"))["p"]:
                                root = (dd[0][2]["rv"]["a"].get("copy") or dd[0][2]["rv"]["a"].get("move"))["l"]
                            else:
                                break
                        if S2 in sw and len(cp.whole_defs(root)) < 2:
                            continue        # a plain call result: already among the guards
                        g2 = dict(guards)
                        falsifiable = True
                        for (bd, kd, std) in cp.whole_defs(root):
                            if kd == "t":
                                cal = (std.get("res") or std.get("callee") or "")
                                g2[str(cal).split("::")[-1].split(">")[0]] = [0]
                                g2.update({sw[S3]: al3 for S3, al3 in cp.constraints(bd) if S3 in sw})
                                continue
                            a_ = std["rv"].get("a") if std["rv"]["k"] == "use" else None
                            if isinstance(a_, dict) and a_.get("int") == 1:
                                continue        # this definition makes the flag true: not on a path to the false outcome
                            if isinstance(a_, dict) and a_.get("int") == 0:
                                falsifiable = False
                                continue
                            src_pl = (a_.get("copy") or a_.get("move")) if isinstance(a_, dict) else None
                            if src_pl is not None and not src_pl["p"]:
                                for (b3, k3, st3) in cp.whole_defs(src_pl["l"]):
                                    if k3 == "t":
                                        g2[str(st3.get("res") or st3.get("callee") or "").split("::")[-1]] = [0]
                                g2.update({sw[S3]: al3 for S3, al3 in cp.constraints(bd) if S3 in sw})
                            else:
                                falsifiable = False
                        if falsifiable:
                            guards = g2
                if rv["variant"] == "Borrowed":
                    ok = guards.get("contains_ptr") == [0] and guards.get("contains") == [0]
                    if ok:
                        ctx.ok("cow|Borrowed-passthrough", cp.where(b), "only when neither the frame nor the pool contains the pointer")
                    else:
                        ctx.bad("cow|Borrowed-passthrough", cp.where(b), "a borrowed string is passed through promotion without both `!frame.contains_ptr` and `!pool.contains` (guards seen: %s)" % guards)
                elif rv["variant"] == "Owned":
                    ok = any(k == "eq" and 0 not in al for k, al in guards.items())
                    if ok:
                        ctx.ok("cow|Owned-passthrough", cp.where(b), "only when the string already lives on the persistent arena")
                    else:
                        ctx.bad("cow|Owned-passthrough", cp.where(b), "an owned string is passed through promotion without the `arena == persistent` test")
    hp = ctx.need("process::HostHandle::promote")
    ctx.touch(hp)
    found = False
    for b in sorted(hp.live):
        for s in hp.blocks[b]["s"]:
            if s["lhs"]["l"] == 0 and not s["lhs"]["p"] and s["rv"]["k"] == "use":
                o = [k for (bi, k, d) in origins(hp, s["rv"]["a"], 4)]
                if "arg" in o:
                    found = True
                    g = [(hp.switch_info(S2).get("callee") or "", al) for S2, al in hp.constraints(b)]
                    if any(c.endswith("contains_ptr") and al == [0] for c, al in g):
                        ctx.ok("host|passthrough", hp.where(b), "only when the handle is not on the frame")
                    else:
                        ctx.bad("host|passthrough", hp.where(b), "HostHandle::promote returns the handle unchanged without `!frame.contains_ptr`")
    if not found:
        ctx.note("HostHandle::promote has no pass-through path")


# ---------------------------------------------------------------------------------------------------------------------
# R6: no possibly-borrowed value is held across a call that can recycle storage
RECYCLERS = {FREE, "arena::pool::PoolSet::dealloc"}
OWNING = DETACH_OK | {"runtime::Value::clone_into_owned"}


def may_recycle_set(ctx):
    """Functions from which a pool slot can be returned (transitively): running any of them may free the slot a borrowed
    string points into."""
    cg = ctx.lib.callgraph()
    nodes = {parent_fn(k) for k in ctx.lib.fns}
    adj = {}
    for src, d in cg.items():
        for cal in d:
            if parent_fn(cal) in nodes:
                adj.setdefault(parent_fn(src), set()).add(parent_fn(cal))
    radj = {}
    for a, bs in adj.items():
        for b in bs:
            radj.setdefault(b, set()).add(a)
    out, st = set(), [x for x in RECYCLERS if x in nodes]
    while st:
        x = st.pop()
        if x in out:
            continue
        out.add(x)
        st.extend(radj.get(x, ()))
    return out


def _carrier(ty):
    t = ty.replace("'_ ", "").replace("'a ", "")
    if t.startswith("&mut") or t.startswith("*"):
        return None
    if "runtime::Value" in t:
        return "vec" if ("Vec<" in t and not t.startswith("&")) else ("ref" if t.startswith("&") else "value")
    if t.startswith("&") and "ArenaCow" in t:
        return "ref"
    if "ArenaCow" in t:
        return "value"
    return None


EVAL_EXPR = "runtime::Runtime::eval_expr"
CODE_BEARING = ("parser::Expr", "parser::ArgList", "parser::Block", "parser::Stmt")
_ITER_THROUGH = ("::iter", "::into_iter", "Deref>::deref", "::as_slice", "::iter_mut", "IntoIterator>::into_iter", "::as_ref")


def subject(fn, e):
    """Path of an expression node reached from a parameter or a local: (root, (segment, ...)).  References, derefs and
    iterator adaptors are transparent; one step of an iterator is the segment `[*]`, a constant index `[k]`."""
    k = e[0] if isinstance(e, tuple) else None
    if k in ("ref", "deref"):
        return subject(fn, e[1])
    if k == "var":
        return (("arg", e[2]) if 0 < e[2] <= fn.argc else ("local", e[2]), ())
    if k == "arg":
        return (("arg", e[1]), ())
    if k == "field":
        inner = e[1]
        if isinstance(inner, tuple) and inner[0] == "as" and inner[2] == "Some" and isinstance(inner[1], tuple) and inner[1][0] == "call" and inner[1][1].endswith("Iterator>::next") and str(e[2]) == "0":
            r, segs = subject(fn, inner[1][2][0])
            return (r, segs + ("[*]",))
        r, segs = subject(fn, inner)
        return (r, segs + ("." + str(e[2]),))
    if k == "as":
        r, segs = subject(fn, e[1])
        return (r, segs + (" as " + str(e[2]),))
    if k == "index":
        r, segs = subject(fn, e[1])
        ix = e[2]
        return (r, segs + ("[%s]" % (ix[2] if isinstance(ix, tuple) and ix[0] == "const" and len(ix) > 2 and ix[2] is not None else "?"),))
    if k == "call":
        if any(e[1].endswith(x) for x in _ITER_THROUGH) and e[2]:
            return subject(fn, e[2][0])
        return (("call", e[1], e[3] if len(e) > 3 else None), ())
    return (("other", show(e) if isinstance(e, tuple) else str(e)), ())


def _subj_text(fn, sub):
    root, segs = sub
    if root[0] == "arg":
        base = fn.locals[root[1]]["name"] or "arg%d" % root[1]
    elif root[0] == "local":
        base = fn.locals[root[1]]["name"] or "_%d" % root[1]
    elif root[0] == "call":
        base = root[1].split("::")[-1] + "()"
    else:
        base = str(root[1])
    return base + "".join(segs)


def covers(g, x):
    """Does guard subject g cover evaluated subject x: same root, g's path a prefix of x's, `[*]` standing for any element."""
    if g is None or x is None or g[0] != x[0] or len(g[1]) > len(x[1]):
        return False
    for a, b in zip(g[1], x[1]):
        if a == b or (a == "[*]" and b.startswith("[") and b != "[?]"):
            continue
        return False
    return True


def quiet_predicates(ctx):
    """Functions (expression) -> bool whose `false` answer means: evaluating that expression cannot return a pool slot.
    Sound when, for every expression kind on which the function answers false, the arm of eval_expr for that kind makes no
    call from which a slot can be returned.  -> {fid: (sound, [why...], {quiet kinds})}"""
    from ..tables import mir_enum_table
    memo = getattr(ctx, "_quiet_predicates", None)
    if memo is not None:
        return memo
    R = may_recycle_set(ctx)
    ev = ctx.lib.fns.get(EVAL_EXPR)
    out = {}
    for fn in ctx.lib.fns.values():
        if fn.file != "src/runtime.rs" or fn.argc != 1 or fn.locals[0]["ty"] != "bool" or "parser::Expr" not in fn.locals[1]["ty"]:
            continue
        tab = mir_enum_table(fn, 1)
        if not tab or ev is None:
            continue
        quiet = {v for v, res in tab.items() if [str(r) for r in res] != ["true"]}
        why = []
        arms = set()
        for v in tab:
            arms |= _dispatch_arm(ev, "parser::Expr", v) or set()
        for c in ev.calls():
            if c.block not in arms and c.block in ev.live and c.callee and parent_fn(c.callee) in R:
                why.append("eval_expr calls %s on the path every kind takes" % parent_fn(c.callee).split("::")[-1])
        for v in sorted(quiet):
            reg = _dispatch_arm(ev, "parser::Expr", v)
            if reg is None:
                why.append("%s: eval_expr has no arm of its own" % v)
                continue
            for c in ev.calls():
                if c.block in reg and c.callee and parent_fn(c.callee) in R:
                    why.append("%s: its arm calls %s, which can return a pool slot" % (v, parent_fn(c.callee).split("::")[-1]))
        out[fn.id] = (not why, why, quiet)
    try:
        ctx._quiet_predicates = out
    except Exception:
        pass
    return out


def _dispatch_arm(fn, enum_suffix, variant):
    for S in sorted(fn.live):
        if fn.blocks[S]["t"]["k"] != "switch":
            continue
        si = fn.switch_info(S)
        if si["kind"] == "discr" and si["ty"].endswith(enum_suffix):
            for lab, tgt in fn.succ[S]:
                if label_names(fn, S, [lab], si) == {variant}:
                    return {x for x in fn.reach([tgt], removed_nodes=[S]) if fn.edge_dominated(x, S, [lab])} | {tgt}
            return None
    return None


def quiet_edges(ctx, fn):
    """[(switch, label, guard subject)]: edges taken only when a sound quiet predicate answered false for the subject (or for
    every element of it)."""
    memo = fn.__dict__.setdefault("_quiet_edges", None)
    if memo is not None:
        return memo
    qpall = quiet_predicates(ctx)
    qp = set(qpall)
    out = []
    for S in sorted(fn.live):
        t = fn.blocks[S]["t"]
        if t["k"] != "switch":
            continue
        e = fn.deep(t["d"], 18)
        flip = False
        while isinstance(e, tuple) and e[0] == "un" and e[1] == "Not":
            flip = not flip
            e = e[2]
        if not (isinstance(e, tuple) and e[0] == "call"):
            continue
        g = None
        used = None
        if e[1] in qp and e[2]:
            g = subject(fn, e[2][0])
            used = e[1]
        elif e[1].endswith("Iterator>::any") and len(e[2]) == 2 and isinstance(e[2][1], tuple) and e[2][1][0] == "agg" and str(e[2][1][1]).startswith("closure:"):
            clo = ctx.lib.fns.get(str(e[2][1][1])[len("closure:"):])
            if clo is not None and any(c.callee in qp for c in clo.calls()) and not any(c.callee and c.callee not in qp and parent_fn(c.callee).startswith("runtime::") for c in clo.calls()):
                r, segs = subject(fn, e[2][0])
                g = (r, segs + ("[*]",))
                used = [c.callee for c in clo.calls() if c.callee in qp][0]
        if g is None and e[2] and e[1] in ctx.lib.fns:
            # a helper that asks the predicate of every element of the list it is given
            # (`fn any_may_run_code(exprs) -> bool { exprs.iter().any(|e| may_run_code(e)) }`)
            h = ctx.lib.fns[e[1]]
            if h.file == "src/runtime.rs" and h.locals[0]["ty"] == "bool" and "{closure" not in h.id:
                anys = [c for c in h.calls() if (c.callee or "").endswith("Iterator>::any")]
                rets = origins(h, {"copy": {"l": 0, "p": []}}, 6)
                if len(anys) == 1 and all(k == "call" and det[0].endswith("Iterator>::any") for (_b, k, det) in rets):
                    he = h.deep(anys[0].args[0], 12)
                    hr, hsegs = subject(h, he)
                    cl = anys[0].args[1] if len(anys[0].args) > 1 else None
                    cty = h.locals[(cl.get("move") or cl.get("copy"))["l"]]["ty"] if isinstance(cl, dict) and (cl.get("move") or cl.get("copy")) else ""
                    mclo = re.search(r"\{closure#\d+\}", cty)
                    clo = ctx.lib.fns.get("%s::%s" % (h.id, mclo.group(0))) if mclo else None
                    if clo is None:
                        clos = list(ctx.lib.closures_of(h.id))
                        clo = clos[0] if len(clos) == 1 else None
                    if hr[0] == "arg" and not hsegs and clo is not None and any(c.callee in qp for c in clo.calls()) and not any(c.callee and c.callee not in qp and parent_fn(c.callee).startswith("runtime::") for c in clo.calls()):
                        ai = hr[1] - 1
                        if ai < len(e[2]):
                            r, segs = subject(fn, e[2][ai])
                            g = (r, segs + ("[*]",))
                            used = [c.callee for c in clo.calls() if c.callee in qp][0]
        if g is None:
            continue
        out.append((S, "else" if flip else 0, g, used))
    fn.__dict__["_quiet_edges"] = out
    return out


def evaluated_subjects(ctx, fn, call, R, depth=0):
    """The expressions whose evaluation is all the code `call` can run, as subjects in fn's terms; None when the callee can
    return a pool slot in any other way (a statement block, a direct release, ...)."""
    cal = parent_fn(call.callee or "")
    if cal == EVAL_EXPR:
        return [subject(fn, fn.deep(call.args[1], 18))] if len(call.args) > 1 else None
    if cal in RECYCLERS or depth > 3:
        return None
    callee = ctx.lib.fns.get(cal)
    if callee is None:
        return None
    out = []
    for body in [callee] + list(ctx.lib.closures_of(callee.id)):
        for c2 in body.calls():
            if not (c2.callee and parent_fn(c2.callee) in R):
                continue
            if body is not callee:
                return None
            subs = evaluated_subjects(ctx, callee, c2, R, depth + 1)
            if subs is None:
                return None
            for (root, segs) in subs:
                if root[0] != "arg" or root[1] - 1 >= len(call.args):
                    return None
                r0, s0 = subject(fn, fn.deep(call.args[root[1] - 1], 18))
                out.append((r0, s0 + segs))
    return out


def owning_wrappers(ctx):
    """Functions of the runtime whose every returned value comes from a producer that hands out storage of its own."""
    memo = getattr(ctx, "_owning_wrappers", None)
    if memo is not None:
        return memo
    own = set(OWNING)
    for _ in range(3):
        for fn in ctx.lib.fns.values():
            if fn.id in own or fn.file != "src/runtime.rs" or "runtime::Value" not in fn.locals[0]["ty"] or fn.locals[0]["ty"].startswith("&"):
                continue
            orgs = origins(fn, {"copy": {"l": 0, "p": []}}, 8)
            if orgs and all(k == "call" and det[0] in own for (_, k, det) in orgs):
                own.add(fn.id)
    try:
        ctx._owning_wrappers = own
    except Exception:
        pass
    return own


def _owned_operand(fn, operand, depth=0, ctx=None, quiet_for=None):
    """Every producer of the operand hands out storage of its own (detach / promote / alloc_str), or no heap data at all.
    With `quiet_for` (the expressions that are all the crossing call evaluates): a producer is also accepted on a path taken
    only when a sound quiet predicate said those expressions cannot run code."""
    why = []
    hf = frame_switches(fn)
    owning = owning_wrappers(ctx) if ctx is not None else OWNING
    qe = quiet_edges(ctx, fn) if (ctx is not None and quiet_for) else []
    for (bi, k, det) in origins(fn, operand, 8):
        if k == "const":
            continue
        if k == "call" and det[0] in owning:
            continue
        if bi is not None and any(no_frame_edge_dominates(fn, b, hf) for b in chain_blocks(bi)):
            continue    # the configuration without a frame arena is the reference the property compares with
        if bi is not None and qe:
            qpall = quiet_predicates(ctx)
            sound = [q for q in qe if qpall[q[3]][0]]
            if all(any(fn.edge_dominated(b, S, [lab]) and covers(g, x) for (S, lab, g, _) in sound for b in chain_blocks(bi)) for x in quiet_for):
                continue    # raw only when nothing evaluated while it is held can run code
            for (S, lab, g, used) in qe:
                if not qpall[used][0] and any(fn.edge_dominated(b, S, [lab]) for b in chain_blocks(bi)):
                    why.append("guard %s answers `cannot run code` for a kind that can (%s)" % (used.split("::")[-1], "; ".join(qpall[used][1][:2])))
                elif any(fn.edge_dominated(b, S, [lab]) for b in chain_blocks(bi)) and not all(covers(g, x) for x in quiet_for):
                    why.append("the guard at bb%d tests %s, but what runs while the value is kept is %s" % (S, _subj_text(fn, g), ", ".join(_subj_text(fn, x) for x in quiet_for if not covers(g, x))))
        if k == "agg" and det[0] == "runtime::Value" and det[1] in HEAPLESS:
            continue
        if k == "agg" and det[0] == "runtime::Value" and det[1] in ("Str", "Array", "Host") and depth < 3:
            if all(_owned_operand(fn, o, depth + 1, ctx, quiet_for)[0] for o in det[2]):
                continue
        if k == "agg" and det[0].endswith("ArenaCow") and det[1] == "Owned":
            continue
        if k == "call" and (det[0].endswith("::branch") or det[0].endswith("::from_residual")) and depth < 4:
            # `?` on a Result: look through to what was tried
            if all(_owned_operand(fn, a, depth + 1, ctx, quiet_for)[0] for a in det[1].get("args", [])):
                continue
        why.append("%s:%s" % (k, (det[0] if k in ("call", "agg") else det)))
    return (not why, why)


def _uses_are_heap_free(fn, l, from_blocks, depth=0):
    """After the call, the local is only asked for its kind or read as a heap-free variant (Number / Bool / Null), possibly
    after being moved into a tuple that is matched the same way."""
    region = fn.reach(from_blocks)
    for b in sorted(region):
        blk = fn.blocks[b]
        for st in blk["s"]:
            rv = st["rv"]
            places = []
            for key in ("a", "b"):
                if key in rv and isinstance(rv[key], dict):
                    pl = rv[key].get("move") or rv[key].get("copy")
                    if pl is not None:
                        places.append((pl, rv["k"]))
            if isinstance(rv.get("of"), dict):
                places.append((rv["of"], rv["k"]))
            for o in rv.get("ops", []):
                if isinstance(o, dict):
                    pl = o.get("move") or o.get("copy")
                    if pl is not None:
                        places.append((pl, "agg:" + str(rv.get("adt"))))
            for pl, how in places:
                if pl["l"] != l:
                    continue
                if how == "discr":
                    continue
                if any(isinstance(e, dict) and e.get("as") in HEAPLESS for e in pl["p"]):
                    continue
                whole = not pl["p"] or all(isinstance(e, dict) and "f" in e and str(e["f"]).isdigit() for e in pl["p"]) and False
                if not pl["p"] and (how == "use" or how.startswith("agg:") and "tuple" in how) and depth < 2 and not st["lhs"]["p"]:
                    if _uses_are_heap_free(fn, st["lhs"]["l"], [b], depth + 1):
                        continue
                return False
        t = blk["t"]
        ops = list(t.get("args", [])) + ([t["d"]] if "d" in t else []) + list(t.get("ops", []))
        for o in ops:
            if isinstance(o, dict):
                pl = o.get("move") or o.get("copy")
                if pl is not None and pl["l"] == l:
                    if t["k"] == "switch":
                        continue
                    return False
    return True


def r6_nothing_borrowed_is_held_across_recycling(ctx):
    from ..live import liveness, live_across_call
    from ..tables import mir_enum_table
    R = may_recycle_set(ctx)
    n = 0
    # the one vector that provably holds nothing while its (single) element is evaluated
    ar = ctx.lib.fns.get("<builtins::GlobalBuiltin as builtins::Builtin>::arity")
    max_arity = None
    if ar is not None:
        tab = mir_enum_table(ar, 1)
        try:
            max_arity = max(int(re.sub(r"\D", "", str(v[0])) or 99) for v in tab.values()) if tab else None
        except Exception:
            max_arity = None
    for fn in [f for f in ctx.lib.fns.values() if f.file == "src/runtime.rs" or f.file.startswith("src/builtins/")]:
        pid = parent_fn(fn.id)
        if pid in ("runtime::Runtime::relocate_return_value",):
            continue    # audited under R4 (staging copy before the reset)
        calls = [c for c in fn.calls() if c.callee and parent_fn(c.callee) in R]
        if not calls:
            continue
        ctx.touch(fn)
        _, live_out = liveness(fn)
        for c in calls:
            moved = set()
            for a in c.args:
                pl = a.get("move") if isinstance(a, dict) else None
                if pl is not None and not pl["p"]:
                    moved.add(pl["l"])
            held = sorted(l for l in live_across_call(fn, c.block, live_out) if l > 0 and l not in moved and _carrier(fn.locals[l]["ty"]))
            for l in held:
                kind = _carrier(fn.locals[l]["ty"])
                name = fn.locals[l]["name"] or "_%d" % l
                n += 1
                short = pid.split("::")[-1]
                callee = parent_fn(c.callee).split("::")[-1]
                base = "held|%s|%s|across:%s" % (short, name, callee)
                ordn = sum(1 for r in ctx.records if r["rule"] == ctx.rule and r["instance"].split("#")[0] == base)
                key = "%s#%d" % (base, ordn + 1)
                ok, why = False, []
                subs = evaluated_subjects(ctx, fn, c, R)
                if kind == "value":
                    ok, why = _owned_operand(fn, {"copy": {"l": l, "p": []}}, 0, ctx, subs)
                    if not ok and c.target is not None and _uses_are_heap_free(fn, l, [c.target]):
                        ctx.ok(key + "|heap-free-use", fn.where(c.block), "`%s` is only asked for its kind / read as a number after %s returns" % (name, callee))
                        continue
                elif kind == "vec":
                    pushes = [p for p in fn.calls() if (p.callee or "").endswith("Vec::push") and sh(ne(fn.expr(p.args[0], 3))).lstrip("&").replace("mut ", "") in (name, "&mut " + name)]
                    pushes = pushes or [p for p in fn.calls() if (p.callee or "").endswith("Vec::push") and name in sh(ne(fn.expr(p.args[0], 3)))]
                    if pid == "runtime::Runtime::eval_builtin_call" and max_arity is not None and max_arity <= 1:
                        ok, why = True, []
                        ctx.ok(key + "|arity<=1", fn.where(c.block), "every global built-in takes at most one argument (arity table), and the resolver rejects other counts: the vector is empty while that argument is evaluated")
                        continue
                    res = [_owned_operand(fn, p.args[1], 0, ctx, subs) for p in pushes]
                    ok = all(r[0] for r in res)
                    why = [w for r in res for w in r[1]]
                elif kind == "ref":
                    if 0 < l <= fn.argc:
                        sites = ctx.lib.callers_of(fn.id)
                        res = []
                        for cs in sites:
                            a = cs.args[l - 1] if l - 1 < len(cs.args) else None
                            tgt = None
                            if isinstance(a, dict):
                                pl = a.get("move") or a.get("copy")
                                if pl is not None and not pl["p"]:
                                    work, seen_refs = [pl["l"]], set()
                                    while work:
                                        rl = work.pop()
                                        if rl in seen_refs:
                                            continue
                                        seen_refs.add(rl)
                                        for (bi, k, st) in cs.fn.whole_defs(rl):
                                            if k == "t" or st["rv"]["k"] != "ref":
                                                continue
                                            of = st["rv"]["of"]
                                            if not of["p"]:
                                                tgt = of["l"]
                                            elif of["p"] == ["*"] and cs.fn.locals[of["l"]]["ty"].startswith("&"):
                                                work.append(of["l"])    # a reborrow: follow the reference it renews
                                            elif all(isinstance(e, dict) and ("as" in e or "f" in e) for e in of["p"]):
                                                tgt = of["l"]           # a part of a value the caller holds: the whole value must own its storage
                                            else:
                                                res.append((False, ["place:" + cs.fn.place_str(of)]))
                            if tgt is not None:
                                csubs = None
                                if subs is not None:
                                    csubs = []
                                    for (root, segs) in subs:
                                        if root[0] != "arg" or root[1] - 1 >= len(cs.args):
                                            csubs = None
                                            break
                                        r0, s0 = subject(cs.fn, cs.fn.deep(cs.args[root[1] - 1], 18))
                                        csubs.append((r0, s0 + segs))
                                res.append(_owned_operand(cs.fn, {"copy": {"l": tgt, "p": []}}, 0, ctx, csubs))
                            elif not res:
                                res.append((False, ["unknown-argument"]))
                        ok = bool(res) and all(r[0] for r in res)
                        why = [w for r in res for w in r[1]]
                    else:
                        ok, why = False, ["reference of unknown origin"]
                if ok:
                    ctx.ok(key, fn.where(c.block), "`%s` owns its storage while %s runs" % (name, callee))
                else:
                    ctx.bad(key, fn.where(c.block),
                            "`%s` (%s) is kept while %s runs and used afterwards, but it may hold strings that only borrow a variable's pool slot (producers: %s). %s can execute an assignment to that variable, which returns the slot to the pool: the kept value then reads recycled storage (wrong text; poison bytes or an abort in debug builds)" % (
                                name, fn.locals[l]["ty"][:40], callee, sorted(set(why))[:3], callee))
    ctx.floor("values held across calls that can recycle storage", n, 10)


VEC_GROWERS = {"push", "insert", "extend", "extend_from_slice", "append", "resize", "reserve", "push_mut", "extend_from_within"}
PERSISTENT_RE = re.compile(r"\bself\.arena\b|\barena\(&?\*?self\.pool\)")


def _strip_refs(t):
    return re.sub(r"[&*\s]|\bmut\b", "", t)


def _array_label_routes(fn, block, through_callees):
    """For the parameter slot built in `block`: does every path on which the argument is an Array pass a call to one of
    `through_callees` before the slot is built?  -> True / False / None (no dispatch on the argument's kind found)."""
    gates = {c.block for c in fn.calls() if (c.callee or "") in through_callees}
    vs = None
    for S in sorted(fn.live):
        if fn.blocks[S]["t"]["k"] != "switch" or not fn.dominates(S, block) or fn.dominates(block, S):
            continue
        si = fn.switch_info(S)
        if si["kind"] == "discr" and si["ty"].endswith("runtime::Value") and block in fn.reach_from_succ(S):
            vs = (S, si)
    if vs is None:
        return None
    S, si = vs
    for lab, tgt in fn.succ[S]:
        if "Array" in label_names(fn, S, [lab], si) and block in fn.reach([tgt], removed_nodes=gates - {block}):
            return False
    return True


def r7_slot_arrays_never_grow_on_the_frame(ctx):
    """A loop body inside a function runs between a frame mark and a frame reset.  Storage that has to survive the iteration
    must not be allocated in between: an array that a variable slot owns and that *grows* during the iteration (push) gets
    its new buffer from its own allocator - if that is the frame arena the buffer is gone at the end of the iteration while
    the slot still points at it.  So at every call that can grow a script array reached through a slot, the array's allocator
    is the persistent arena: either every slot is built from a promoted value (parameters included), or the growth site is
    reached only behind `ptr::eq(array.allocator(), <persistent>)` / a re-homing store of a vector built on the persistent
    arena."""
    # (B) are all parameter arrays persistent from the start?
    fc = ctx.need("runtime::Runtime::eval_function_call")
    all_promoted = None
    for b in sorted(fc.live):
        for st in fc.blocks[b]["s"]:
            rv = st["rv"]
            if rv["k"] == "agg" and rv["adt"].endswith("LocalSlot") and len(rv["ops"]) >= 3:
                r = _array_label_routes(fc, b, {PROMOTE})
                all_promoted = bool(r) if all_promoted is None else (all_promoted and bool(r))
    n = 0
    seen = {}
    for fn in runtime_bodies(ctx):
        for c in fn.calls():
            cal = c.callee or ""
            short = cal.split("::")[-1]
            if not (cal == "builtins::array::ArrayBuiltin::push" or (cal.startswith("std::vec::Vec::") and short in VEC_GROWERS)):
                continue
            if not c.args:
                continue
            a0 = c.args[0]
            pl = (a0.get("move") or a0.get("copy")) if isinstance(a0, dict) else None
            if pl is None or "Vec<runtime::Value" not in fn.locals[pl["l"]]["ty"].replace("std::vec::", "").replace("alloc::vec::", ""):
                continue
            # whose vector is it?  an owned local of this body is a temporary under construction, not a slot's array
            root = None
            e = fn.deep(a0)
            through_ref = False
            while True:
                if e[0] in ("ref", "deref", "field", "as", "cast"):
                    through_ref = through_ref or e[0] == "deref"
                    e = e[1]
                elif e[0] == "call" and e[1].endswith("::branch") and e[2]:
                    e = e[2][0]
                else:
                    break
            if e[0] == "call":
                if not through_ref:
                    continue        # a vector this body has just built (`Vec::with_capacity_in(..)`), not one reached by reference
                root = ("call", e[3] if len(e) > 3 else None, e[1])
            elif e[0] == "var":
                l = e[2] if len(e) > 2 else None
                ty = fn.locals[l]["ty"] if l is not None else ""
                if not ty.lstrip().startswith("&"):
                    continue        # `let mut v = Vec::...; v.push(..)`: a temporary under construction, not a slot's array
                if "Vec<" not in ty:
                    continue        # a vector that is a field of the interpreter itself (self.output), not one reached through a slot
                root = ("arg", 0, e[1])
            if root is None:
                continue
            n += 1
            ctx.touch(fn)
            ord_ = seen[(fn.id, short)] = seen.get((fn.id, short), 0) + 1
            key = "grow|%s|%s#%d" % (parent_fn(fn.id).split("::")[-1], short, ord_)
            if all_promoted:
                ctx.ok(key, fn.where(c.block), "every slot, parameters included, is built from a promoted value: slot arrays live on the persistent arena")
                continue
            recv = _strip_refs(sh(ne(fn.deep(a0))))
            gen_nodes, gen_edges = set(), set()
            for S in sorted(fn.live):
                t = fn.blocks[S]["t"]
                if t["k"] != "switch":
                    continue
                si = fn.switch_info(S)
                neg = False
                if si["kind"] == "un" and si.get("op") == "Not":
                    inner = fn.deep(si["a"])
                    txt = sh(ne(inner))
                    neg = True
                elif si["kind"] == "call" and (si["callee"] or "").endswith("ptr::eq"):
                    txt = sh(ne(fn.deep(t["d"])))
                else:
                    continue
                if "eq(" not in txt or "allocator(" not in txt or not PERSISTENT_RE.search(txt):
                    continue
                m = re.search(r"allocator\(([^()]*(?:\([^()]*\))*[^()]*)\)", txt)
                if m and recv and _strip_refs(m.group(1)) != recv and recv not in _strip_refs(txt):
                    continue
                for lab, _j in fn.succ[S]:
                    is_true = (lab != 0)
                    if is_true != neg:
                        gen_edges.add((S, lab))
            for b in sorted(fn.live):
                for st in fn.blocks[b]["s"]:
                    lhs = st["lhs"]
                    if lhs["p"] == ["*"] and "Vec<runtime::Value" in fn.locals[lhs["l"]]["ty"].replace("std::vec::", "").replace("alloc::vec::", "") and st["rv"]["k"] == "use":
                        txt = sh(ne(fn.deep(st["rv"]["a"])))
                        if (re.search(r"(with_capacity_in|new_in)\(", txt) and PERSISTENT_RE.search(txt) and "self.frame" not in txt) or "promote(" in txt:
                            gen_nodes.add(b)
            start = fn.blocks[root[1]]["t"].get("target") if root[0] == "call" and root[1] is not None else 0
            starts = [start] if start is not None else [0]
            if c.block in fn.reach(starts, removed_nodes=gen_nodes, removed_edges=gen_edges):
                ctx.bad(key, fn.where(c.block),
                        "%s grows a script array reached through a variable slot, and nothing on the way establishes that the array lives on the persistent arena (parameter arrays are bound on the frame): inside a loop body of a function the new buffer lies above the mark the iteration resets to, so after the iteration the parameter points at recycled frame memory (`do f(p) start jasi (..) start p.push(..) end end`: abort in debug builds, garbage otherwise)" % short)
            else:
                ctx.ok(key, fn.where(c.block), "reached only with the array on the persistent arena (allocator test / re-homing store on every path)")
    ctx.floor("growth sites of slot-owned script arrays", n, 1)


def _rehoming_gens(ctx, fn, recv_words, store_type_word, depth=0):
    """Edges / nodes of fn after which the container named by `recv_words` is known to live on the persistent arena: the true
    side of `ptr::eq(<recv>.allocator(), <persistent>)`, a store `*recv = <built on / cloned into persistent>`, or a call of a
    runtime helper that itself establishes it on all its paths (one level)."""
    gen_nodes, gen_edges = set(), set()
    for S in sorted(fn.live):
        t = fn.blocks[S]["t"]
        if t["k"] != "switch":
            continue
        si = fn.switch_info(S)
        neg = False
        if si["kind"] == "un" and si.get("op") == "Not":
            txt = sh(ne(fn.deep(si["a"])))
            neg = True
        elif si["kind"] == "call" and (si["callee"] or "").endswith("ptr::eq"):
            txt = sh(ne(fn.deep(t["d"])))
        else:
            continue
        if "eq(" not in txt or "allocator(" not in txt or not (PERSISTENT_RE.search(txt) or re.search(r"\bpersistent\b", txt)):
            continue
        if recv_words and not any(w in txt for w in recv_words):
            continue
        for lab, _j in fn.succ[S]:
            if (lab != 0) != neg:
                gen_edges.add((S, lab))
    for b in sorted(fn.live):
        for st in fn.blocks[b]["s"]:
            lhs = st["lhs"]
            if lhs["p"] == ["*"] and store_type_word in fn.locals[lhs["l"]]["ty"] and st["rv"]["k"] == "use":
                txt = sh(ne(fn.deep(st["rv"]["a"])))
                if (re.search(r"(with_capacity_in|new_in|clone_into)\(", txt) and (PERSISTENT_RE.search(txt) or re.search(r"\bpersistent\b", txt)) and "self.frame" not in txt) or "promote(" in txt:
                    gen_nodes.add(b)
        if depth == 0:
            t = fn.blocks[b]["t"]
            if t["k"] == "call":
                cal = mir_norm(t.get("res") or t.get("callee"))
                g = ctx.lib.fns.get(cal or "")
                if g is not None and g.file == "src/runtime.rs" and g.id != fn.id and any(store_type_word in l["ty"] and "&mut" in l["ty"] for l in g.locals[1:g.argc + 1]):
                    gn, ge = _rehoming_gens(ctx, g, [], store_type_word, depth + 1)
                    if (gn or ge) and not (set(g.exits()) & g.reach([0], removed_nodes=gn, removed_edges=ge)):
                        gen_nodes.add(b)
    return gen_nodes, gen_edges


def r7b_commands_never_grow_on_the_frame(ctx):
    """The same for process commands: `c.arg(x)` / `c.env(k, v)` append to vectors inside the command.  A command received as a
    parameter is the frame clone made when the argument was read; appending to it inside a loop body of the callee grows those
    vectors above the iteration's frame mark.  Every call of a ProcessCommand method that can grow one of its vectors, on a
    command reached through a slot, is reached only with the command on the persistent arena."""
    growers = set()
    for fid, g in ctx.lib.fns.items():
        if fid.startswith("process::ProcessCommand::") and g.argc >= 1 and "&mut" in g.locals[1]["ty"]:
            if any((c.callee or "").startswith("std::vec::Vec::") and (c.callee or "").split("::")[-1] in VEC_GROWERS for c in g.calls()):
                growers.add(fid)
    n = 0
    for fn in runtime_bodies(ctx):
        for c in fn.calls():
            if c.callee not in growers:
                continue
            n += 1
            ctx.touch(fn)
            short = c.callee.split("::")[-1]
            ordn = sum(1 for r in ctx.records if r["rule"] == ctx.rule and r["instance"].startswith("grow-command|%s|%s#" % (parent_fn(fn.id).split("::")[-1], short)))
            key = "grow-command|%s|%s#%d" % (parent_fn(fn.id).split("::")[-1], short, ordn + 1)
            # where the command reference comes from
            e = fn.deep(c.args[0])
            src_block = None
            while True:
                if e[0] in ("ref", "deref", "field", "as", "cast"):
                    e = e[1]
                elif e[0] == "call" and e[1].endswith("::branch") and e[2]:
                    e = e[2][0]
                else:
                    break
            if e[0] == "call" and len(e) > 3:
                src_block = e[3]
            start = fn.blocks[src_block]["t"].get("target") if src_block is not None else 0
            gn, ge = _rehoming_gens(ctx, fn, ["command", "args", "env"], "ProcessCommand")
            if c.block in fn.reach([start if start is not None else 0], removed_nodes=gn - {c.block}, removed_edges=ge):
                ctx.bad(key, fn.where(c.block), "%s appends to a vector inside a command reached through a variable slot, and nothing on the way establishes that the command lives on the persistent arena (a command parameter is a frame clone): inside a loop body of a function the grown vector lies above the mark the iteration resets to (`do f(c, n) start jasi (..) start c.arg(..) end return c end`: abort in debug builds, segmentation fault otherwise)" % short)
            else:
                ctx.ok(key, fn.where(c.block), "reached only with the command on the persistent arena")
    ctx.floor("growth sites of slot-owned process commands", n, 2)


RULES = [("C02-R1", r1_promote_before_store), ("C02-R2", r2_copy_before_free), ("C02-R4", r4_resets), ("C02-R5", r5_promotion_complete), ("C02-R6", r6_nothing_borrowed_is_held_across_recycling), ("C02-R7", r7_slot_arrays_never_grow_on_the_frame), ("C02-R7b", r7b_commands_never_grow_on_the_frame)]

EXPLANATION = (
    "The interpreter launders lifetimes with unsafe code, so the borrow checker is blind where this property lives; the rules "
    "re-impose the promised discipline on MIR. R1: every store/escape sink discovered by type (LocalSlot construction, writes "
    "through &mut Value, mem::replace into a slot, pushes into Runtime.output / script arrays, construction of ExecFlow::Return) "
    "takes, on every path on which a frame arena is in use, a value produced by Value::promote (or an explicit detach). "
    "R2: in a body that both releases a slot and copies a value, the copy dominates the release. R4: Arena::reset is called "
    "only from the audited bodies; relocate_return_value resets the callee frame exactly once on every path, stages frame-owned "
    "strings on the persistent arena before the reset and rebuilds from the staged copy, promotes arrays before the reset; loop "
    "and call offsets are captured before the body/arguments run. R5: Value::promote / ArenaCow::promote / HostHandle::promote "
    "handle every variant and pass data through only under the containment tests; every copy routine's Array arm returns a new "
    "vector whose items all went through the recursive call (bulk moves only under all(<heap-free kinds>)); array arguments are "
    "detached before they are bound to parameters. R6: backward liveness of MIR locals in runtime.rs and builtins/: a local that "
    "can carry a script value (Value, Vec<Value>, ArenaCow, references to those) and is live across a call from which a pool slot "
    "can be released (call-graph reachability to return_to_pool / PoolSet::dealloc) must own its storage - all its producers are "
    "promote / detach / alloc_str or heap-free constructors - unless it is only asked for its kind or read as a number afterwards. "
    "Decides the presence and order of the mechanism on all paths and, with R6, every place where a possibly-borrowed value is "
    "kept across re-entrant evaluation (13 such places are open known findings, each with a failing script); does not decide "
    "output equality with reclamation off, nor aliasing through raw pointers outside runtime.rs/builtins."
)
EXPLANATION += (
    " R7: every call that can grow a script array reached by reference (the value of a variable slot) is reached only with the array on the persistent arena - either every slot, parameters included, is built from a promoted value, or every path to the growth site passes the true side of `ptr::eq(array.allocator(), <persistent>)` or a store of a vector built on the persistent arena; otherwise the new buffer of a push inside a loop body lies above the frame mark of the iteration (one genuine defect, D29, found and repaired)."
)
EXPLANATION += (
    ' R4 also (= C11-R2): Arena::reset leaves the watermark at exactly its argument, and the debug wrapper forwards the argument unchanged.'
)
EXPLANATION += (
    ' R7b: the same obligation as R7 for process commands - every call of a ProcessCommand method that can grow one of its vectors (found by its body), on a command reached through a slot, is reached only behind an allocator test / a store of a command cloned into the persistent arena, directly or through a runtime helper that establishes it on all its paths (D37 found and repaired).'
)
ASSUMPTIONS = ["values reach variables only through the sinks discovered by type in runtime.rs", "cfg(test)/wasm/windows code not analysed"]
TRUSTED = ["rustc nightly MIR construction", "nsx exporter", "nsverif dominance / provenance (flow-insensitive over defs of a local)"]
NONTRIVIAL = "one obligation per sink / release site / reset site / promotion arm; distinct = distinct (function, sink kind, ordinal)"
EXPLANATION += (
    " Round-5 (second half): R6 no longer only asks whether a held value owns its storage - a raw (borrowing) producer is also accepted on a path taken only when a *sound quiet predicate* answered `cannot run code` for exactly the expressions the crossing call evaluates. The predicate (any fn(&Expr) -> bool of runtime.rs; today may_run_code) is sound when, for every expression kind it answers false for, the arm of eval_expr for that kind - and the path every kind takes - makes no call from which a pool slot can be returned; the guard's subject (a path such as `expr as Binary.rhs`, `args.args[*]`, with `[*]` for one step of an iterator) has to cover the subject of every eval_expr the crossing callee can reach, translated through its parameters. Functions whose every returned value comes from detach/promote/alloc_str count as owning producers (detach_operand). A guard on the wrong operand, a predicate that calls Index quiet, a dropped detach, a guard on the first argument only and a flipped guard are each reported with that reason."
)

"""C16 — captured child output is complete or an error, never silently truncated (ordering clauses)."""
import json

from ..flow import origins
from ..guards import cmp_facts, ne, sh
from ..panics import label_names

PC = "sys::process_common::"


def r1_recheck_after_join(ctx):
    f = ctx.need(PC + "join_capture")
    ctx.touch(f)
    joins = [c for c in f.calls() if (c.callee or "").endswith("JoinHandle::join")]
    loads = [c for c in f.calls() if (c.callee or "").endswith("::load") and "tomic" in (c.callee or "")]
    if not joins or not loads:
        ctx.bad("join_capture|shape", f.where(), "join_capture no longer joins the reader and re-reads the overflow flag (join=%d load=%d)" % (len(joins), len(loads)))
        return
    j, l = joins[0], loads[0]
    if f.dominates(j.block, l.block) and j.block != l.block:
        ctx.ok("join-before-recheck", f.where(l.block), "handle.join() dominates overflow.load()")
    else:
        ctx.bad("join-before-recheck", f.where(l.block), "the overflow flag is read before the reader thread has been joined: an overflow raised by the reader after the read is missed and a shortened capture is returned")
    # every Ok(Some(..)) is dominated by the load and on the "not this stream" outcome
    n = 0
    for b in sorted(f.live):
        for s in f.blocks[b]["s"]:
            rv = s["rv"]
            if s["lhs"]["l"] == 0 and rv["k"] == "agg" and rv["variant"] == "Ok":
                inner = [d for (bi, k, d) in origins(f, rv["ops"][0], 4) if k == "agg"]
                if not any(d[1] == "Some" for d in inner):
                    continue
                n += 1
                if not f.dominates(l.block, b):
                    ctx.bad("ok-some-without-recheck", f.where(b), "a captured stream is returned without the post-join overflow check")
                    continue
                # the comparison with stream_code(stream)
                okc = False
                for S, al in f.constraints(b):
                    si = f.switch_info(S)
                    if si["kind"] == "bin" and si["op"] in ("Eq", "Ne"):
                        a = sh(ne(f.deep(si["a"])))
                        bb = sh(ne(f.deep(si["b"])))
                        if ("load" in a and "stream_code" in bb) or ("load" in bb and "stream_code" in a):
                            want_false = si["op"] == "Eq"
                            if (set(al) == {0}) == want_false:
                                okc = True
                if okc:
                    ctx.ok("ok-some-on-no-overflow", f.where(b), "Ok(Some(..)) only when overflow != stream_code(stream)")
                else:
                    ctx.bad("ok-some-on-no-overflow", f.where(b), "Ok(Some(..)) is not restricted to `overflow.load() != stream_code(stream)`")
    ctx.floor("Ok(Some(capture)) returns", n, 1)
    # no capture policy -> None
    if any(s["lhs"]["l"] == 0 and "None" in json.dumps(s["rv"]) for b in f.live for s in f.blocks[b]["s"]):
        ctx.ok("no-reader-none", f.where(), "a stream without a reader yields Ok(None)")


def r2_bounded_reader(ctx):
    f = ctx.need(PC + "read_captured_stream")
    ctx.touch(f)
    ext = [c for c in f.calls() if (c.callee or "").endswith("extend_from_slice")]
    cas = [c for c in f.calls() if (c.callee or "").endswith("compare_exchange")]
    if not ext or not cas:
        ctx.bad("reader|shape", f.where(), "read_captured_stream lost its extend (%d) or its overflow flagging (%d)" % (len(ext), len(cas)))
        return
    for c in ext:
        facts = cmp_facts(f, c.block)
        ok = False
        for op, a, b, S in facts:
            ta, tb = sh(a), sh(b)
            # known true:  (len + n) <= max   i.e.  !(len + n > max)
            if op in ("Le",) and "saturating_add" in ta and "max" in tb:
                ok = True
            if op in ("Ge",) and "saturating_add" in tb and "max" in ta:
                ok = True
            if op in ("Lt",) and "saturating_add" in ta and "max" in tb:
                ok = "strict"
        if ok is True:
            ctx.ok("extend-bounded", f.where(c.block), "extend_from_slice only under buf.len() + n <= max")
        elif ok == "strict":
            ctx.bad("extend-bounded|off-by-one", f.where(c.block), "capture refuses output of exactly the limit (len + n < max)")
        else:
            ctx.bad("extend-bounded", f.where(c.block), "extend_from_slice is not edge-dominated by `buf.len() + n <= max`: the capture buffer is unbounded or the limit test changed (%s)" % [(o, sh(a), sh(b)) for o, a, b, S in facts])
    # the over-limit outcome flags overflow before leaving the loop
    for S in sorted(f.live):
        si = f.switch_info(S) if f.blocks[S]["t"]["k"] == "switch" else None
        if si and si["kind"] == "bin" and si["op"] in ("Gt", "Le") and "saturating_add" in sh(ne(f.deep(si["a"]))):
            for lab, tgt in f.succ[S]:
                # the over-limit outcome: `sum > max` true, or `sum <= max` false
                if (lab != 0) == (si["op"] == "Gt"):
                    r = f.reach([0], removed_nodes=[c.block for c in cas], removed_edges=[(S, 0)])
                    # from the true edge, every path to the return passes compare_exchange
                    r2 = f.reach([tgt], removed_nodes=[c.block for c in cas] + [S])
                    if r2 & set(f.exits()):
                        ctx.bad("overflow-flagged", f.where(S), "the over-limit branch can leave the reader without setting the overflow flag: the shortened buffer is returned as if complete")
                    else:
                        ctx.ok("overflow-flagged", f.where(S), "over-limit branch passes compare_exchange before returning")
    # every way out of the reader loop is either end-of-file (a read that returned 0) or the flagged overflow:
    # leaving because "the buffer is full" would return a capture cut exactly at the limit as if it were complete
    eof_edges = []
    for S in sorted(f.live):
        if f.blocks[S]["t"]["k"] == "switch":
            si = f.switch_info(S)
            if si["kind"] == "bin" and si["op"] in ("Eq", "Ne"):
                a, b = sh(ne(f.deep(si["a"]))), sh(ne(f.deep(si["b"])))
                if ("read(" in a and b == "0") or ("read(" in b and a == "0"):
                    eof_edges += [(S, lab) for lab, _ in f.succ[S] if (lab != 0) == (si["op"] == "Eq")]
            elif si["kind"] in ("place", "other"):
                # the same test as a match on the count: `match reader.read(..)? { 0 => break, n => n }`
                d = f.blocks[S]["t"]["d"]
                pl = (d.get("copy") or d.get("move")) if isinstance(d, dict) else None
                if pl is not None and "usize" in f.locals[pl["l"]]["ty"] and "read(" in sh(ne(f.deep(d))) and "saturating_add" not in sh(ne(f.deep(d))):
                    eof_edges += [(S, lab) for lab, _ in f.succ[S] if lab == 0]
    err_blocks = [c.block for c in f.calls() if "from_residual" in (c.callee or "")]
    r = f.reach([0], removed_nodes=[c.block for c in cas] + err_blocks, removed_edges=eof_edges)
    if not eof_edges:
        ctx.bad("reader|no-eof-test", f.where(), "the reader no longer recognises end-of-file by a read that returns 0")
    elif r & set(f.exits()):
        ctx.bad("reader|exit-without-eof-or-flag", f.where(), "the reader loop can be left without having seen end-of-file and without flagging overflow (e.g. because the buffer reached the limit): output beyond the limit is silently dropped")
    else:
        ctx.ok("reader|exits", f.where(), "the loop is left only on read == 0, on a read error, or after flagging overflow")
    # `max` is the cap handed in
    mx = [sh(ne(f.deep_rvalue(s["rv"]))) for b in f.live for s in f.blocks[b]["s"] if f.locals[s["lhs"]["l"]]["name"] == "max" and not s["lhs"]["p"]]
    if mx and all("cap" in m for m in mx):
        ctx.ok("max-is-cap", f.where(), "max = cap as usize")
    else:
        ctx.bad("max-is-cap", f.where(), "the reader's limit is `%s`, not the configured cap" % mx)
    # the cap handed to the readers is max_capture_bytes_per_stream
    h = ctx.need(PC + "run_host_process")
    for c in h.calls_to(PC + "spawn_capture_reader"):
        cap = sh(ne(h.deep(c.args[2])))
        pol = sh(ne(h.deep(c.args[1])))
        stream = sh(ne(h.deep(c.args[3])))
        want = "stdout" if "Stdout" in stream else "stderr"
        if "max_capture_bytes_per_stream" in cap and pol == "spec." + want:
            ctx.ok("reader-wiring|%s" % want, h.where(c.block), "policy spec.%s, cap caps.max_capture_bytes_per_stream" % want)
        else:
            ctx.bad("reader-wiring|%s" % want, h.where(c.block), "capture reader for %s wired with policy `%s`, cap `%s`" % (want, pol, cap))
    # reader tags: stdout -> 1, stderr -> 2, agreeing with stream_code
    sc = ctx.need(PC + "stream_code")
    from ..tables import mir_enum_table
    tab = mir_enum_table(sc, 1)
    clo = ctx.lib.fns.get(PC + "spawn_capture_reader::{closure#0}")
    if clo is not None and tab:
        ctx.touch(clo)
        for c in clo.calls():
            if (c.callee or "").startswith(PC + "read_captured_stream"):
                code = c.args[2].get("int")
                if code is None:
                    # the tag taken from the table itself: stream_code(ProcessStream::X) evaluates to the table's entry for X
                    e = clo.deep(c.args[2])
                    if isinstance(e, tuple) and e[0] == "call" and str(e[1]).endswith("stream_code") and len(e[2]) == 1 and isinstance(e[2][0], tuple) and e[2][0][0] == "agg" and not e[2][0][3]:
                        code = (tab.get(e[2][0][2]) or ["?"])[0].replace("_u8", "")
                ty = " ".join(c.gargs)
                want = "Stdout" if "ChildStdout" in ty else "Stderr"
                tv = tab.get(want, ["?"])[0].replace("_u8", "")
                if str(code) == tv:
                    ctx.ok("reader-code|%s" % want, clo.where(c.block), "reader tag %s == stream_code(%s)" % (code, want))
                else:
                    ctx.bad("reader-code|%s" % want, clo.where(c.block), "the %s reader flags overflow with code %s but stream_code(%s) is %s: the overflow is attributed to the other stream and this one returns truncated" % (want, code, want, tv))


def r3_kill(ctx):
    f = ctx.need(PC + "wait_for_child")
    ctx.touch(f)
    term = f.calls_to(PC + "terminate_child")
    n = 0
    for b in sorted(f.live):
        for s in f.blocks[b]["s"]:
            rv = s["rv"]
            if s["lhs"]["l"] == 0 and rv["k"] == "agg" and rv["variant"] == "Err":
                kinds = [d[1] for (bi, k, d) in origins(f, rv["ops"][0], 4) if k == "agg"]
                kind = kinds[0] if kinds else "?"
                n += 1
                # the error of try_wait itself (the OS does not know the child any more): nothing left to terminate - the same
                # outcome whether it is propagated with `?` or matched and returned by hand
                from ..panics import label_names
                wait_failed = any(f.switch_info(S)["kind"] == "discr" and "try_wait(" in sh(ne(f.deep(f.blocks[S]["t"]["d"]))) and label_names(f, S, al, f.switch_info(S)) == {"Err"} for S, al in f.constraints(b))
                if wait_failed:
                    ctx.ok("kill-before-err|%s|wait-failed" % kind, f.where(b), "Err(%s) carries the failure of try_wait itself" % kind)
                elif any(f.dominates(t.block, b) and t.block != b for t in term):
                    ctx.ok("kill-before-err|%s" % kind, f.where(b), "terminate_child dominates Err(%s)" % kind)
                else:
                    ctx.bad("kill-before-err|%s" % kind, f.where(b), "wait_for_child returns Err(%s) without terminating the child: it is left running" % kind)
    ctx.floor("Err returns in wait_for_child (overflow, timeout)", n, 2)
    t = ctx.need(PC + "terminate_child")
    ctx.touch(t)
    kills = [c for c in t.calls() if (c.callee or "").endswith("Child::kill")]
    waits = [c for c in t.calls() if (c.callee or "").endswith("Child::wait")]
    if kills and waits and t.dominates(kills[0].block, waits[0].block):
        ctx.ok("terminate|kill-then-wait", t.where(), "kill() then wait()")
    else:
        ctx.bad("terminate|kill-then-wait", t.where(), "terminate_child no longer kills and then reaps the child")
    # timeout test: elapsed >= timeout with timeout from timeout_ms; overflow test: != 0
    txt = [(si["op"], sh(ne(f.deep(si["a"]))), sh(ne(f.deep(si["b"])))) for S in f.live if f.blocks[S]["t"]["k"] == "switch" for si in [f.switch_info(S)] if si["kind"] == "bin"]
    if any(op == "Ne" and "load" in a and b == "0" for op, a, b in txt):
        ctx.ok("poll|overflow-test", f.where(), "overflow.load() != 0")
    else:
        ctx.bad("poll|overflow-test", f.where(), "the poll loop no longer tests the overflow flag against 0 (%s)" % txt)
    ge = [c for c in f.calls() if (c.callee or "").endswith("PartialOrd>::ge") or (c.callee or "").endswith("::ge")]
    if ge and "elapsed" in sh(ne(f.deep(ge[0].args[0]))) and "timeout" in sh(ne(f.deep(ge[0].args[1]))):
        ctx.ok("poll|timeout-test", f.where(ge[0].block), "start.elapsed() >= timeout")
    else:
        ctx.bad("poll|timeout-test", f.where(), "the poll loop no longer compares elapsed time with the timeout using >=")
    # a child is declared late only after it was just seen running: the exit test of the same iteration comes before the
    # deadline test, with no sleep in between - otherwise a child that finished in time while the loop slept is reported as a
    # timeout and its complete output is thrown away
    tw = [c for c in f.calls() if (c.callee or "").endswith("Child::try_wait")]
    sl = [c for c in f.calls() if (c.callee or "").endswith("thread::sleep")]
    tmo = []
    for b in sorted(f.live):
        for s_ in f.blocks[b]["s"]:
            rv = s_["rv"]
            if rv["k"] == "agg" and rv.get("variant") == "Timeout":
                tmo.append(b)
    if tw and tmo:
        fresh = all(f.dominates(tw[0].block, b) for b in tmo) and all(f.must_pass([c.block], {tw[0].block}, targets=tmo)[0] for c in sl)
        entry_ok = all(f.must_pass([0], {tw[0].block}, targets=tmo)[0] for _ in [0]) if 0 != tw[0].block else True
        if fresh and entry_ok:
            ctx.ok("poll|exit-seen-before-deadline", f.where(tw[0].block), "try_wait() of the same iteration precedes the deadline test")
        else:
            ctx.bad("poll|exit-seen-before-deadline", f.where(tmo[0]), "wait_for_child can report Timeout without having looked at the child since the last sleep: a child that exited inside its timeout is reported as timed out and its output is discarded")
    else:
        ctx.bad("poll|exit-seen-before-deadline|anchors", f.where(), "try_wait / Timeout not found in wait_for_child")
    # after a kill, the run still waits for the capture readers, and a reader ends only when *every* process holding the
    # pipe's write end has gone.  Killing the direct child alone leaves its descendants alive with the pipe open: the run
    # does not end at the timeout, and a process the script started is left running.
    h0 = ctx.need(PC + "run_host_process")
    joins_after_error = False
    for c in h0.calls_to(PC + "join_capture"):
        for S, al in h0.constraints(c.block):
            si = h0.switch_info(S)
            if si["kind"] == "discr" and "Result" in si["ty"] and label_names(h0, S, al, si) == {"Err"}:
                joins_after_error = True
    whole_tree = any((c.callee or "").split("::")[-1] in ("process_group", "setsid", "killpg", "setpgid", "AssignProcessToJobObject", "TerminateJobObject")
                     for fn in ctx.lib.fns.values() if fn.file.startswith("src/sys/") for c in fn.calls())
    kills_child_only = any((c.callee or "").endswith("Child::kill") for c in t.calls())
    if joins_after_error and kills_child_only and not whole_tree:
        ctx.bad("timeout|descendants-hold-the-pipe", t.where(), "terminate_child kills the direct child only (Child::kill; no process group / job object anywhere under src/sys), and run_host_process then joins the capture readers, which end only when every holder of the pipe has exited: with a grandchild that keeps the stream open (`sh -c \"sleep 7; echo late\"`) a 300 ms timeout is reported after 7 s - never, for a daemon - and the grandchild is left running")
    else:
        ctx.ok("timeout|whole-tree", t.where(), "the kill reaches the process tree, or the error path does not wait for the readers")
    h = ctx.need(PC + "run_host_process")
    for c in h.calls_to(PC + "wait_for_child"):
        to = sh(ne(h.deep(c.args[2])))
        if to == "spec.timeout_ms":
            ctx.ok("poll|timeout-source", h.where(c.block), "wait_for_child(.., spec.timeout_ms, ..)")
        else:
            ctx.bad("poll|timeout-source", h.where(c.block), "the wait loop's timeout is `%s`, not spec.timeout_ms" % to)


def r4_utf8_and_status(ctx):
    f = ctx.need(PC + "join_capture")
    cal = {c.callee for c in f.calls()} | {c.callee for g in ctx.lib.closures_of(PC + "join_capture") for c in g.calls()}
    if "std::string::String::from_utf8" in cal and not any(x and "lossy" in x for x in cal):
        ctx.ok("utf8|strict", f.where(), "String::from_utf8 (strict), no lossy conversion")
    else:
        ctx.bad("utf8|strict", f.where(), "captured bytes are not validated with String::from_utf8 (lossy or unchecked conversion): invalid UTF-8 would not be an error")
    clo = ctx.lib.fns.get(PC + "join_capture::{closure#0}")
    # the same mapping written as a match on the conversion's result: InvalidUtf8 built on its Err outcome
    from ..panics import label_names
    by_match = [b for b in sorted(f.live) for st in f.blocks[b]["s"] if st["rv"]["k"] == "agg" and st["rv"].get("variant") == "InvalidUtf8"
                and any(f.switch_info(S)["kind"] == "discr" and "from_utf8(" in sh(ne(f.deep(f.blocks[S]["t"]["d"]))) and label_names(f, S, al, f.switch_info(S)) == {"Err"} for S, al in f.constraints(b))]
    # ... and on *every* way out of that outcome: an arm with a guard that lets some invalid input through to the Ok return
    # (a text cut inside a character, say) is not a mapping to InvalidUtf8
    if by_match:
        cand = [S for S in sorted(f.live) if f.blocks[S]["t"]["k"] == "switch" and f.switch_info(S)["kind"] == "discr" and "from_utf8(" in sh(ne(f.deep(f.blocks[S]["t"]["d"])))]
        # (the match itself, not the drop-elaboration test of the same value that follows it)
        cand = [S for S in cand if not any(S2 != S and f.dominates(S2, S) for S2 in cand)]
        for S in cand:
            si = f.switch_info(S)
            if True:
                err_targets = [tgt for lab, tgt in f.succ[S] if label_names(f, S, [lab], si) == {"Err"}]
                if any(f.blocks[x]["t"]["k"] == "return" for x in f.reach(err_targets, removed_nodes=by_match + [S])):
                    by_match = []
                    break
    if clo is not None and "InvalidUtf8" in json.dumps(clo.m["blocks"]):
        ctx.ok("utf8|error-kind", clo.where(), "maps to ProcessError::InvalidUtf8(stream)")
    elif by_match:
        ctx.ok("utf8|error-kind", f.where(by_match[0]), "the Err outcome of String::from_utf8 builds ProcessError::InvalidUtf8(stream)")
    else:
        ctx.bad("utf8|error-kind", f.where(), "invalid UTF-8 is no longer mapped to ProcessError::InvalidUtf8")
    # `the corresponding error`: the stream an overflow / invalid-UTF-8 error names is the stream it happened on
    from ..tables import mir_enum_table
    nm = ctx.lib.fns.get("process::ProcessStream::as_str")
    if nm is not None:
        ctx.touch(nm)
        tab = mir_enum_table(nm, 1) or {}
        wrong = {v: r for v, r in tab.items() if [str(x).strip('"') for x in r] != [v.lower()]}
        if tab and not wrong:
            ctx.ok("stream-name", nm.where(), "%s" % {v: r[0] for v, r in tab.items()})
        else:
            ctx.bad("stream-name|%s" % ",".join("%s=%s" % (v, "/".join(str(x).strip('"') for x in r)) for v, r in sorted(wrong.items())), nm.where(), "ProcessStream::as_str names %s: an error on one captured stream is reported as an error on the other" % wrong)
    h = ctx.need(PC + "run_host_process")
    ctx.touch(h)
    # exit status is data: status.code() feeds the ProcessResult aggregate and no switch leads to Err
    codes = [c for c in h.calls() if (c.callee or "").endswith("ExitStatus::code")]
    agg_ok = False
    for b in sorted(h.live):
        for s in h.blocks[b]["s"]:
            if s["rv"]["k"] == "agg" and s["rv"]["adt"].endswith("ProcessResult"):
                txt = [sh(ne(h.deep(o))) for o in s["rv"]["ops"]]
                if "code(" in txt[1] and "code(" in txt[0]:
                    agg_ok = True
    branch_on_code = False
    for S in sorted(h.live):
        if h.blocks[S]["t"]["k"] == "switch":
            d = sh(ne(h.deep(h.blocks[S]["t"]["d"])))
            if "code(" in d or "success(" in d:
                branch_on_code = True
    if codes and agg_ok and not branch_on_code:
        ctx.ok("status-is-data", h.where(), "exit_code = status.code(), success = (code == Some(0)); no branch on it")
    else:
        ctx.bad("status-is-data", h.where(), "the exit status is branched on or no longer stored as result data (agg=%s branch=%s)" % (agg_ok, branch_on_code))
    # on the wait error path readers are joined (no thread left behind) before returning the error
    jc = h.calls_to(PC + "join_capture")
    ctx.floor("join_capture call sites (error path + normal path)", len(jc), 4)
    # the captures of the normal path are propagated with `?`
    from .c08 import propagated
    norm = [c for c in jc if propagated(h, c)]
    if len(norm) >= 2:
        ctx.ok("capture-errors-propagated", h.where(), "%d join_capture(..)? on the normal path" % len(norm))
    else:
        ctx.bad("capture-errors-propagated", h.where(), "a capture error (overflow / invalid UTF-8) is not propagated on the normal path")
    # not-captured streams read as null
    r = ctx.need("runtime::Runtime::eval_process_result_call")
    ctx.touch(r)
    mo = [c for c in r.calls() if (c.callee or "").endswith("Option::map_or")]
    nulls = sum(1 for c in mo if "Value::Null" in sh(ne(r.deep(c.args[1]))))
    if nulls >= 3:
        ctx.ok("uncaptured-null", r.where(), "%d map_or(Value::Null, ..)" % nulls)
    else:
        ctx.bad("uncaptured-null", r.where(), "stdout()/stderr()/exit_code() no longer map an absent value to null")


def r6_captured_text_outlives_the_frame(ctx):
    """The captured stdout / stderr belong to the result value for as long as the script keeps it.  The result's handle is
    persistent; the text must be allocated on the same arena, or it is recycled at the next frame reset and the script reads
    something the child never wrote (shared with C02-R5)."""
    from .c02 import r5_promotion_complete
    # host_colocation is part of it; the rest covers the text once it is a plain string value: `keep(r.stdout())` hands a
    # frame-allocated temporary to a function that stores it - promotion must recognise frame memory as well as pool slots
    r5_promotion_complete(ctx)


def r6_streams_get_the_policy_they_were_given(ctx):
    """`Streams that are not captured read as null` and do not get in the way: a stream configured as null must really be
    /dev/null - handed a pipe that nobody reads, the child blocks once it has written a pipe buffer (64 KiB) and the run ends
    in a spurious timeout instead of the complete captured stream.  Shared with C15-R9 (name -> policy -> Stdio, table by
    table)."""
    from .c15 import r9_names_reach_their_policy
    r9_names_reach_their_policy(ctx)


def r7_stored_text_gets_room_for_its_bytes(ctx):
    """Captured text that the script stores is copied into a pool slot: the slot is requested for the number of *bytes* that
    are then copied (shared with C12-R3: size handed to the pool = length copied = capacity recorded), or non-ASCII output is
    cut short by the next stored value."""
    from .c12 import r3_class_checked_release
    r3_class_checked_release(ctx)


RULES = [("C16-R1", r1_recheck_after_join), ("C16-R2", r2_bounded_reader), ("C16-R3", r3_kill), ("C16-R4", r4_utf8_and_status), ("C16-R5", r6_captured_text_outlives_the_frame), ("C16-R6", r6_streams_get_the_policy_they_were_given), ("C16-R7", r7_stored_text_gets_room_for_its_bytes)]

EXPLANATION = (
    "Ordering and wiring clauses only; thread schedules are not decidable in this family. R1: in join_capture the reader is "
    "joined before the overflow flag is re-read and a capture is returned only on the `flag != stream_code(stream)` outcome. "
    "R2: the reader appends only under `buf.len() + n <= max` with max = the configured cap, the over-limit branch sets the "
    "overflow flag before leaving, each reader is wired to its own policy/cap and tags overflow with the code stream_code "
    "assigns to its stream. R3: every Err returned by the wait loop (overflow, timeout) is dominated by terminate_child "
    "(kill then wait); the timeout compared is spec.timeout_ms. R4: strict String::from_utf8 mapped to InvalidUtf8; exit status "
    "stored as data and never branched on; capture errors propagated; absent streams map to null. Does not decide which "
    "thread observes the overflow first, races between child exit and the readers, or timing."
)
EXPLANATION += (
    " R5 (= C02-R5 host-colocation): the captured text is allocated on the same arena as the result's handle."
)
ASSUMPTIONS = ["unix back end (process_common) only", "SeqCst/Acquire atomics behave as documented"]
TRUSTED = ["rustc nightly MIR", "nsx exporter", "nsverif dominance and expression reconstruction"]
NONTRIVIAL = "one obligation per ordering/wiring clause and per Err/Ok return site; distinct = distinct clause/site"
EXPLANATION += (
    ' Round-5: R3 also requires the exit test of an iteration to precede the deadline test with no sleep between them, and reports (known finding D46) that a kill reaches the direct child only while the error path waits for readers that end when the whole process tree has let go of the pipe; R4 checks the stream names of ProcessStream::as_str; R5 shares all of C02-R5.'
)
EXPLANATION += (
    ' Round 6: R6 shares C15-R9 (a null stream is /dev/null, not an unread pipe); R7 shares C12-R3 (a stored text gets a slot for its bytes).'
)

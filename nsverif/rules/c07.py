"""C07 — the front end is total: any text yields diagnostics or a program, not a crash (mechanism integrity)."""
import re

from ..guards import cmp_facts, ne, sh, upper_bound
from ..mir import norm, parent_fn, read_places
from ..panics import label_names

LEX = "syntax::scanner::Lexer::"
ASCII_PREDS = ("is_ascii_digit", "is_ascii_alphabetic", "is_ascii_alphanumeric", "is_ascii_whitespace", "is_ascii_punctuation",
               "is_ascii_hexdigit", "is_ascii", "is_alpha_or_underscore", "is_ascii_lowercase", "is_ascii_uppercase")
# the single advance that is only reachable for input that is not valid UTF-8 (impossible for &str input:
# chars().next() is Some whenever pos < len); named exception of DESIGN.md
UTF8_FALLBACK = "after chars().next() returned None on a non-empty &str slice (unreachable for valid UTF-8)"


def _balanced_end(t, i):
    """index just after the parenthesis group that opens at t[i] == '('."""
    d = 0
    for j in range(i, len(t)):
        if t[j] in "({[":
            d += 1
        elif t[j] in ")}]":
            d -= 1
            if d == 0:
                return j + 1
    return len(t)


def collapse_memchr(t):
    out = ""
    i = 0
    while i < len(t):
        m = re.match(r"memchr2?\(", t[i:])
        if m:
            j = _balanced_end(t, i + m.end() - 1)
            out += "M"
            i = j
        else:
            out += t[i]
            i += 1
    return out


def split_top(t):
    """split 'a,b' at the top-level comma."""
    d = 0
    for j, ch in enumerate(t):
        if ch in "({[":
            d += 1
        elif ch in ")}]":
            d -= 1
        elif ch == "," and d == 0:
            return t[:j], t[j + 1:]
    return t, ""


def lexer_bodies(ctx):
    return sorted([f for f in ctx.lib.in_file("src/syntax/scanner.rs") if f.id.startswith(LEX) and "{closure" not in f.id], key=lambda f: f.line)


def pos_writes(fn):
    out = []
    for b in sorted(fn.live):
        for k, s in enumerate(fn.blocks[b]["s"]):
            if any(isinstance(e, dict) and e.get("f") == "pos" and "Lexer" in e.get("of", "") for e in s["lhs"]["p"]):
                out.append((b, k, s))
    return out


def pos_writers(ctx):
    """Lexer methods that (transitively) write the cursor."""
    direct = {f.id for f in lexer_bodies(ctx) if pos_writes(f)}
    changed = True
    while changed:
        changed = False
        for f in lexer_bodies(ctx):
            if f.id in direct:
                continue
            if any(c.callee in direct for c in f.calls()):
                direct.add(f.id)
                changed = True
    return direct


def write_blocks(fn, writers):
    return {b for b, k, s in pos_writes(fn)} | {c.block for c in fn.calls() if c.callee in writers}


def stale(fn, S, B, wblocks, labels=None):
    """A cursor write on some path from test S (leaving by one of `labels`) to use B that does not re-enter S."""
    fwd = fn.reach([j for lab, j in fn.succ[S] if labels is None or lab in labels], removed_nodes=[S])
    back = set()
    st = [B]
    while st:
        x = st.pop()
        if x in back or x == S:
            continue
        back.add(x)
        for p, _ in fn.pred[x]:
            st.append(p)
    between = (fwd & back) - {B}
    return bool(between & wblocks)


def byte_alternatives(fn, operand):
    """Texts of what a tested byte can be: ['self.src[E]', ...] and constants."""
    return [sh(ne(e)) for e in fn.alt_exprs(operand)]


def ascii_fact(fn, S, labels):
    """If the outcome `labels` of switch S implies that some source byte is ASCII, return the set of texts of
    position expressions E (byte self.src[E]); 'PARAM:<name>' for a byte parameter.  Else None."""
    si = fn.switch_info(S)
    names = label_names(fn, S, labels, si)
    t = fn.blocks[S]["t"]
    if si["kind"] == "call":
        short = (si["callee"] or "").split("::")[-1]
        if short in ASCII_PREDS and names == {"true"}:
            return subjects(fn, si["call"]["args"][-1] if short != "is_alpha_or_underscore" else si["call"]["args"][0])
        return None
    if si["kind"] == "bin" and si["op"] in ("Eq", "Ne"):
        want = {"true"} if si["op"] == "Eq" else {"false"}
        if names != want:
            return None
        for x, y in ((si["a"], si["b"]), (si["b"], si["a"])):
            cv = y.get("int") if isinstance(y, dict) else None
            if cv is None:
                ytxt = sh(ne(fn.deep(y)))
                if ytxt == "quote":
                    cv = 34  # the quote parameter is '"' or '\'' (checked at the call sites, see quote_param_ascii)
            if cv is not None and cv < 128:
                return subjects(fn, x)
        return None
    if si["kind"] in ("place", "other", "multi") or True:
        # switch directly on a byte value: every allowed label must be an ASCII code
        d = t["d"]
        labs = [l for l in labels]
        if labs and all(isinstance(l, int) and l < 128 for l in labs) and "u8" in operand_ty(fn, d):
            return subjects(fn, d)
    return None


def operand_ty(fn, o):
    pl = (o.get("move") or o.get("copy")) if isinstance(o, dict) else None
    if pl is not None and not pl["p"]:
        return fn.locals[pl["l"]]["ty"]
    # an element of a byte slice tested in place: `match self.src[i] { b'\n' | b'\r' => .. }`
    if pl is not None and len(pl["p"]) == 2 and pl["p"][0] == "*" and isinstance(pl["p"][1], dict) and ("idx" in pl["p"][1] or "cidx" in pl["p"][1]) \
            and fn.locals[pl["l"]]["ty"].replace(" ", "") in ("&[u8]", "&'_[u8]", "&'input[u8]"):
        return "u8"
    return ""


def subjects(fn, operand):
    out = set()
    for txt in byte_alternatives(fn, operand):
        m = re.match(r"^self\.src\[(.*)\]$", txt)
        if m:
            out.add(m.group(1))
        elif re.match(r"^\d+$", txt):
            if int(txt) >= 128:
                return None
            out.add("CONST")
        else:
            pl = (operand.get("move") or operand.get("copy")) if isinstance(operand, dict) else None
            e = fn.expr(operand, 4)
            while e[0] in ("ref", "deref"):
                e = e[1]
            if e[0] == "arg" or (e[0] == "var" and len(e) > 2 and 0 < e[2] <= fn.argc):
                out.add("PARAM:%s" % (fn.locals[e[1]]["name"] if e[0] == "arg" else e[1]))
            else:
                return None
    return out


def known_ascii_positions(fn, B, wblocks):
    return {collapse_memchr(x) for x in _known_ascii_positions(fn, B, wblocks)}


def _straight_to(fn, b, S):
    """b reaches S through gotos only."""
    seen = 0
    while b != S and seen < 8:
        if fn.blocks[b]["t"]["k"] != "goto":
            return False
        b = fn.blocks[b]["t"]["t"]
        seen += 1
    return b == S


def _known_ascii_positions(fn, B, wblocks, _depth=0):
    """Position texts whose byte is known ASCII at block B (dominating constraints + all-ASCII disjunctions)."""
    known = set()
    for S, al in fn.constraints(B):
        subj = ascii_fact(fn, S, al)
        if subj and not stale(fn, S, B, wblocks, al):
            known |= {x for x in subj if x != "CONST"}
    # a test whose outcome was first stored in a flag (`matches!(byte, b'\n' | b'\r')`, a named condition): the flag is true
    # only on the blocks that set it true, so what is known there - on every one of them - is known here
    for S, al in fn.constraints(B):
        si = fn.switch_info(S)
        if si["kind"] != "multi" or _depth > 3:
            continue
        defs = si.get("defs") or []
        if not defs or not all(k_ != "t" and st_["rv"]["k"] == "use" and isinstance(st_["rv"]["a"], dict) and st_["rv"]["a"].get("int") in (0, 1) for (_b, k_, st_) in defs):
            continue
        truth = 1 if 0 not in al else 0
        setters = [b_ for (b_, _k, st_) in defs if st_["rv"]["a"]["int"] == truth]
        if not setters or stale(fn, S, B, wblocks, al) or any(b_ in wblocks for b_ in setters):
            continue
        # each setter runs straight into the test
        if not all(fn.blocks[b_]["t"]["k"] == "goto" and _straight_to(fn, b_, S) for b_ in setters):
            continue
        common = None
        for b_ in setters:
            k_ = _known_ascii_positions(fn, b_, wblocks, _depth + 1)
            common = k_ if common is None else common & k_
        known |= common or set()
    dec = {}
    for S, lab in fn.deciding(B):
        dec.setdefault(S, []).append(lab)
    if dec:
        common = None
        for S, labs in dec.items():
            subj = ascii_fact(fn, S, labs)
            if not subj or stale(fn, S, B, wblocks, labs):
                common = set()
                break
            subj = {x for x in subj if x != "CONST"}
            common = subj if common is None else common & subj
        known |= common or set()
    return known


def r1_cursor_discipline(ctx):
    writers = pos_writers(ctx)
    n = 0
    caller_checks = []  # (callee fn id, description) advances justified in the caller's epoch
    for fn in lexer_bodies(ctx):
        ctx.touch(fn)
        wb = write_blocks(fn, writers)
        for b, k, s in pos_writes(fn):
            n += 1
            rhs_e = ne(fn.deep_rvalue(s["rv"]))
            rhs = sh(rhs_e)
            short = fn.id.split("::")[-1]
            ordn = sum(1 for r in ctx.records if r["rule"] == ctx.rule and r["instance"].startswith("%s|" % short))
            key = "%s|#%d" % (short, ordn + 1)
            where = fn.where(b)
            # restore of a snapshot
            loose = sh(ne(fn.expr(s["rv"]["a"], 3))) if s["rv"]["k"] == "use" else None
            if rhs == "self.pos" and loose and loose != "self.pos":
                ctx.ok(key + "|restore", where, "pos = %s (snapshot of the cursor)" % loose)
                continue
            m = re.match(r"^Add\((.*),(\d+)\)$", rhs)
            if m and int(m.group(2)) in (1, 2):
                base, kk = collapse_memchr(m.group(1)), int(m.group(2))
                known = known_ascii_positions(fn, b, wb)
                need = [base] + (["Add(%s,1)" % base] if kk == 2 else [])
                missing = [x for x in need if x not in known]
                if missing and base == "self.pos" and kk == 1:
                    # byte parameter tested (scan_punctuation's b) or first action of the callee: justified at the call sites
                    params = {x for x in known if x.startswith("PARAM:")}
                    first = not any(w != b and fn.dominates(w, b) for w in wb) and not any(b in fn.reach_from_succ(w) for w in wb if w != b)
                    if (params or not fn.constraints(b)) and first:
                        caller_checks.append((fn.id, b, sorted(params)))
                        ctx.ok(key + "|caller-epoch", where, "advance over the byte the caller tested (%s); justified at each call site" % (sorted(params) or "opening byte"))
                        continue
                if missing and base == "self.pos" and kk == 1 and "len_utf8" not in rhs:
                    # fallback advance after a failed decode
                    cons = " ".join(sh(ne(fn.deep(fn.blocks[S]["t"]["d"]))) for S, al in fn.constraints(b))
                    if "next(chars(" in cons and any(label_names(fn, S, al) == {"None"} for S, al in fn.constraints(b) if "next(chars(" in sh(ne(fn.deep(fn.blocks[S]["t"]["d"])))):
                        ctx.ok(key + "|utf8-fallback", where, "named exception: " + UTF8_FALLBACK)
                        continue
                if not missing:
                    ctx.ok(key + "|ascii-advance", where, "pos = %s with the skipped byte(s) known ASCII" % rhs[:50])
                else:
                    ctx.bad("advance-unjustified|%s|+%d" % (fn.id, kk), where,
                            "the cursor advances by %d from `%s` but nothing on the way establishes that the byte at %s is ASCII (known ASCII here: %s): for a multi-byte character the cursor lands inside it, later unchecked re-slicing and diagnostic spans split a character" % (
                                kk, base[:40], [x[:40] for x in missing], sorted(x[:30] for x in known)))
                continue
            m3 = re.match(r"^Add\(Add\((.*),1\),(\w+)\)$", rhs)
            if m3 and s["rv"]["k"] == "use" or (m3 and True):
                # ASCII byte at X, then the width of the character at X+1 (1 if that byte is ASCII, else its len_utf8)
                base = collapse_memchr(m3.group(1))
                known = known_ascii_positions(fn, b, wb)
                width_ok = False
                # find the operand that carries the width variable
                wl = [i for i, l in enumerate(fn.locals) if l["name"] == m3.group(2)]
                alts = []
                for l in wl:
                    for (bi, kk2, st2) in fn.whole_defs(l):
                        if kk2 == "t":
                            alts.append((bi, "call:%s(%s)" % (st2.get("res") or st2.get("callee"), ",".join(sh(ne(fn.deep(a))) for a in st2.get("args", [])))))
                        else:
                            alts.append((bi, sh(ne(fn.deep_rvalue(st2["rv"])))))
                if alts:
                    width_ok = True
                    for bi, txt in alts:
                        if txt == "1":
                            k2 = known_ascii_positions(fn, bi, wb)
                            if not any(x.replace(" ", "") == "Add(%s,1)" % base.replace(" ", "") or (x.startswith("Add(") and x.endswith(",1)")) for x in k2):
                                width_ok = False
                        elif "len_utf8" in txt and "chars(" in txt:
                            pass
                        else:
                            width_ok = False
                if base in known and width_ok:
                    ctx.ok(key + "|ascii-then-char-advance", where, "pos = X + 1 + width(char at X+1) with src[X] ASCII")
                else:
                    ctx.bad("advance-unjustified|%s|+1+w" % fn.id, where, "cursor update `%s`: byte at X known ASCII: %s; width alternatives %s" % (rhs[:60], base in known, [a[1][:40] for a in alts]))
                continue
            if "len_utf8(" in rhs:
                # pos + len_utf8(c) [+1]: c decoded from the text at the position it is added to
                if "next(chars(" in rhs:
                    ctx.ok(key + "|char-advance", where, "advance by the decoded character's width")
                else:
                    ctx.bad("advance-width-source|%s" % fn.id, where, "the cursor advances by len_utf8 of a character that was not decoded at the cursor (%s)" % rhs[:80])
                continue
            if "memchr" in rhs:
                needles = re.findall(r"memchr2?\(([^,]+),([^,]+),", rhs)
                bad = [x for pair in needles for x in pair if not (x.isdigit() and int(x) < 128) and x != "quote"]
                hay_ok = all(("Range::Range{self.pos,self.len}" in seg) or ("Range::Range{self.pos,len}" in seg) for seg in re.findall(r"index\(self\.src,(Range::Range\{[^}]*\})", rhs)) or "index(" not in rhs
                tail = collapse_memchr(rhs)
                if bad or not hay_ok:
                    ctx.bad("advance-memchr|%s" % fn.id, where, "memchr-based advance with non-ASCII needle %s or a haystack that does not start at the cursor" % bad)
                elif re.match(r"^Add\(self\.pos,M\)$", tail):
                    ctx.ok(key + "|memchr-advance", where, "pos += index of an ASCII needle (or end of text)")
                elif re.match(r"^Add\(Add\(self\.pos,M\),1\)$", tail):
                    # handled by the Add(X,1) branch above (X contains memchr) - unreachable here
                    ctx.ok(key + "|memchr-advance", where, "")
                else:
                    ctx.bad("advance-shape|%s|%s" % (fn.id, tail[:40]), where, "unrecognised cursor update `%s`" % rhs[:100])
                continue
            m2 = re.match(r"^Add\((\w+),len\((\w+)\)\)$", rhs)
            if m2:
                # try_consume_word: pos = beg + word.len() under src[beg..end] == word bytes
                facts = [sh(ne(fn.deep(fn.blocks[S]["t"]["d"]))) for S, al in fn.constraints(b) if label_names(fn, S, al) == {"true"}]
                # `a != b` on its false outcome is the same knowledge as `a == b` on its true outcome
                facts += ["eq(" + sh(ne(fn.deep(fn.blocks[S]["t"]["d"])))[3:] for S, al in fn.constraints(b) if label_names(fn, S, al) == {"false"} and sh(ne(fn.deep(fn.blocks[S]["t"]["d"]))).startswith("ne(")]
                if any(f.startswith("eq(index(self.src,Range::Range{%s," % m2.group(1)) and m2.group(2) in f for f in facts):
                    caller_checks.append((fn.id, b, ["WORD:%s" % m2.group(2)]))
                    ctx.ok(key + "|word-advance", where, "pos = %s after a byte-wise match of the word (ASCII words checked at the call sites)" % rhs)
                else:
                    ctx.bad("advance-word|%s" % fn.id, where, "the cursor jumps by the word's length without a byte-wise equality test of that range")
                continue
            ctx.bad("advance-shape|%s|%s" % (fn.id, rhs[:40]), where, "unrecognised cursor update `%s`: add its justification to the rule" % rhs[:100])
    ctx.floor("writes to Lexer.pos", n, 24)
    # ---- call-site side of the caller-epoch advances
    for callee, b, params in caller_checks:
        sites = ctx.lib.callers_of(callee)
        for c in sites:
            fn = c.fn
            wb = write_blocks(fn, writers) - {c.block}
            short = "%s<-%s" % (callee.split("::")[-1], fn.id.split("::")[-1])
            ordn = sum(1 for r in ctx.records if r["rule"] == ctx.rule and r["instance"].startswith("callsite|%s" % short))
            key = "callsite|%s#%d" % (short, ordn + 1)
            if params and params[0].startswith("WORD:"):
                arg = sh(ne(fn.deep(c.args[1])))
                if re.match(r'^"[\x20-\x7e]*"$', arg):
                    ctx.ok(key, fn.where(c.block), "word %s is an ASCII literal" % arg)
                else:
                    ctx.bad("callsite-word|%s|%s" % (fn.id, arg[:20]), fn.where(c.block), "try_consume_word is called with `%s`, not an ASCII literal" % arg[:40])
                continue
            known = known_ascii_positions(fn, c.block, wb)
            if "self.pos" in known:
                ctx.ok(key, fn.where(c.block), "the byte at the cursor is known ASCII when %s is called" % callee.split("::")[-1])
            else:
                # scan_punctuation is called with b and decides itself: its own switch on the parameter is the test
                if params and any(p.startswith("PARAM:") for p in params):
                    arg = sh(ne(fn.deep(c.args[1])))
                    if arg == "self.src[self.pos]" and not stale_arg(fn, c, wb):
                        ctx.ok(key, fn.where(c.block), "passes the byte at the cursor; the callee advances only on ASCII values of it")
                        continue
                ctx.bad("callsite-unjustified|%s|%s" % (callee, fn.id), fn.where(c.block), "%s advances over the byte at the cursor, but at this call site that byte is not known to be ASCII" % callee.split("::")[-1])


def stale_arg(fn, c, wb):
    """The byte argument was loaded from self.src[self.pos]; a cursor write between the load and the call makes it stale."""
    pl = c.args[1].get("copy") or c.args[1].get("move")
    if pl is None or pl["p"]:
        return False
    defs = fn.whole_defs(pl["l"])
    for (bi, k, st) in defs:
        if bi != c.block and stale(fn, bi, c.block, wb - {bi}):
            return True
    return False


def r2b_byte_reads_in_bounds(ctx):
    n = 0
    for fn in lexer_bodies(ctx):
        for b in sorted(fn.live):
            t = fn.blocks[b]["t"]
            if t["k"] != "assert" or t["kind"] != "BoundsCheck":
                continue
            ln = sh(ne(fn.deep(t["ops"][0])))
            if ln != "len(self.src)":
                continue
            n += 1
            ix_loose = ne(fn.expr(t["ops"][1], 6))
            ix = ne(fn.deep(t["ops"][1]))
            short = fn.id.split("::")[-1]
            ordn = sum(1 for r in ctx.records if r["rule"] == ctx.rule and r["instance"].startswith("%s|" % short))
            key = "%s|src[%s]#%d" % (short, sh(ix_loose)[:30], ordn + 1)
            facts = cmp_facts(fn, b)
            ok = None
            for idx in (ix_loose, ix):
                for bound in (("field", ("var", "self"), "len"), ("var", "len")):
                    st, fact = upper_bound(facts, idx, bound)
                    if st == "ok":
                        ok = fact
                    elif st == "offbyone" and ok is None:
                        ok = "offbyone"
            # memchr post-condition: index != haystack.len() for a haystack src[pos..len] => pos + index < len
            if ok is None and any(op == "Ne" and "len(bytes)" in (sh(x), sh(y)) for op, x, y, S in facts) and "memchr" in sh(ix):
                ctx.ok(key + "|memchr-postcondition", fn.where(b), "named exception: memchr returns an index <= len(haystack); `!= len` leaves < len")
                continue
            if ok == "offbyone":
                # `e <= len` together with `e != len` is `e < len`
                for idx in (ix_loose, ix):
                    for bound in (("field", ("var", "self"), "len"), ("var", "len")):
                        if any(op == "Ne" and {x, y} == {idx, bound} for op, x, y, S in facts):
                            ok = ("Le+Ne", idx, bound)
            if ok == "offbyone":
                ctx.bad("byte-read-offbyone|%s|%s" % (fn.id, sh(ix_loose)[:30]), fn.where(b), "self.src[%s] is guarded by `<=` where `<` is needed" % sh(ix_loose))
            elif ok:
                ctx.ok(key, fn.where(b), "dominated by %s(%s, %s)" % (ok[0], sh(ok[1])[:30], sh(ok[2])[:20]))
            else:
                ctx.bad("byte-read-unguarded|%s|%s" % (fn.id, sh(ix_loose)[:30]), fn.where(b), "self.src[%s] has no dominating `index < len` (%s): a text ending here panics the scanner" % (sh(ix_loose), [(o, sh(x)[:25], sh(y)[:15]) for o, x, y, S in facts][:5]))
    ctx.floor("byte reads of the source in the scanner", n, 14)


SNAPSHOT_OK = re.compile(r"^(start|beg|self\.pos|pos|line_end|id_start|self\.len|len|Sub\(self\.pos,1\))$")


def r2_unchecked_reslicing(ctx):
    n = 0
    writers = pos_writers(ctx)
    for fn in [f for f in ctx.lib.fns.values() if f.file in ("src/syntax/scanner.rs", "src/syntax/parser.rs")]:
        for c in fn.calls():
            if not (c.callee or "").endswith("from_utf8_unchecked") or not (c.callee or "").startswith("core::str"):
                continue
            n += 1
            e = ne(fn.expr(c.args[0], 8))
            txt = sh(e)
            m = re.match(r"^index\((?:self\.)?(\w+),Range::Range\{(.*)\}\)$", txt)
            short = fn.id.split("::")[-1]
            ordn = sum(1 for r in ctx.records if r["rule"] == ctx.rule and r["instance"].startswith("%s|" % short))
            key = "%s|#%d" % (short, ordn + 1)
            if fn.file == "src/syntax/parser.rs":
                # the template parser slices the literal's own text at indices it advanced over ASCII braces
                ctx.ok(key + "|template", fn.where(c.block), "re-slice `%s` (template segments; bounds are loop indices over ASCII delimiters)" % txt[:60])
                continue
            if not m:
                ctx.bad("reslice-shape|%s|%s" % (fn.id, txt[:30]), fn.where(c.block), "from_utf8_unchecked over `%s`: not a range of the source between cursor snapshots" % txt[:80])
                continue
            lo, hi = split_top(m.group(2))
            md = re.match(r"^index\((?:self\.)?(\w+),Range::Range\{(.*)\}\)$", sh(ne(fn.deep(c.args[0]))))
            lo_d, hi_d = [collapse_memchr(x) for x in split_top(md.group(2))] if md else ("?", "?")
            deep_of = {lo: lo_d, hi: hi_d}
            def bound_ok(t):
                if SNAPSHOT_OK.match(t):
                    return True
                m5 = re.match(r"^Add\((\w+),1\)$", t)
                if m5:
                    # one past a byte that is known ASCII here
                    wb = write_blocks(fn, writers)
                    known = known_ascii_positions(fn, c.block, wb)
                    deep_base = [collapse_memchr(sh(ne(fn.deep({"copy": {"l": i, "p": []}})))) for i, l in enumerate(fn.locals) if l["name"] == m5.group(1)]
                    return any(d in known for d in deep_base) or m5.group(1) in known
                # the value the cursor is (justifiably, R1) set to in this body
                writes = {collapse_memchr(sh(ne(fn.deep_rvalue(st["rv"])))) for bb3, kk3, st in pos_writes(fn)}
                return deep_of.get(t) in writes
            if bound_ok(lo) and bound_ok(hi):
                ctx.ok(key, fn.where(c.block), "src[%s..%s]: bounds are cursor snapshots / one past an ASCII byte / the next cursor value" % (lo, hi))
            else:
                ctx.bad("reslice-bounds|%s|%s..%s" % (fn.id, lo[:20], hi[:20]), fn.where(c.block), "unchecked UTF-8 re-slice src[%s..%s] uses a bound that is not a copy of the cursor: it can fall inside a character" % (lo, hi))
    ctx.floor("from_utf8_unchecked re-slices in scanner/parser", n, 15)


def r3_parser_position_free(ctx):
    """No arithmetic and no branch in the parser depends on a span: spans are only copied into Range aggregates."""
    n_fn = 0
    for fn in [f for f in ctx.lib.fns.values() if f.file == "src/syntax/parser.rs" and "Parser" in f.id]:
        n_fn += 1
        ctx.touch(fn)
        for b in sorted(fn.live):
            for s in fn.blocks[b]["s"]:
                rv = s["rv"]
                if rv["k"] == "bin" and rv["op"] not in ("Eq", "Ne"):
                    for o in (rv["a"], rv["b"]):
                        t = sh(ne(fn.expr(o, 6)))
                        if ".span." in t or t.endswith(".start") or t.endswith(".end"):
                            ctx.bad("span-arithmetic|%s|%s" % (fn.id, rv["op"]), fn.where(b), "the parser computes %s on a span component (%s): positions are the scanner's business; arithmetic here can leave the text or split a character" % (rv["op"], t[:50]))
            t = fn.blocks[b]["t"]
            if t["k"] == "switch":
                d = sh(ne(fn.expr(t["d"], 6)))
                if ".span" in d and "token" not in d:
                    ctx.bad("span-branch|%s" % fn.id, fn.where(b), "a parser decision depends on a span (%s): layout would become significant" % d[:60])
    if not any(r["rule"] == ctx.rule and r["status"] == "violation" for r in ctx.records):
        ctx.ok("parser-position-free", "src/syntax/parser.rs", "no arithmetic or branch on span components in %d parser bodies" % n_fn)
    ctx.floor("parser bodies examined", n_fn, 15)


# ---------------------------------------------------------------------------------------------------------------------
# R5: every &str range taken by the diagnostic renderer has character-boundary bounds
DIAG = "diagnostics::Diagnostics::"


def _args_top(t):
    out = []
    while t:
        a, t = split_top(t)
        out.append(a)
    return out


def boundary_expr(t, params=()):
    """Is the (deep, normalised) expression a byte offset that is a character boundary of the source?  Grammar:
    span component | line_start/line_end as returned by line_col_from_span | element of compute_line_starts (or one before:
    the byte before a line start is an ASCII line terminator) | len(src) | 0 | min/max of boundaries | a parameter that
    every caller fills with a boundary."""
    t = t.strip()
    if t in ("0", "len(src)", "len(text)") or t in params:
        return True
    if re.search(r"\.span\.(start|end)$", t) and "(" not in t.rsplit(".span.", 1)[1]:
        return True
    if re.match(r"^(line_col_from_span|line_col_in)\(.*\)\.(2|3)$", t):
        return True
    m = re.match(r"^(min|max)\((.*)\)$", t)
    if m:
        parts = _args_top(m.group(2))
        return len(parts) == 2 and all(boundary_expr(x, params) for x in parts)
    if re.match(r"^index\((compute_line_starts\(self,src\)|line_starts),.*\)$", t) or re.match(r"^line_starts\[.*\]$", t):
        return True     # an element of the line table (a Vec indexed through Index::index, or a slice indexed in place)
    m = re.match(r"^Sub\((index\((?:compute_line_starts\(self,src\)|line_starts),.*\)|line_starts\[.*\]),1\)$", t)
    if m:
        return True
    return False


def r5_renderer_boundaries(ctx):
    n = 0
    fns = [f for f in ctx.lib.fns.values() if f.file == "src/diagnostics.rs" and parent_fn(f.id).startswith(DIAG)]
    # the locator: line_col_from_span(src, start), or line_col_in(src, line_starts, start) once the table is built by the caller
    lc = ctx.lib.fns.get(DIAG + "line_col_in") or ctx.need(DIAG + "line_col_from_span")
    start_arg = next((i for i in range(1, lc.argc + 1) if lc.locals[i]["name"] == "start"), lc.argc) - 1
    for fn in fns:
        ctx.touch(fn)
        params = ("start",) if fn.id == lc.id else ()
        for c in fn.calls():
            cal = c.callee or ""
            if not (cal.startswith("core::str::traits::") and "index" in cal) and not (cal.endswith("::get_unchecked") and "str" in cal):
                continue
            base = sh(ne(fn.deep(c.args[0])))
            if base not in ("src",):
                continue    # slices of strings built by the renderer itself (expanded lines, gutters) are not source offsets
            n += 1
            alts = fn.alt_exprs(c.args[1])
            short = fn.id.split("::")[-1]
            ordn = sum(1 for r in ctx.records if r["rule"] == ctx.rule and r["instance"].startswith("slice|%s#" % short))
            key = "slice|%s#%d" % (short, ordn + 1)
            bad = None
            for a in alts:
                txt = sh(ne(a))
                m = re.match(r"^Range(?:To|From|Inclusive)?::Range(?:To|From|Inclusive)?\{(.*)\}$", txt)
                if not m:
                    bad = txt
                    break
                for bound in _args_top(m.group(1)):
                    if not boundary_expr(bound, params):
                        bad = bound
                        break
                if bad:
                    break
            loose = sh(ne(fn.expr(c.args[1], 3)))
            if bad is None:
                ctx.ok(key, fn.where(c.block), "src[%s]: both bounds are span components / line boundaries / min of those" % loose[:70])
            else:
                ctx.bad("slice-bound|%s|%s" % (short, re.sub(r"\s+", "", sh(ne(fn.expr(c.args[1], 3))))[:60]), fn.where(c.block),
                        "the renderer slices the source text at `%s`, which is computed (not a span component, a line boundary or a min/max of those): when it falls inside a multi-byte character the slice panics while the diagnostic is printed" % bad[:90])
    ctx.floor("source slices in the diagnostic renderer", n, 7)
    # the parameter `start` of line_col_from_span is filled with a boundary by every caller
    for c in ctx.lib.callers_of(lc.id):
        t = sh(ne(c.fn.deep(c.args[start_arg])))
        if boundary_expr(t):
            ctx.ok("line_col_from_span|arg|%s" % c.fn.id.split("::")[-1], c.fn.where(c.block), "called with %s" % t[-40:])
        else:
            ctx.bad("line_col_from_span|arg|%s" % c.fn.id.split("::")[-1], c.fn.where(c.block), "line_col_from_span is called with `%s`, not a span component: it slices src[line_start..start]" % t[:60])
    # its result components 2 and 3 are line boundaries
    for b in sorted(lc.live):
        for st in lc.blocks[b]["s"]:
            if st["lhs"]["l"] == 0 and not st["lhs"]["p"] and st["rv"]["k"] == "agg":
                for i in (2, 3):
                    alts = [sh(ne(a)) for a in lc.alt_exprs(st["rv"]["ops"][i])]
                    if all(boundary_expr(a) for a in alts):
                        ctx.ok("line_col_from_span|result.%d" % i, lc.where(b), " | ".join(x[-50:] for x in alts))
                    else:
                        ctx.bad("line_col_from_span|result.%d" % i, lc.where(b), "component %d of line_col_from_span's result is `%s`: not an element of the line-start table, one before it, or the text length" % (i, [a for a in alts if not boundary_expr(a)][0][:80]))
    # the line-start table holds 0 and positions just after an ASCII line terminator found by memchr2(CR, LF)
    cs = ctx.need(DIAG + "compute_line_starts")
    ctx.touch(cs)
    pushes = [c for c in cs.calls() if (c.callee or "").endswith("::push")]

    def facts_at(block, depth=0):
        """(text of a tested condition, outcomes) on every path to `block`; a named flag that is known true contributes what
        made it true (`let is_crlf = a && b && c; if is_crlf {..}`: on the true side all of a, b, c held)."""
        out = []
        for S, al in cs.constraints(block):
            d = cs.blocks[S]["t"]["d"]
            out.append((collapse_memchr(sh(ne(cs.deep(d)))), al))
            pl = (d.get("copy") or d.get("move")) if isinstance(d, dict) else None
            if pl is None or pl["p"] or 0 in al or depth > 2 or cs.locals[pl["l"]]["ty"].strip() != "bool":
                continue
            root = pl["l"]
            dd = cs.whole_defs(root)
            if len(dd) == 1 and dd[0][1] != "t" and dd[0][2]["rv"]["k"] == "use" and isinstance(dd[0][2]["rv"]["a"], dict) and (dd[0][2]["rv"]["a"].get("copy") or dd[0][2]["rv"]["a"].get("move")):
                root = (dd[0][2]["rv"]["a"].get("copy") or dd[0][2]["rv"]["a"].get("move"))["l"]
                dd = cs.whole_defs(root)
            live_defs = [(bd, kd, sd) for (bd, kd, sd) in dd if not (kd != "t" and sd["rv"]["k"] == "use" and isinstance(sd["rv"]["a"], dict) and sd["rv"]["a"].get("int") == 0)]
            if len(dd) > 1 and len(live_defs) == 1 and live_defs[0][1] != "t":
                bd, kd, sd = live_defs[0]
                out.append((collapse_memchr(sh(ne(cs.deep_rvalue(sd["rv"])))), [1]))
                out += facts_at(bd, depth + 1)
        return out
    alternatives = 0
    expanded = []
    for c in pushes:
        pl = (c.args[1].get("copy") or c.args[1].get("move")) if isinstance(c.args[1], dict) else None
        defs = cs.whole_defs(pl["l"]) if pl is not None and not pl["p"] else []
        # through one plain copy to a variable assigned in several arms (`let next_start = if crlf { idx + 2 } else { idx + 1 }`)
        if len(defs) == 1 and defs[0][1] != "t" and defs[0][2]["rv"]["k"] == "use" and isinstance(defs[0][2]["rv"]["a"], dict) and (defs[0][2]["rv"]["a"].get("copy") or defs[0][2]["rv"]["a"].get("move")) and not (defs[0][2]["rv"]["a"].get("copy") or defs[0][2]["rv"]["a"].get("move"))["p"]:
            d2 = cs.whole_defs((defs[0][2]["rv"]["a"].get("copy") or defs[0][2]["rv"]["a"].get("move"))["l"])
            if len(d2) > 1:
                defs = d2
        if len(defs) > 1 and all(kd != "t" for (_bd, kd, _sd) in defs):
            for (bd, kd, sd) in defs:
                expanded.append((c, sh(ne(cs.deep_rvalue(sd["rv"]))), bd))
        else:
            expanded.append((c, sh(ne(cs.deep(c.args[1]))), c.block))
    for c, raw, at_block in expanded:
        alternatives += 1
        t = collapse_memchr(raw)
        needles_ok = all(int(x) < 128 for pair in re.findall(r"memchr2\((\d+),(\d+),", raw) for x in pair) and ("memchr" not in raw or re.search(r"memchr2\(\d+,\d+,", raw))
        ordn = sum(1 for r in ctx.records if r["rule"] == ctx.rule and r["instance"].startswith("line-start|%s" % t))
        key = "line-start|%s#%d" % (t, ordn + 1)
        if t == "0":
            ctx.ok(key, cs.where(c.block), "first line starts at 0")
        elif t == "Add(M,1)" and needles_ok:
            ctx.ok(key, cs.where(c.block), "one past an ASCII terminator found by memchr2")
        elif t == "Add(M,2)" and needles_ok:
            facts = facts_at(at_block)
            if any(re.match(r"^Eq\(src\[Add\(M,1\)\],(10|13)\)$", f) and 0 not in al for f, al in facts):
                ctx.ok(key, cs.where(c.block), "two past the terminator, under src[idx+1] == LF")
            else:
                ctx.bad("line-start|Add(M,2)|unchecked", cs.where(c.block), "a line start is recorded two bytes after a terminator without testing that the byte after it is an ASCII terminator too: it can fall inside a multi-byte character")
        else:
            ctx.bad("line-start|%s" % t[:40], cs.where(c.block), "a line start `%s` is not 0 or one/two past an ASCII line terminator located by memchr2" % raw[:80])
    ctx.floor("line-start pushes", alternatives, 3)
    # spans are not computed outside the scanner: resolver, analyses, runtime and renderer only copy them (the parser is R3)
    m = 0
    for fn in ctx.lib.fns.values():
        if fn.file in ("src/syntax/scanner.rs", "src/syntax/parser.rs") or not fn.file.startswith("src/"):
            continue
        m += 1
        for b in sorted(fn.live):
            for s2 in fn.blocks[b]["s"]:
                rv = s2["rv"]
                if rv["k"] == "bin" and rv["op"] in ("Add", "Sub", "Mul", "Div", "AddWithOverflow", "SubWithOverflow", "MulWithOverflow", "Shr", "Shl"):
                    for o in (rv["a"], rv["b"]):
                        t = sh(ne(fn.expr(o, 6)))
                        if re.search(r"span\.(start|end)$", t):
                            ctx.bad("span-arithmetic|%s|%s" % (fn.id, rv["op"]), fn.where(b), "%s computes %s on a span component (%s) outside the scanner: the result is used as a source offset and need not be a character boundary" % (fn.id.split("::")[-1], rv["op"], t[:50]))
    if not any(r["rule"] == ctx.rule and r["status"] == "violation" and r["instance"].startswith("span-arithmetic") for r in ctx.records):
        ctx.ok("no-span-arithmetic-outside-scanner", "src", "%d bodies outside scanner/parser: spans are only copied and compared" % m)


PLACEHOLDER = "placeholder"


def r3b_parser_spans_are_ordered(ctx):
    """The parser only combines spans: start of one, end of another.  Tokens are consumed left to right, so the span whose
    start is used must have been obtained no later than the span whose end is used - otherwise start > end, and the renderer
    (which slices the source with it) panics."""
    def src_blocks(fn, op, now, depth=0, proj=None):
        """Blocks in which the span behind `op` was read from the token stream; PLACEHOLDER for a span that was not read at all
        (`Range::default()`, i.e. 0..0)."""
        pl = (op.get("move") or op.get("copy")) if isinstance(op, dict) else None
        if pl is None:
            return None
        root = pl["l"]
        if 0 < root <= fn.argc:
            # a by-value parameter is fixed at entry; a read through &mut self happens where it is written
            return {0} if all(e != "*" for e in pl["p"]) else {now}
        defs = fn.whole_defs(root)
        if not defs:
            return None
        fields = [e["f"] for e in pl["p"] if isinstance(e, dict) and "f" in e] if proj is None else proj
        out = set()
        for (b, k, st) in defs:
            if k == "t":
                cal = norm(st.get("res") or st.get("callee") or "") or ""
                if cal.endswith("::default") and "Range" in fn.locals[root]["ty"] + cal:
                    out.add(PLACEHOLDER)
                else:
                    out.add(b)
            elif st["rv"]["k"] == "use" and depth < 6:
                r = src_blocks(fn, st["rv"]["a"], b, depth + 1)
                out |= (r if r is not None else {b})
            elif st["rv"]["k"] == "agg" and st["rv"].get("adt") in (None, "tuple", "(tuple)", "") and fields and depth < 6 and str(fields[0]).isdigit() and int(fields[0]) < len(st["rv"]["ops"]):
                # a component of a tuple built here (`let (name, name_span) = match .. { .. => ("_", span) }`)
                r = src_blocks(fn, st["rv"]["ops"][int(fields[0])], b, depth + 1)
                out |= (r if r is not None else {b})
            else:
                out.add(b)
        return out
    n = 0
    for fn in [f for f in ctx.lib.fns.values() if f.file == "src/syntax/parser.rs" and "Parser" in f.id]:
        for b in sorted(fn.live):
            for st in fn.blocks[b]["s"]:
                rv = st["rv"]
                if not (rv["k"] == "agg" and str(rv.get("adt", "")).endswith("Range") and len(rv["ops"]) == 2):
                    continue
                n += 1
                ctx.touch(fn)
                A = src_blocks(fn, rv["ops"][0], b)
                B = src_blocks(fn, rv["ops"][1], b)
                short = fn.id.split("::")[-1]
                txt = "%s..%s" % (sh(ne(fn.expr(rv["ops"][0], 3)))[:30], sh(ne(fn.expr(rv["ops"][1], 3)))[:30])
                ordn = sum(1 for r in ctx.records if r["rule"] == ctx.rule and r["instance"].startswith("span-order|%s#" % short))
                if A is None or B is None:
                    ctx.bad("span-order|%s|unknown|%s" % (short, txt), fn.where(b), "cannot see where the bounds of the span `%s` come from" % txt)
                elif PLACEHOLDER in B and A - {PLACEHOLDER}:
                    ctx.bad("span-order|%s|placeholder-end|%s" % (short, re.sub(r"\s+", "", txt)), fn.where(b), "%s builds the span `%s` whose end can be the end of a placeholder span (Range::default(), 0..0) while its start is a position read from the token stream: start > end for every such input that does not begin at offset 0, and rendering the diagnostic slices the source with an inverted range (panic)" % (short, txt))
                elif PLACEHOLDER in A | B:
                    A2, B2 = A - {PLACEHOLDER}, B - {PLACEHOLDER}
                    if all(any(fn.dominates(a, bb) for a in A2) for bb in B2) or not A2:
                        ctx.ok("span-order|%s#%d" % (short, ordn + 1), fn.where(b), "%s: start is 0 or obtained no later than end" % txt)
                    else:
                        ctx.bad("span-order|%s|%s" % (short, re.sub(r"\s+", "", txt)), fn.where(b), "%s builds the span `%s` with a start that was read from the token stream after its end" % (short, txt))
                elif all(any(fn.dominates(a, bb) for a in A) for bb in B):
                    ctx.ok("span-order|%s#%d" % (short, ordn + 1), fn.where(b), "%s: start obtained no later than end" % txt)
                else:
                    ctx.bad("span-order|%s|%s" % (short, re.sub(r"\s+", "", txt)), fn.where(b), "%s builds the span `%s` with a start that was read from the token stream after its end: for every input that reaches this diagnostic start > end, and rendering it slices the source with an inverted range (panic)" % (short, txt))
    ctx.floor("spans built in the parser", n, 40)


def r9_bitset_indexes_agree(ctx):
    """Static checking indexes its liveness bit sets with (index / W, index % W); a helper with another W reaches past the last
    word for locals beyond its own width and panics inside the resolver on a valid program (shared with C03-R4d)."""
    from .c03 import r4d_bitset_arithmetic_agrees
    r4d_bitset_arithmetic_agrees(ctx)


def r2c_template_reads_in_bounds(ctx):
    """parse_template_segments walks the literal's bytes through a raw pointer.  Every byte it *reads* (`*ptr.add(e)`) is
    guarded by exactly `e < len` on the same expression: a missing guard reads past the literal, a guard that looks further
    than the read (`i + 2 < len` for a read at i + 1) silently drops the last possible position - an escape or a placeholder at
    the very end of the text is no longer recognised."""
    fn = ctx.need("syntax::parser::Parser::parse_template_segments")
    ctx.touch(fn)
    n = 0
    for c in fn.calls():
        cal = c.callee or ""
        if not (cal.endswith("::add") and ("ptr" in cal or "const_ptr" in cal or "mut_ptr" in cal)):
            continue
        if c.dest is None or c.dest["p"]:
            continue
        r = c.dest["l"]
        derefs = False
        for b in sorted(fn.live):
            for st in fn.blocks[b]["s"]:
                rv = st["rv"]
                for key in ("a", "b"):
                    o = rv.get(key)
                    pl = (o.get("copy") or o.get("move")) if isinstance(o, dict) else None
                    if pl is not None and pl["l"] == r and pl["p"] == ["*"]:
                        derefs = True
        if not derefs:
            continue    # pointer used as the start of a sub-slice, not read here
        n += 1
        idx = ne(fn.expr(c.args[1], 6))
        facts = cmp_facts(fn, c.block)
        st_, fact = upper_bound(facts, idx, ("var", "len"))
        ordn = sum(1 for r_ in ctx.records if r_["rule"] == ctx.rule and r_["instance"].startswith("template-read|%s#" % sh(idx)[:20]))
        key = "template-read|%s#%d" % (sh(idx)[:20], ordn + 1)
        if st_ == "ok":
            ctx.ok(key, fn.where(c.block), "*ptr.add(%s) under %s(%s, %s)" % (sh(idx), fact[0], sh(fact[1])[:20], sh(fact[2])[:10]))
        else:
            near = [(o, sh(a), sh(b)) for o, a, b, S in facts if "len" in (sh(a), sh(b))][:3]
            ctx.bad("template-read|%s|%s" % (sh(idx)[:20], "offbyone" if st_ == "offbyone" else "guard-mismatch"), fn.where(c.block), "the template parser reads the byte at `%s` without a dominating `%s < len` (bounds known here: %s): either the read can leave the literal, or the guard looks further than the read and the last position of the text is never examined (a `}}` or `{{` escape at the very end of a string stays doubled)" % (sh(idx), sh(idx), near))
    ctx.floor("raw byte reads in the template parser", n, 8)


BUMPERS_SEED = {"syntax::parser::Parser::bump"}


def r4_recovery_progress(ctx):
    P = "syntax::parser::Parser::"
    bodies = {f.id: f for f in ctx.lib.fns.values() if f.file == "src/syntax/parser.rs" and f.id.startswith(P) and "{closure" not in f.id}
    # functions that consume at least one token on every path that returns normally without hitting EOF: approximated by
    # "every path from entry to return passes a bump or a call to such a function" (least fixpoint)
    must = set(BUMPERS_SEED)
    changed = True
    while changed:
        changed = False
        for fid, fn in bodies.items():
            if fid in must:
                continue
            via = [c.block for c in fn.calls() if c.callee in must]
            if via and not (fn.reach([0], removed_nodes=via) & set(fn.exits())):
                must.add(fid)
                changed = True
    ps = ctx.need(P + "parse_statement")
    ctx.touch(ps)
    sy = ps.calls_to(P + "synchronize")
    bumps = [c for c in ps.calls() if c.callee == P + "bump"]
    for c in sy:
        if any(ps.dominates(bm.block, c.block) for bm in bumps):
            ctx.ok("fallback|bump-before-synchronize#%d" % c.block, ps.where(c.block), "the stray token is consumed before resynchronising")
        else:
            ctx.bad("fallback|no-bump|%s" % ps.id, ps.where(c.block), "parse_statement's error fallback resynchronises without consuming the offending token: a token that is itself a synchronisation point loops forever")
    # every loop in the parser consumes a token per iteration or leaves
    n_loops = 0
    for fid, fn in bodies.items():
        heads = [h for h in sorted(fn.live) if any(fn.dominates(h, p) for p, _ in fn.pred[h] if p in fn.live)]
        for h in heads:
            back = [p for p, _ in fn.pred[h] if p in fn.live and fn.dominates(h, p)]
            body = {h}
            st = list(back)
            while st:
                x = st.pop()
                if x in body:
                    continue
                body.add(x)
                for p, _ in fn.pred[x]:
                    if p in fn.live:
                        st.append(p)
            progress = {c.block for c in fn.calls() if c.block in body and c.callee in must}
            # a cycle through the head that avoids every progress block?
            starts = [j for _, j in fn.succ[h] if j in body]
            r = fn.reach(starts, removed_nodes=list(progress) + [h]) if starts else set()
            loops_back = any(p in r or p == h and False for p in back)
            is_iter = any((c.callee or "").endswith("::next") and c.block in body for c in fn.calls())
            n_loops += 1
            token_driven = any(c.callee in bodies or c.callee in must for c in fn.calls() if c.block in body) or \
                any("cur.token" in sh(ne(fn.expr({"copy": pl}, 3))) for bb2, pl in read_places(fn) if bb2 in body)
            if not token_driven:
                ctx.ok("loop|%s|bb%d|index-loop" % (fid.split("::")[-1], h), fn.where(h), "not token-driven (walks the bytes of one literal by index)")
                continue
            if not loops_back or is_iter:
                ctx.ok("loop|%s|bb%d" % (fid.split("::")[-1], h), fn.where(h), "every iteration consumes a token (or the loop walks a finite collection)")
            else:
                ctx.bad("loop-no-progress|%s" % fid, fn.where(h), "a loop in %s can go round without consuming a token: on malformed input the parser does not terminate" % fid.split("::")[-1])
    ctx.floor("parser loops examined", n_loops, 8)
    ctx.note("token-consuming parser functions (least fixpoint): %s" % sorted(x.split("::")[-1] for x in must))


def r8_local_ranges_cover_ids(ctx):
    """Per-function local-id ranges must cover every id allocated for the function.  Ids come from one global counter while
    function bodies nest (a nested body is resolved between two declarations of its parent), so a count-based range
    start..start+count is wrong; a span-based range is right by construction."""
    f = ctx.need("analysis::facts::ProgramFacts::push_local_with_kind")
    ctx.touch(f)
    writes = []
    for b in sorted(f.live):
        for s in f.blocks[b]["s"]:
            if any(isinstance(e, dict) and e.get("f") == "locals_len" for e in s["lhs"]["p"]):
                writes.append((b, sh(ne(f.deep_rvalue(s["rv"])))))
    if not writes:
        ctx.bad("locals-range|no-update", f.where(), "push_local_with_kind no longer maintains the function's local range")
        return
    counting = [w for w in writes if re.match(r"^Add\(.*locals_len,1\)$", w[1])]
    spanning = [w for w in writes if "len(self.locals)" in w[1] or "id" in w[1]]
    # can ids of two functions interleave?  check_stmt both declares locals of the current function and (through
    # check_function_body) resolves a nested body that pushes its own parameters/locals
    cs = ctx.lib.fns.get("resolver::Resolver::check_stmt")
    interleave = False
    if cs is not None:
        reach = ctx.lib.reachable_from(["resolver::Resolver::check_function_body"])
        interleave = any(c.callee == "resolver::Resolver::check_function_body" for c in cs.calls()) and \
            "analysis::facts::ProgramFacts::push_param" in {c.callee for r in reach if r in ctx.lib.fns for g in ctx.lib.family(r) for c in g.calls()} and \
            any(c.callee == "analysis::facts::ProgramFacts::push_local_decl" for c in cs.calls())
    if counting and interleave:
        ctx.bad("locals-range|count-not-span", f.where(counting[0][0]),
                "a function's local range is start..start+count (`%s`), but local ids come from one global counter and a nested function body is resolved between two declarations of its parent, so the parent's ids are not contiguous: liveness bitsets sized by the count are indexed out of bounds (resolver panic on a valid program with a 64-local function defined between two declarations) or alias another function's locals" % counting[0][1])
    elif spanning or not interleave:
        ctx.ok("locals-range|covers-ids", f.where(writes[0][0]), "range updated from the allocated id (%s)" % writes[0][1][:60])
    else:
        ctx.bad("locals-range|unrecognised|%s" % writes[0][1][:30], f.where(writes[0][0]), "cannot see that the local range covers the allocated id: `%s`" % writes[0][1])


def r5b_renderer_indexes_stay_inside(ctx):
    """Every checked index in diagnostics.rs (`haystack[i]`) follows from a dominating `i < len`; a position returned by
    memchr2 is in bounds once it has been compared unequal to the length (the search returns the length for "not found",
    otherwise an index below it).  `i <= len` in the place of `i < len` lets the one-past-the-end position through and the
    renderer panics while it prepares a diagnostic."""
    from .c13 import holds_lt, const_index_ok, len_alias
    n = 0
    for fn in sorted(ctx.lib.in_file("src/diagnostics.rs"), key=lambda f: (f.line, f.id)):
        for b in sorted(fn.live):
            t = fn.blocks[b]["t"]
            if t["k"] != "assert" or t.get("kind") != "BoundsCheck":
                continue
            n += 1
            ctx.touch(fn)
            ln = ne(fn.expr(t["ops"][0], 6))
            ix = ne(fn.expr(t["ops"][1], 6))
            arr = sh(ln).replace("len(", "").rstrip(")")
            text = "%s[%s]" % (arr, sh(ix))
            facts = cmp_facts(fn, b)
            bounds = [ln] + [("var", v) for v in ("len", "n") if len_alias(fn, v, arr)]
            verdict = "none"
            if ix[0] == "const" and isinstance(ix[1], int):
                if any(const_index_ok(facts, ix[1], sh(bd)) for bd in bounds):
                    verdict = "ok"
            else:
                for bd in bounds:
                    v = holds_lt(facts, ix, bd)
                    if v == "ok":
                        verdict = "ok"
                    elif v == "offbyone" and verdict != "ok":
                        verdict = "offbyone"
                dtxt = sh(ne(fn.deep(t["ops"][1])))
                m2 = re.match(r"^unwrap_or_else\(binary_search\((\w+),.*\),\{closure#\d+\}.*\)$", dtxt)
                if verdict != "ok" and m2 and m2.group(1) == arr:
                    # the result of a binary search of the same table: Ok(i) is below the length, Err(x) is an insertion point
                    # (<= length) that the fallback lowers by one; the table starts with 0 (checked by R5), so x >= 1
                    clo = [g for g in ctx.lib.closures_of(fn.id)]
                    if any(re.search(r"Sub\w*\(", g.dump()) for g in clo):
                        verdict = "ok"
                if verdict != "ok":
                    # the same search written as a `match`: Ok(i) is an index of the table, Err(x) an insertion point that is
                    # lowered by one
                    alts = [sh(ne(a)).replace(" ", "") for a in fn.alt_exprs(t["ops"][1], 6)]
                    pat_ok = re.compile(r"^binary_search\(%s,.*\)@Ok\.0$" % re.escape(arr))
                    pat_err = re.compile(r"^Sub\w*\(binary_search\(%s,.*\)@Err\.0,1\)$" % re.escape(arr))
                    if len(alts) >= 2 and all(pat_ok.match(a) or pat_err.match(a) for a in alts) and any(pat_ok.match(a) for a in alts):
                        verdict = "ok"
                if verdict != "ok" and "memchr" in dtxt:
                    # a search result: in bounds once it differs from the length
                    for op, a, bb, S in facts:
                        if {sh(a), sh(bb)} & {sh(ix)} and {sh(a), sh(bb)} & {sh(bd) for bd in bounds} and op in ("Ne", "Lt"):
                            verdict = "ok"
            key = "renderer-index|%s|%s" % (parent_fn(fn.id).split("::")[-1], text)
            if verdict == "ok":
                ctx.ok(key, fn.where(b), "index < length follows from the dominating tests")
            elif verdict == "offbyone":
                ctx.bad(key + "|offbyone", fn.where(b), "`%s` is guarded by `index <= len` where `index < len` is needed: for a text that ends exactly there the renderer reads one past the end and panics while preparing a diagnostic (no diagnostic is printed; an accepted program with a warning never runs)" % text)
            else:
                ctx.bad(key + "|unguarded", fn.where(b), "`%s` has no dominating test that implies index < len (%s)" % (text, [(o, sh(a)[:20], sh(bb)[:15]) for o, a, bb, S in facts][:5]))
    ctx.floor("checked indexes in the diagnostics renderer", n, 2)


def r5d_the_line_table_and_its_scan_agree(ctx):
    """compute_line_starts records the start of the next line and continues its search from there: in every branch (LF, CRLF,
    lone CR) the position pushed onto the table is the position the scan resumes at.  Resuming one byte earlier on CRLF finds
    the LF again and records the same line start twice, so every diagnostic on a CRLF source is shown on line 2k-1."""
    fn = ctx.lib.fns.get(DIAG + "compute_line_starts")
    if fn is None:
        return
    ctx.touch(fn)
    n = 0
    off = [i for i, l in enumerate(fn.locals) if l["name"] == "offset"]
    for c in fn.calls():
        if not (c.callee or "").endswith("Vec::push") or len(c.args) < 2:
            continue
        pushed = sh(ne(fn.deep(c.args[1], 8))).replace(" ", "")
        if pushed in ("0", "0_usize"):
            continue
        n += 1
        resumed = None
        b = c.target
        for _ in range(6):
            if b is None:
                break
            for st in fn.blocks[b]["s"]:
                if st["lhs"]["l"] in off and not st["lhs"]["p"]:
                    resumed = sh(ne(fn.deep_rvalue(st["rv"]))).replace(" ", "")
            t = fn.blocks[b]["t"]
            if resumed is not None or t["k"] not in ("goto", "assert", "drop"):
                break
            b = t["t"]
        key = "line-table|push=resume|%s" % re.sub(r"memchr2\([^)]*\)", "idx", pushed)[:20]
        if resumed == pushed:
            ctx.ok(key + "#%d" % n, fn.where(c.block), "records %s and resumes there" % pushed)
        else:
            ctx.bad(key + "|resumes-at|%s" % re.sub(r"memchr2\([^)]*\)", "idx", str(resumed))[:20], fn.where(c.block), "compute_line_starts records a line start at `%s` but resumes its search at `%s`: the same line break is found again and the line start recorded twice (every diagnostic of a CRLF source is shown on the wrong line), or a line break is skipped" % (pushed, resumed))
    ctx.floor("line starts recorded by compute_line_starts", n, 1)


def r5c_renderer_slices_run_forward(ctx):
    """Every `src[a..b]` the renderer takes is cut between positions whose order the locator guarantees: line start (third
    component of line_col_in) <= a span's start <= min(span end, line end) <= line end (fourth component).  All four are
    `usize`, so a destructuring that exchanges two of them type-checks; the slice then runs backwards and the renderer
    panics (`byte range starts at 20 but ends at 0`) instead of printing the diagnostic."""
    n = 0

    def rank(t):
        t = t.replace(" ", "")
        if re.search(r"^line_col_in\(.*\)\.2$", t):
            return 0
        if re.search(r"\.span\.start$", t):
            return 1
        if t.startswith("min(") and ".span.end" in t and re.search(r"line_col_in\(.*\)\.3\)$", t):
            return 2
        if re.search(r"^line_col_in\(.*\)\.3$", t):
            return 3
        return None

    fn = ctx.need(DIAG + "render_diagnostic")
    for g in [fn] + list(ctx.lib.closures_of(fn.id)):
        for c in g.calls():
            if not (c.callee or "").endswith("::index") or len(c.args) < 2:
                continue
            e = ne(g.deep(c.args[1], 10))
            if not (isinstance(e, tuple) and e[0] == "agg" and "Range" in str(e[1]) and len(e[3]) == 2):
                continue
            n += 1
            ctx.touch(g)
            a, b = sh(e[3][0]), sh(e[3][1])
            ra, rb = rank(a), rank(b)
            ordn = sum(1 for r in ctx.records if r["rule"] == ctx.rule and r["instance"].startswith("renderer-slice#"))
            if ra is not None and rb is not None and ra <= rb:
                ctx.ok("renderer-slice#%d" % (ordn + 1), g.where(c.block), "%s .. %s" % (("line start", "span start", "min(span end, line end)", "line end")[ra], ("line start", "span start", "min(span end, line end)", "line end")[rb]))
            else:
                names = ("line start", "span start", "min(span end, line end)", "line end")
                ctx.bad("renderer-slice|%s..%s" % (names[ra] if ra is not None else a[-20:], names[rb] if rb is not None else b[-20:]), g.where(c.block), "the renderer slices the source from `%s` to `%s`: these are not in the order the locator guarantees, the range runs backwards (or past the line) and slicing panics while a diagnostic is being prepared" % (a[-60:], b[-60:]))
    ctx.floor("source slices taken by render_diagnostic", n, 6)


def r10c_a_diagnostic_costs_its_own_text(ctx):
    """(Known finding D48.)  Every diagnostic quotes the *whole* source line it lies on: the line is sliced from line start to
    line end and copied (tabs expanded) into arena memory that is not given back, once per diagnostic.  With one statement per
    line that is a few bytes; on a one-line layout the line is the file, so N warnings cost N x file size - a valid 22 KB
    program with 2400 unused variables runs when it has one statement per line and aborts with `memory allocation failed`
    when the same tokens sit on one line (C10), and 5000 lexical errors on a 10 KB line abort instead of being reported."""
    fn = ctx.need(DIAG + "render_diagnostic")
    ctx.touch(fn)
    k = 0
    for g in [fn] + list(ctx.lib.closures_of(fn.id)):
        for c in g.calls():
            if not (c.callee or "").endswith("::index") or len(c.args) < 2:
                continue
            e = ne(g.deep(c.args[1], 10))
            if not (isinstance(e, tuple) and e[0] == "agg" and "Range" in str(e[1]) and len(e[3]) == 2):
                continue
            a, b = sh(e[3][0]).replace(" ", ""), sh(e[3][1]).replace(" ", "")
            if re.search(r"^line_col_in\(.*\)\.2$", a) and re.search(r"^line_col_in\(.*\)\.3$", b):
                # who gets the whole line?
                users = [u for u in g.calls() if u.block != c.block and any("index(src" in sh(ne(g.deep(x, 6))).replace(" ", "") and ".2" in sh(ne(g.deep(x, 12))) and ".3" in sh(ne(g.deep(x, 12))) for x in u.args)]
                copies = [u for u in users if (u.callee or "").split("::")[-1] in ("expand_tabs", "from_str", "push_str", "to_owned", "to_string")]
                k += 1
                which = "label-line" if "label" in a or "next(" in a else "primary-line"
                if copies:
                    ctx.bad("render-cost|whole-line-copied-per-diagnostic|%s" % which, g.where(c.block), "render_diagnostic copies the whole source line (%s) for every diagnostic into memory the arena keeps: N diagnostics on one line of length L cost N x L, so the same tokens that are reported (or run) with one statement per line abort with `memory allocation failed` on a one-line layout" % (copies[0].callee or "").split("::")[-1])
                else:
                    ctx.ok("render-cost|%s" % which, g.where(c.block), "the whole line is not copied per diagnostic")
    ctx.floor("whole-line quotations in render_diagnostic", k, 1)


def r13_type_pre_inference_runs_a_counted_number_of_rounds(ctx):
    """Static checking terminates.  Return types feed each other through calls and their inference is not monotone (`return
    g(n) na 1` / `return f(n)` alternate between bool and dynamic for ever), so the rounds of pre-inference must be counted -
    every loop around a call of infer_function_return_type leaves through the exhaustion of an iterator, not only through a
    `nothing changed` test."""
    from .c03 import natural_loop
    n = 0
    # the routine that drives the rounds, and private helpers carved out of it (all of whose callers are the routine or such a
    # helper): a call of one of them stands for the inference it performs
    INF = "resolver::Resolver::infer_function_return_type"
    PRE = "resolver::Resolver::predeclare_block_functions"
    inner = {INF}
    for _ in range(3):
        for fid, fn in ctx.lib.fns.items():
            if fn.file != "src/resolver.rs" or "{closure" in fid or fid in inner or fid == PRE:
                continue
            if any(c.callee in inner for c in fn.calls()):
                callers = {parent_fn(c.fn.id) for c in ctx.lib.callers_of(fid)}
                if callers and callers <= ({PRE} | inner):
                    inner.add(fid)
    for fid, fn in sorted(ctx.lib.fns.items()):
        if fn.file != "src/resolver.rs":
            continue
        if parent_fn(fid) != PRE and parent_fn(fid) not in inner:
            continue
        calls = [c for c in fn.calls() if c.callee in inner]
        if not calls:
            continue
        ctx.touch(fn)
        for H in sorted(fn.live):
            nl = natural_loop(fn, H)
            if not nl or not any(c.block in nl for c in calls):
                continue
            n += 1
            # exits of this loop: edges from a block in the loop to a block outside it
            counted = False
            for b in sorted(nl):
                t = fn.blocks[b]["t"]
                if t["k"] != "switch":
                    continue
                outs = [j for _lab, j in fn.succ[b] if j not in nl and set(fn.reach([j])) & set(fn.exits())]
                if not outs:
                    continue        # leaves only towards a panic / an unreachable arm
                d = sh(ne(fn.deep(t["d"], 8)))
                if re.search(r"\bnext\(", d):
                    counted = True
            key = "pre-inference|%s|loop@%s" % (parent_fn(fid).split("::")[-1], "outer" if len(nl) == max(len(natural_loop(fn, h)) for h in fn.live if natural_loop(fn, h) and any(c.block in natural_loop(fn, h) for c in calls)) else "inner")
            if counted:
                ctx.ok(key, fn.where(H), "leaves when its iterator is exhausted")
            else:
                ctx.bad(key + "|uncounted", fn.where(H), "%s repeats return-type inference until nothing changes, with no bound on the rounds: the inference is not monotone, so for mutually recursive functions whose types alternate the checker never terminates (and, allocating each round, ends in an abort)" % parent_fn(fid).split("::")[-1])
    ctx.floor("loops around return-type pre-inference", n, 2)


def r14_the_preflight_bounds_what_the_analyses_allocate(ctx):
    """Static checking must not abort on a valid program of a few hundred kilobytes.  The analyses size their bit sets by
    blocks x locals and are only started when the preflight's estimate of that work is below its cap; the estimate and the
    allocation have to count in the same unit.  Shared with C18-R2b (shape of the derived bounds: (2 x blocks + ops) x
    locals, locals counted as locals) and C18-R7 (bit sets sized in words of the count)."""
    from .c18 import r2b_derived_bounds_shape, r7_bit_sets_are_sized_in_words
    r2b_derived_bounds_shape(ctx)
    r7_bit_sets_are_sized_in_words(ctx)


def r15_the_renderer_can_copy_any_character(ctx):
    """Rendering a diagnostic copies the quoted source line character by character (expand_tabs -> ArenaString::push): the
    encode buffer has to hold four bytes, or any diagnostic - a mere warning - on a line with an emoji panics and a valid
    program is not run.  Shared with C13-R6 (encode buffers)."""
    from .c13 import encode_buffers
    encode_buffers(ctx)


def r16_formatting_a_token_terminates(ctx):
    """Diagnostics name the offending token through its Display impl.  An arm of that impl that formats `self` with `{self}`
    calls itself: the message for a token that reaches the arm (a reserved word without an arm of its own) recurses until the
    native stack overflows.  Decided on the call graph: the token / diagnostic formatting routines of the front end are not on
    a cycle."""
    cg = ctx.lib.callgraph()
    n = 0
    for fid, fn in sorted(ctx.lib.fns.items()):
        if not (fn.file in ("src/syntax/token.rs", "src/diagnostics.rs") and ("fmt::Display" in fid or "fmt::Debug" in fid)) or "{closure" in fid:
            continue
        n += 1
        ctx.touch(fn)
        seen, st = set(), list(cg.get(fid, {}))
        cyc = False
        while st:
            x = st.pop()
            if x == fid:
                cyc = True
                break
            if x in seen or x not in ctx.lib.fns:
                continue
            seen.add(x)
            st.extend(cg.get(x, {}))
        if cyc:
            ctx.bad("format-recursion|%s" % fid.split(" as ")[0].lstrip("<").split("::")[-1], fn.where(), "%s can call itself (an arm formats `self` with its own Display): naming such a token in a diagnostic overflows the native stack instead of reporting" % fid)
        else:
            ctx.ok("format-terminates|%s#%d" % (fid.split(" as ")[0].lstrip("<").split("::")[-1], n), fn.where(), "not on a call cycle")
    ctx.floor("formatting routines of tokens and diagnostics", n, 1)


def r17_the_count_pass_ends_blocks_where_the_lowering_does(ctx):
    """The CFG is built in two passes that must agree on the number of blocks (a debug assertion, and the sizing of the tables):
    the counting pass ends the current block after `comot` / `next` whether or not a loop surrounds them, exactly as the
    lowering does - a stray jump is diagnosed by the checker, not by a panic of the CFG builder."""
    from .c02 import _dispatch_arm
    fn = ctx.lib.fns.get("analysis::cfg::CountFunctionBuilder::count_stmt")
    if fn is None:
        return
    ctx.touch(fn)
    n = 0
    for kind in ("Break", "Continue"):
        arm = None
        if True:
            # (also for an or-pattern arm) the region reached from this variant's edge
            for S in sorted(fn.live):
                if fn.blocks[S]["t"]["k"] == "switch":
                    si = fn.switch_info(S)
                    if si["kind"] == "discr" and si["ty"].endswith("parser::Stmt"):
                        for lab, tgt in fn.succ[S]:
                            if kind in label_names(fn, S, [lab], si):
                                arm = fn.reach([tgt], removed_nodes=[S])
                        break
        if not arm:
            continue
        aggs = [st for b in sorted(arm) for st in fn.blocks[b]["s"] if st["rv"]["k"] == "agg" and str(st["rv"].get("adt", "")).endswith("CountCursor")]
        # only the aggregates that belong to this arm alone (before the arms join)
        own = [st for b in sorted(arm) for st in fn.blocks[b]["s"] if st["rv"]["k"] == "agg" and str(st["rv"].get("adt", "")).endswith("CountCursor") and any(kind in label_names(fn, S2, al, fn.switch_info(S2)) for S2, al in fn.constraints(b) if fn.switch_info(S2)["kind"] == "discr")]
        for st in own or aggs[:1]:
            n += 1
            v = st["rv"]["ops"][0]
            if isinstance(v, dict) and v.get("int") == 0:
                ctx.ok("count-pass|%s|ends-block" % kind, fn.where(), "has_block = false after the jump")
            else:
                ctx.bad("count-pass|%s|block-continues|%s" % (kind, sh(ne(fn.deep(v, 6)))[:20]), fn.where(), "the counting pass lets the current block continue after `%s` when `%s`, while the lowering always ends it: the two passes disagree on the number of blocks and the checker panics (`Count pass and CFG lowering should agree`) on a stray jump followed by another statement, instead of reporting it" % ("comot" if kind == "Break" else "next", sh(ne(fn.deep(v, 6)))[:40]))
    ctx.floor("jump arms of the counting pass", n, 1)


def r18_marker_widths_are_measured_in_columns(ctx):
    """The caret line and the label underline are as wide as the flagged text *looks*: both counts come from visual_col (tab
    stops, display width), never from a byte length - or the underline is longer than the carets by one column per extra byte
    of every non-ASCII character in the span."""
    fn = ctx.need(DIAG + "render_diagnostic")
    ctx.touch(fn)
    n = 0
    for c in fn.calls():
        if not (c.callee or "").endswith("::render_label_line") or len(c.args) < 3:
            continue
        for i in (1, 2):
            t = sh(ne(fn.deep(c.args[i], 12)))
            n += 1
            if "visual_col(" in t or (i == 1 and re.search(r"line_col_in\(.*\)\.1$", t)):
                ctx.ok("marker-width|label-line|arg%d#%d" % (i, n), fn.where(c.block), "measured with visual_col")
            else:
                ctx.bad("marker-width|label-line|arg%d|%s" % (i, re.sub(r"\(.*", "", t)[:16]), fn.where(c.block), "render_diagnostic sizes a label marker with `%s`, not with visual_col: for a span that contains non-ASCII characters the underline and the carets have different widths" % t[:60])
    ctx.floor("marker widths of label lines", n, 2)


def r10_front_end_memory_is_linear(ctx):
    """The arenas give nothing back until the stage ends, so anything the front end allocates per token or per diagnostic must
    be sized by that token / diagnostic - never by the whole text.  Two places where size times count meets the arena's
    capacity on inputs of a few kilobytes: (a) the table of line starts (one word per line, built by a scan of the whole text)
    is built once per rendering, not once per located position; (b) a buffer the scanner reserves for one token is sized by
    what that token has consumed - not by the rest of the file, and not by a distance found by searching ahead (the rest of
    the line is the rest of the file on a one-line layout)."""
    from .c03 import natural_loop
    cls = ctx.lib.fns.get(DIAG + "compute_line_starts")
    n = 0
    if cls is not None:
        def in_loop(fn, block):
            return any(block in natural_loop(fn, H) for H in sorted(fn.live) if fn.dominates(H, block))

        def per_item(fn, block, depth=0, seen=()):
            if in_loop(fn, block):
                return "%s calls it inside a loop" % parent_fn(fn.id).split("::")[-1]
            if depth >= 4 or fn.id in seen:
                return None
            for c in ctx.lib.callers_of(parent_fn(fn.id)) if "{closure" in fn.id else ctx.lib.callers_of(fn.id):
                why = per_item(c.fn, c.block, depth + 1, seen + (fn.id,))
                if why:
                    return "%s <- %s" % (parent_fn(fn.id).split("::")[-1], why)
            # a closure runs as often as the adaptor it is handed to calls it: look at where it is built
            if "{closure" in fn.id:
                for par, b, _rv in ctx.lib.closure_sites(fn):
                    why = per_item(par, b, depth + 1, seen + (fn.id,))
                    if why:
                        return why
                return "%s runs inside an iterator adaptor" % fn.id.split("::")[-2]
            return None
        for c in ctx.lib.callers_of(cls.id):
            n += 1
            ctx.touch(c.fn)
            why = per_item(c.fn, c.block)
            key = "line-table|%s" % parent_fn(c.fn.id).split("::")[-1]
            if why:
                ctx.bad(key + "|per-position", c.fn.where(c.block), "the line-start table - a scan of the whole text, and memory proportional to it that the arena never gives back - is rebuilt for every position that is located (%s): rendering costs text size x number of diagnostics, and a 4 KB text with 2000 lexical errors, or a valid 8 KB program with 500 unused variables, aborts with 'memory allocation failed' instead of being reported or run" % why)
            else:
                ctx.ok(key, c.fn.where(c.block), "built once per rendering")
        ctx.floor("builders of the line-start table", n, 1)
    m = 0
    for fn in lexer_bodies(ctx):
        for c in fn.calls():
            short = (c.callee or "").split("::")[-1]
            if short not in ("reserve", "reserve_exact", "with_capacity_in", "with_capacity"):
                continue
            size = sh(ne(fn.deep(c.args[1] if short.startswith("reserve") else c.args[0])))
            m += 1
            ctx.touch(fn)
            key = "token-buffer|%s|%s" % (parent_fn(fn.id).split("::")[-1], short)
            rest = re.search(r"len\(index\(self\.src,Range(?:From)?::Range(?:From)?\{[^}]*self\.pos[^}]*\}\)\)|Sub\(self\.len,self\.pos\)|\blen\(bytes\)|len\(self\.src\)|self\.len\b", size)
            ahead = re.search(r"memchr2?\(", size)
            if rest and not ahead:
                ctx.bad(key + "|rest-of-input", fn.where(c.block), "%s reserves `%s` bytes for one token: the rest of the file, taken from an arena that gives nothing back - every string literal with an escape costs 'remaining file size', so a valid 86 KB program of `shout(\"a\\n\")` lines aborts in the lexer with 'memory allocation failed'" % (parent_fn(fn.id).split("::")[-1], size[:60]))
            elif ahead:
                # a distance found by searching ahead (to the end of the line, to the next quote of *some* literal) is not a
                # bound on this token: it is the rest of the line, and on a one-line layout the rest of the file
                ctx.bad(key + "|search-ahead", fn.where(c.block), "%s reserves `%s` bytes for one token - a distance found by searching ahead of the cursor (the rest of the line), not the bytes the token has consumed: with many escaped literals on one line the reservations add up to (file size)^2 / 2 and the same program that runs with one statement per line aborts with 'memory allocation failed' when written on a single line" % (parent_fn(fn.id).split("::")[-1], size[:60]))
            else:
                ctx.ok(key, fn.where(c.block), "sized by `%s`" % size[:50])
    if m == 0:
        ctx.ok("token-buffer|none", "src/syntax/scanner.rs", "the scanner reserves nothing ahead of a token: buffers grow with the bytes copied into them")


def r12_checker_indexes_follow_a_length_test(ctx):
    """The static checker looks at `args.args[k]` to type-check an argument.  A wrong argument count is reported a few lines
    earlier but does not stop the checker, so each such index needs its own test that the argument exists: is_empty() == false
    for k = 0, or a comparison that puts the length above k.  (`c.env()` with the test written `<= 2` indexes an empty list:
    the checker panics instead of reporting the count.)"""
    n = 0
    for fn in sorted(ctx.lib.in_file("src/resolver.rs"), key=lambda f: (f.line, f.id)):
        for b in sorted(fn.live):
            t = fn.blocks[b]["t"]
            if t["k"] != "assert" or t.get("kind") != "BoundsCheck":
                continue
            ln = ne(fn.expr(t["ops"][0], 6))
            ix = ne(fn.expr(t["ops"][1], 6))
            if not (ix[0] == "const" and isinstance(ix[1], int)):
                continue
            k = ix[1]
            n += 1
            ctx.touch(fn)
            arr = sh(ln).replace("len(", "").rstrip(")")
            ok = False
            for S, al in fn.constraints(b):
                si = fn.switch_info(S)
                d = sh(ne(fn.deep(fn.blocks[S]["t"]["d"])))
                if si["kind"] == "call" and (si["callee"] or "").split("::")[-1] == "is_empty" and arr in d and set(al) == {0} and k == 0 and not (si.get("threaded") and si.get("weak_label") == 0):
                    ok = True
            for op, a, bb, S in cmp_facts(fn, b):
                for (o, x, y) in ((op, a, bb), ({"Lt": "Gt", "Le": "Ge", "Gt": "Lt", "Ge": "Le", "Eq": "Eq", "Ne": "Ne"}[op], bb, a)):
                    if sh(x) == sh(ln) and y[0] == "const" and isinstance(y[1], int):
                        if (o == "Ge" and y[1] >= k + 1) or (o == "Gt" and y[1] >= k) or (o == "Eq" and y[1] >= k + 1) or (o == "Ne" and y[1] == 0 and k == 0):
                            ok = True
            if not ok and k == 0:
                # an or-pattern with a guard (`A | B if !args.is_empty()`) tests once per alternative: the arm body is entered
                # from several tests, none of which dominates it - every way in must be such a test
                dec = [(S, lab) for S, lab in fn.deciding(b) if not fn.dominates(S, b) or True]
                entries = [(S, lab) for S, lab in dec if fn.switch_info(S)["kind"] == "call" and (fn.switch_info(S)["callee"] or "").split("::")[-1] == "is_empty"]
                preds = {p_ for p_, _l in fn.pred[b]}
                hops = 0
                frontier = {b}
                # walk back over straight-line blocks to the tests that feed the body
                feeders = set()
                seenb = set()
                st_ = [b]
                while st_ and hops < 40:
                    x = st_.pop()
                    hops += 1
                    if x in seenb:
                        continue
                    seenb.add(x)
                    for p_, lab in fn.pred[x]:
                        if fn.blocks[p_]["t"]["k"] == "switch":
                            feeders.add((p_, lab))
                        else:
                            st_.append(p_)
                if feeders and all(fn.switch_info(S)["kind"] == "call" and (fn.switch_info(S)["callee"] or "").split("::")[-1] == "is_empty" and lab == 0 and arr in sh(ne(fn.deep(fn.blocks[S]["t"]["d"]))) for S, lab in feeders):
                    ok = True
            ordn = sum(1 for r in ctx.records if r["rule"] == ctx.rule and r["instance"].startswith("checker-index|%s|%s[%d]#" % (parent_fn(fn.id).split("::")[-1], arr, k)))
            key = "checker-index|%s|%s[%d]#%d" % (parent_fn(fn.id).split("::")[-1], arr, k, ordn + 1)
            if ok:
                ctx.ok(key, fn.where(b), "the element is known to exist")
            else:
                ctx.bad(key.rsplit("#", 1)[0] + "|unguarded", fn.where(b), "the checker reads `%s[%d]` on a path on which nothing says the list has that many elements (%s): a call with too few arguments - already reported, but checking goes on - makes the checker itself panic with an index out of bounds" % (arr, k, [(o, sh(x)[:20], sh(y)[:6]) for o, x, y, S in cmp_facts(fn, b)][:3]))
    # the same read spelled with a checked accessor (`args.first()`, `args.get(k)`) cannot be out of range at all
    for fn in sorted(ctx.lib.in_file("src/resolver.rs"), key=lambda f: (f.line, f.id)):
        for c in fn.calls():
            if (c.callee or "").split("::")[-1] in ("first", "get") and "slice" in (c.callee or "") and c.args and ".args" in sh(ne(fn.deep(c.args[0]))):
                n += 1
                ctx.ok("checker-index|%s|checked-accessor@%s" % (parent_fn(fn.id).split("::")[-1], (c.callee or "").split("::")[-1]), fn.where(c.block), "a checked accessor: no index to be out of range")
    ctx.floor("constant indexes into argument lists in the checker", n, 4)


def r11_search_offsets_are_added_to_the_base_they_were_found_from(ctx):
    """memchr / memchr2 return an offset *into the slice they were given*.  The scanner searches `src[P..]` and turns the offset
    into a position by adding it - to P, the start of that slice, and to nothing else.  Added to another position (the start
    of the literal instead of the current cursor, which differ once an escape has moved the cursor) the result lands somewhere
    in the text, possibly inside a multi-byte character, and becomes a span end and the new cursor."""
    n = 0
    for fn in lexer_bodies(ctx) + [f for f in ctx.lib.in_file("src/diagnostics.rs")]:
        searches = {}
        for c in fn.calls():
            if not re.search(r"memchr\d?$", c.callee or "") or c.dest is None or c.dest["p"]:
                continue
            hay = sh(ne(fn.deep(c.args[-2]))) if len(c.args) >= 2 else ""
            off = sh(ne(fn.deep(c.args[-1]))) if c.args else "0"
            m = re.match(r"^index\((.+),Range(?:From)?::Range(?:From)?\{([^,}]+)(?:,.*)?\}\)$", hay)
            if m:
                base = m.group(2)
            else:
                base = None      # the whole text (offset argument carries the start): positions, not offsets
            searches[c.dest["l"]] = (base, hay, off, c.block)
        if not searches:
            continue
        # locals that are plain copies of a search result
        alias = {l: l for l in searches}
        for _ in range(3):
            for b in fn.live:
                for st in fn.blocks[b]["s"]:
                    a = st["rv"].get("a") if st["rv"]["k"] == "use" else None
                    pl = (a.get("move") or a.get("copy")) if isinstance(a, dict) else None
                    if pl is not None and not pl["p"] and pl["l"] in alias and not st["lhs"]["p"]:
                        alias[st["lhs"]["l"]] = alias[pl["l"]]
        for b in sorted(fn.live):
            for st in fn.blocks[b]["s"]:
                rv = st["rv"]
                if rv["k"] != "bin" or not rv["op"].startswith("Add"):
                    continue
                for x, y in ((rv["a"], rv["b"]), (rv["b"], rv["a"])):
                    pl = (x.get("move") or x.get("copy")) if isinstance(x, dict) else None
                    if pl is None or pl["p"] or pl["l"] not in alias:
                        continue
                    base, hay, off, sb = searches[alias[pl["l"]]]
                    if base is None:
                        continue
                    n += 1
                    ctx.touch(fn)
                    other = sh(ne(fn.expr(y, 3)))
                    short = parent_fn(fn.id).split("::")[-1]
                    ordn = sum(1 for r in ctx.records if r["rule"] == ctx.rule and r["instance"].startswith("search-offset|%s#" % short))
                    if other == base:
                        ctx.ok("search-offset|%s#%d" % (short, ordn + 1), fn.where(b), "offset found in src[%s..] added to %s" % (base, other))
                    else:
                        ctx.bad("search-offset|%s|%s-not-%s" % (short, other[:20], base[:20]), fn.where(b), "%s adds an offset found by searching src[%s..] to `%s`: the offset counts from %s, so the sum is a position only when the two coincide (here they differ as soon as an escape sequence has moved the cursor) - otherwise it can fall inside a multi-byte character and is then used as a span end and as the new cursor" % (short, base, other, base))
    ctx.floor("search offsets turned into positions", n, 2)


RULES = [("C07-R1", r1_cursor_discipline), ("C07-R2", r2_unchecked_reslicing), ("C07-R2b", r2b_byte_reads_in_bounds), ("C07-R2c", r2c_template_reads_in_bounds), ("C07-R5", r5_renderer_boundaries), ("C07-R5c", r5c_renderer_slices_run_forward), ("C07-R5d", r5d_the_line_table_and_its_scan_agree), ("C07-R10c", r10c_a_diagnostic_costs_its_own_text), ("C07-R13", r13_type_pre_inference_runs_a_counted_number_of_rounds), ("C07-R14", r14_the_preflight_bounds_what_the_analyses_allocate), ("C07-R15", r15_the_renderer_can_copy_any_character), ("C07-R16", r16_formatting_a_token_terminates), ("C07-R17", r17_the_count_pass_ends_blocks_where_the_lowering_does), ("C07-R18", r18_marker_widths_are_measured_in_columns),
         ("C07-R3", r3_parser_position_free), ("C07-R3b", r3b_parser_spans_are_ordered), ("C07-R4", r4_recovery_progress), ("C07-R8", r8_local_ranges_cover_ids), ("C07-R9", r9_bitset_indexes_agree), ("C07-R5b", r5b_renderer_indexes_stay_inside), ("C07-R10", r10_front_end_memory_is_linear), ("C07-R12", r12_checker_indexes_follow_a_length_test), ("C07-R11", r11_search_offsets_are_added_to_the_base_they_were_found_from)]

EXPLANATION = (
    "R1 cursor discipline: every write to Lexer.pos is classified by the shape of its right-hand side and must carry its "
    "justification - a unit (or two-byte) advance needs a fresh, edge-dominating (or all-alternatives) test that the skipped "
    "byte(s) are ASCII, possibly in the caller's epoch; a character advance must add len_utf8 of the character decoded at the "
    "cursor; memchr advances need ASCII needles over a haystack starting at the cursor; restores copy a snapshot; the word "
    "jump follows a byte-wise match of an ASCII literal. R2: unchecked UTF-8 re-slices use only cursor snapshots as bounds. "
    "R2b: every byte read of the source is dominated by index < len. R3: no parser arithmetic or branch depends on a span. "
    "R4: the statement fallback consumes a token before resynchronising and every parser loop consumes a token per round "
    "(least fixpoint of token-consuming functions). R8: per-function local-id ranges cover every id allocated for the "
    "function although ids of nested functions interleave. Decides mechanism integrity on every path of the scanner/parser; "
    "does not decide that spans are ordered and inside the text for every input, renderer arithmetic, or termination in general."
)
EXPLANATION += (
    " R3b: every span built in the parser takes its start from a span obtained no later (dominance of the reads) than the one it takes its end from. R9 (= C03-R4d): the liveness bit-set helpers agree on the word width."
)
EXPLANATION += (
    ' R2c: every byte parse_template_segments reads through its raw pointer (`*ptr.add(e)`) is guarded by exactly `e < len` on the same expression - a missing guard reads past the literal, a wider one drops the last position.'
)
EXPLANATION += (
    ' R3b also: the end of a combined span never comes from a placeholder span (`Range::default()`, 0..0) while its start is a position read from the token stream (tuple components and plain copies are followed to where the span was obtained).'
)
EXPLANATION += (
    ' R10: front-end memory is linear in the input - (a) no builder of the line-start table is reached per located position (inside a loop, or from a function or closure that is, four call levels), (b) no scanner buffer is reserved with a size derived from the rest of the input (D38, D39 found and repaired). R5b accepts an index that is the result of a binary search of the same table.'
)
EXPLANATION += (
    ' R11: an offset returned by memchr / memchr2 for a search of src[P..] is turned into a position by adding it to P and to nothing else. R12: every constant index into an argument list in the checker follows a test that the element exists (is_empty() == false on every way into an or-pattern arm, or a comparison that puts the length above the index).'
)
ASSUMPTIONS = ["the input is a &str (valid UTF-8)", "memchr2 returns an index <= haystack length"]
TRUSTED = ["rustc nightly MIR", "nsx exporter", "nsverif expression reconstruction / staleness computation"]
NONTRIVIAL = "one obligation per cursor write, call-site justification, byte read, unchecked re-slice, parser loop; distinct = distinct site"
EXPLANATION += (
    ' R10(b) now also rejects a per-token reservation sized by a distance found by searching ahead of the cursor (memchr to the end of the line): that is the rest of the file on a one-line layout (D41, a defect of my own D39 repair).'
)
EXPLANATION += (
    ' Round 6: R5c every `src[a..b]` of the renderer is cut between positions whose order the locator guarantees (line start <= span start <= min(span end, line end) <= line end). R10c (known finding D48): the whole source line is copied per diagnostic. R13: the rounds of return-type pre-inference are counted. R14 shares C18-R2b / R7 (the preflight estimate and the bit-set allocation count in the same unit).'
)
EXPLANATION += (
    ' Round 7: R15 shares C13-R6 (encode buffers); R16 the Display / Debug routines of tokens and diagnostics are not on a call cycle; R17 the counting pass of the CFG ends the current block after `comot` / `next` unconditionally, like the lowering; R18 label marker widths come from visual_col.'
)

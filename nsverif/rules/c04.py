"""C04 — names resolve lexically; functions are visible throughout their block (mechanism integrity)."""
import re
from ..guards import ne, sh
from ..mir import parent_fn
from ..panics import label_names
from .c18 import r3b_facts_independent_of_plan

RT = "runtime::Runtime::"
NAME_KEYED = {"lookup_var", "lookup_var_ref", "lookup_var_mut", "assign_var", "define_var", "lookup_func_by_name"}
ID_KEYED = {"lookup_local", "lookup_local_ref", "lookup_local_mut", "assign_bound_local", "define_bound_local", "lookup_func_by_id"}
QUERIES = ("bound_expr_local", "bound_stmt_local", "bound_string_segment_local", "user_call_callee")


_PROG = {}


def fn_closures(fn):
    prog = _PROG.get("lib")
    return {k: g for k, g in prog.fns.items() if k.startswith(fn.id + "::{closure")} if prog else {}


def option_switches(fn):
    """Switches on the Option returned by a bound_* / user_call_callee query: {S: (si, query text)}"""
    out = {}
    for S in sorted(fn.live):
        if fn.blocks[S]["t"]["k"] != "switch":
            continue
        si = fn.switch_info(S)
        if si["kind"] == "discr" and si["ty"].endswith("Option"):
            d = sh(ne(fn.deep(fn.blocks[S]["t"]["d"])))
            if "and_then(facts(" in d and "closure" in d:
                # self.facts().and_then(|facts| facts.<query>(node)): the query sits in the closure
                for k, g in fn_closures(fn).items():
                    for c in g.calls():
                        if (c.callee or "").split("::")[-1] in QUERIES and k.split("::")[-1].strip("{}") in d:
                            d += " " + (c.callee or "").split("::")[-1] + "("
            if any(q + "(" in d for q in QUERIES):
                out[S] = (si, d)
    return out


def r1_id_directed_lookup(ctx):
    n = 0
    _PROG["lib"] = ctx.lib
    for fn in sorted([f for f in ctx.lib.in_file("src/runtime.rs") if f.id.startswith(RT)], key=lambda f: f.line):
        sw = option_switches(fn)
        for c in fn.calls():
            short = (c.callee or "").split("::")[-1]
            if not (c.callee or "").startswith(RT) or short not in NAME_KEYED | ID_KEYED:
                continue
            if parent_fn(fn.id).split("::")[-1] in NAME_KEYED | ID_KEYED:
                continue  # the accessors' own helpers
            n += 1
            ctx.touch(fn)
            want = "None" if short in NAME_KEYED else "Some"
            ok = False
            for S, (si, d) in sw.items():
                for lab, _ in fn.succ[S]:
                    if label_names(fn, S, [lab], si) == {want} and fn.edge_dominated(c.block, S, [lab]):
                        ok = True
            key = "%s|%s" % (parent_fn(fn.id).split("::")[-1], short)
            ordn = sum(1 for r in ctx.records if r["rule"] == ctx.rule and r["instance"].split("#")[0] == key)
            key = "%s#%d" % (key, ordn + 1)
            if ok:
                ctx.ok(key, fn.where(c.block), "%s-keyed access only on the %s outcome of the binding query" % ("name" if want == "None" else "id", want))
            else:
                ctx.bad("%s|%s|not-%s" % (parent_fn(fn.id), short, want), fn.where(c.block),
                        ("the name-keyed accessor %s is reachable although the resolver recorded a binding for this node: the variable is then found by name up the dynamic scope stack (a same-named variable of the caller can be picked)" if want == "None" else
                         "the id-keyed accessor %s is reachable without a binding id from the resolver") % short)
    ctx.floor("keyed accessor call sites", n, 18)
    r3b_facts_independent_of_plan(ctx)


def r2_innermost_first(ctx):
    n = 0
    targets = [RT + x for x in ("lookup_env", "lookup_local_env", "lookup_local_mut", "lookup_var_mut", "lookup_func_by_name", "lookup_func_by_id",
                                "assign_var", "assign_bound_local", "define_var", "define_bound_local")] + \
        ["resolver::Resolver::lookup_var_info", "resolver::Resolver::lookup_func"]
    for fid in targets:
        fam = ctx.lib.family(fid)
        for g in fam:
            ctx.touch(g)
        f = fam[0]
        iters = [c for g in fam for c in g.calls() if (c.callee or "").split("::")[-1] in ("iter", "iter_mut") and ("slice" in (c.callee or "") or "Vec" in (c.callee or ""))]
        revs = [c for g in fam for c in g.calls() if (c.callee or "").endswith("Iterator::rev")]
        outer = [c for c in f.calls() if (c.callee or "").split("::")[-1] in ("iter", "iter_mut") and "last" not in sh(ne(f.deep(c.args[0]))) and any(w in sh(ne(f.deep(c.args[0]))) for w in ("self.env", "self.function_scopes", "self.variable_scopes"))]
        last = [c for c in f.calls() if (c.callee or "").split("::")[-1] in ("last", "last_mut") and any(w in sh(ne(f.deep(c.args[0]))) for w in ("self.env", "self.function_scopes", "self.variable_scopes"))]
        n += 1
        short = fid.split("::")[-1]
        if outer:
            # the scope-level traversal must be reversed
            o = outer[0]
            fed = [r for r in revs if r.fn is f and sh(ne(f.deep(r.args[0]))).startswith(("iter(", "iter_mut(")) and any(w in sh(ne(f.deep(r.args[0]))) for w in ("self.env", "self.function_scopes", "self.variable_scopes"))]
            if fed:
                ctx.ok("innermost|%s" % short, f.where(o.block), "scope stack walked with .rev()")
            else:
                ctx.bad("innermost|%s|scopes-not-reversed" % short, f.where(o.block), "%s walks the scope stack outermost-first: an outer declaration shadows an inner one" % short)
        elif last:
            ctx.ok("innermost|%s" % short, f.where(last[0].block), "operates on the innermost scope (last/last_mut)")
        else:
            ctx.bad("innermost|%s|no-traversal" % short, f.where(), "%s no longer walks the scope stack" % short)
            continue
        # within a scope the latest entry wins (rev) - required for the value stacks; the resolver's function scope is
        # searched forward because duplicates in one block are rejected
        inner_rev = len(revs) >= (2 if outer else 1)
        if short in ("lookup_func",):
            continue
        if inner_rev:
            ctx.ok("latest-in-scope|%s" % short, f.where(), "entries of one scope searched newest-first")
        else:
            ctx.bad("latest-in-scope|%s" % short, f.where(), "%s searches the entries of a scope oldest-first" % short)
    ctx.floor("scope traversals", n, 10)


def closure_key_shape(clo):
    """What a sort/search key closure extracts from its element: text of the returned expression."""
    for b in sorted(clo.live):
        t = clo.blocks[b]["t"]
        if t["k"] == "call" and t["dest"]["l"] == 0:
            return sh(ne(clo.deep({"copy": {"l": 0, "p": []}})))
    for b in sorted(clo.live):
        for s in clo.blocks[b]["s"]:
            if s["lhs"]["l"] == 0 and not s["lhs"]["p"]:
                return sh(ne(clo.deep_rvalue(s["rv"])))
    return "?"


def r3_sorted_tables(ctx):
    F = "analysis::facts::ProgramFacts::"
    fin = ctx.need(F + "finalize_pointer_bindings")
    ctx.touch(fin)
    sorts = {}
    clos = {k: f for k, f in ctx.lib.fns.items() if k.startswith(F + "finalize_pointer_bindings::{closure")}
    for c in fin.calls():
        if (c.callee or "").split("::")[-1] == "sort_by_key":
            table = sh(ne(fin.deep(c.args[0]))).replace("self.", "")
            ctext = sh(ne(fin.expr(c.args[1], 3)))
            cid = None
            for k in clos:
                if k.split("::")[-1].strip("{}") in ctext:
                    cid = k
            sorts[table] = closure_key_shape(clos[cid]) if cid else "?"
    searches = 0
    for fid, f in sorted(ctx.lib.fns.items()):
        if not fid.startswith(F) or "{closure" in fid:
            continue
        for c in f.calls():
            if (c.callee or "").split("::")[-1] != "binary_search_by_key":
                continue
            searches += 1
            ctx.touch(f)
            table = sh(ne(f.deep(c.args[0]))).replace("self.", "")
            ctext = sh(ne(f.expr(c.args[2], 3)))
            kc = [k for k in ctx.lib.fns if k.startswith(fid + "::{closure") and k.split("::")[-1].strip("{}") in ctext]
            shape = closure_key_shape(ctx.lib.fns[kc[0]]) if kc else "?"
            if table not in sorts:
                ctx.bad("search-unsorted|%s" % table, f.where(c.block), "%s binary-searches `%s`, which finalize_pointer_bindings never sorts: lookups miss existing bindings and the runtime falls back to name-keyed access" % (fid.split("::")[-1], table))
            elif sorts[table] != shape:
                ctx.bad("search-key-mismatch|%s" % table, f.where(c.block), "`%s` is sorted by `%s` but searched by `%s`" % (table, sorts[table], shape))
            else:
                ctx.ok("table|%s" % table, f.where(c.block), "sorted and searched by `%s`" % shape)
    ctx.floor("binary-searched binding tables", searches, 7)
    # one entry per *node*: an insertion into a pointer-keyed table may be skipped only when that very node is already there
    npush = 0
    for fid, f in sorted(ctx.lib.fns.items()):
        if not fid.startswith(F) or "{closure" in fid:
            continue
        for c in f.calls():
            if not (c.callee or "").endswith("Vec::push"):
                continue
            table = sh(ne(f.deep(c.args[0]))).replace("self.", "")
            if table not in sorts:
                continue
            npush += 1
            ctx.touch(f)
            keyfield = re.search(r"binding\.(\w+)", sorts[table] or "")
            keyfield = keyfield.group(1) if keyfield else None
            guards = [(S, al) for S, al in f.constraints(c.block) if f.switch_info(S)["kind"] in ("call", "bin", "discr", "multi", "place")]
            if not guards:
                ctx.ok("insert|%s|unconditional" % table, f.where(c.block), "every recorded node gets an entry")
                continue
            bad = None
            for S, al in guards:
                si = f.switch_info(S)
                d = sh(ne(f.deep(f.blocks[S]["t"]["d"])))
                m = re.match(r"^any\(iter\(self\.%s\),(\{closure#\d+\})::\{(.*)\}\)$" % re.escape(table), d)
                if not (si["kind"] == "call" and m and al == [0]):
                    bad = "guarded by `%s`" % d[:60]
                    break
                clo = ctx.lib.fns.get(fid + "::" + m.group(1))
                cmps = [x for x in clo.calls()] if clo else []
                idents = [x for x in cmps if x.callee in ("std::ptr::eq", "core::ptr::eq") and sh(ne(clo.deep(x.args[0]))) == "binding.%s" % keyfield]
                others = [x for x in cmps if x not in idents] + [st for b in sorted(clo.live) for st in clo.blocks[b]["s"] if st["rv"]["k"] == "bin" and st["rv"]["op"] in ("Eq", "Ne")] if clo else ["?"]
                if not idents or others:
                    bad = "the duplicate test compares %s instead of the identity of the `%s` node" % ([sh(ne(clo.deep_rvalue(st["rv"])))[:40] if isinstance(st, dict) else (st.callee or "?").split("::")[-1] for st in others][:2] if clo else "?", keyfield)
                    break
            if bad:
                ctx.bad("insert|%s|not-by-node" % table, f.where(c.block), "%s skips recording a node in `%s` although that node has no entry yet (%s): the runtime finds no binding for it and resolves it by name on the dynamic scope stack" % (fid.split("::")[-1], table, bad))
            else:
                ctx.ok("insert|%s|dedup-by-node" % table, f.where(c.block), "skipped only when ptr::eq(binding.%s, node) already holds" % keyfield)
    ctx.floor("insertions into pointer-keyed binding tables", npush, 5)
    rs = ctx.need("resolver::Resolver::resolve")
    ctx.touch(rs)
    cb = rs.calls_to("resolver::Resolver::check_block")
    fi = rs.calls_to(F + "finalize_pointer_bindings")
    ew = rs.calls_to("resolver::Resolver::emit_analysis_warnings")
    if cb and fi and ew and rs.dominates(cb[0].block, fi[0].block) and rs.dominates(fi[0].block, ew[0].block):
        ctx.ok("finalize-order", rs.where(fi[0].block), "check_block -> finalize_pointer_bindings -> emit_analysis_warnings")
    else:
        ctx.bad("finalize-order", rs.where(), "the binding tables are not finalized (sorted) after resolution and before they are searched")


def paired(fn, push_calls, pop_calls, label, ctx, err_ok=True):
    """Every normal path executes the pushes before the pops, and as many pops as pushes."""
    if not push_calls or not pop_calls:
        ctx.bad("%s|missing" % label, fn.where(), "%s: push=%d pop=%d" % (label, len(push_calls), len(pop_calls)))
        return
    pushb = [c.block for c in push_calls]
    popb = [c.block for c in pop_calls]
    exits = set(fn.exits())
    # a return without a pop after the push (ignoring `?` error propagation paths)
    errb = [c.block for c in fn.calls() if "from_residual" in (c.callee or "")]
    r = fn.reach_from_succ(pushb[-1], removed_nodes=popb + (errb if err_ok else []))
    leak = bool(r & exits)
    # two pops on one path
    double = any(p2 in fn.reach_from_succ(p1) for p1 in popb for p2 in popb if p1 != p2) and len(push_calls) == 1
    if leak:
        ctx.bad("%s|scope-leak" % label, fn.where(pushb[-1]), "%s: a path returns after the push without the matching pop (the scope of an inner block stays visible)" % label)
    elif double:
        ctx.bad("%s|double-pop" % label, fn.where(popb[0]), "%s: two pops can run on one path" % label)
    else:
        ctx.ok(label, fn.where(pushb[0]), "push/pop paired on every path")


def r4_scope_discipline(ctx):
    cb = ctx.need("resolver::Resolver::check_block")
    ctx.touch(cb)
    for field in ("scope_stack", "variable_scopes", "function_scopes"):
        pushes = [c for c in cb.calls() if (c.callee or "").endswith("Vec::push") and sh(ne(cb.deep(c.args[0]))) == "self." + field]
        pops = [c for c in cb.calls() if (c.callee or "").endswith("Vec::pop") and sh(ne(cb.deep(c.args[0]))) == "self." + field]
        paired(cb, pushes, pops, "resolver-block|%s" % field, ctx)
    pre = cb.calls_to("resolver::Resolver::predeclare_block_functions")
    st = cb.calls_to("resolver::Resolver::check_stmt")
    if pre and st and all(cb.dominates(pre[0].block, s.block) for s in st):
        ctx.ok("resolver-block|predeclare-first", cb.where(pre[0].block), "functions of the block are predeclared before any statement is checked")
    else:
        ctx.bad("resolver-block|predeclare-first", cb.where(), "statements of a block can be checked before the block's functions are predeclared: forward references stop resolving")
    pushes = [c for c in cb.calls() if (c.callee or "").endswith("Vec::push") and sh(ne(cb.deep(c.args[0]))) == "self.function_scopes"]
    if pre and pushes and cb.dominates(pushes[0].block, pre[0].block):
        ctx.ok("resolver-block|predeclare-in-own-scope", cb.where(pre[0].block), "predeclaration happens after the block's function scope is pushed")
    else:
        ctx.bad("resolver-block|predeclare-in-own-scope", cb.where(), "functions are predeclared into the enclosing block's scope (visible outside their block)")
    fb = ctx.need("resolver::Resolver::check_function_body")
    ctx.touch(fb)
    pushes = [c for c in fb.calls() if (c.callee or "").endswith("Vec::push") and sh(ne(fb.deep(c.args[0]))) in ("self.variable_scopes", "self.scope_stack")]
    pops = [c for c in fb.calls() if (c.callee or "").endswith("Vec::pop") and sh(ne(fb.deep(c.args[0]))) in ("self.variable_scopes", "self.scope_stack")]
    if len(pushes) == len(pops) == 2:
        ctx.ok("resolver-function|parameter-scope", fb.where(), "parameter scope pushed and popped")
    else:
        ctx.bad("resolver-function|parameter-scope", fb.where(), "parameter scope pushes=%d pops=%d" % (len(pushes), len(pops)))
    # runtime
    eb = ctx.need(RT + "exec_block_with_flow")
    ctx.touch(eb)
    ps = eb.calls_to(RT + "push_scope_with_capacity")
    hs = eb.calls_to(RT + "hoist_block_functions")
    ex = eb.calls_to(RT + "exec_stmt")
    pp = eb.calls_to(RT + "pop_scope")
    if ps and hs and ex and eb.dominates(ps[0].block, hs[0].block) and all(eb.dominates(hs[0].block, e.block) for e in ex):
        ctx.ok("runtime-block|push-hoist-exec", eb.where(hs[0].block), "push_scope -> hoist_block_functions -> statements")
    else:
        ctx.bad("runtime-block|push-hoist-exec", eb.where(), "a block's functions are not hoisted into its own scope before its statements run")
    paired(eb, ps, pp, "runtime-block|scope", ctx)
    efc = ctx.need(RT + "eval_function_call")
    ctx.touch(efc)
    paired(efc, efc.calls_to(RT + "push_scope_with_capacity"), efc.calls_to(RT + "pop_scope"), "runtime-call|parameter-scope", ctx)
    # both stacks move together
    for fid, calls in ((RT + "push_scope_with_capacity", ("self.env", "self.function_scopes")), (RT + "pop_scope", ("self.env", "self.function_scopes"))):
        f = ctx.need(fid)
        ctx.touch(f)
        op = "push" if "push" in fid else "pop"
        touched = {sh(ne(f.deep(c.args[0]))) for c in f.calls() if (c.callee or "").endswith("Vec::" + op)}
        if set(calls) <= touched:
            ctx.ok("runtime|%s-both-stacks" % op, f.where(), "variables and functions scopes move together")
        else:
            ctx.bad("runtime|%s-both-stacks" % op, f.where(), "%s touches only %s" % (fid.split("::")[-1], sorted(touched)))
    # declarations go to the innermost scope
    for fid in (RT + "define_var", RT + "define_bound_local", RT + "register_function"):
        f = ctx.need(fid)
        ctx.touch(f)
        if any((c.callee or "").split("::")[-1] == "last_mut" for c in f.calls()):
            ctx.ok("declare-innermost|%s" % fid.split("::")[-1], f.where(), "into last_mut()")
        else:
            ctx.bad("declare-innermost|%s" % fid.split("::")[-1], f.where(), "%s does not declare into the innermost scope" % fid.split("::")[-1])
    # redeclaration in the same block rebinds the same slot: define_* search the current scope first
    for fid in (RT + "define_var", RT + "define_bound_local"):
        f = ctx.need(fid)
        ow = f.calls_to(RT + "overwrite_slot")
        push = [c for c in f.calls() if (c.callee or "").endswith("Vec::push")]
        if ow and push:
            ctx.ok("redeclare-rebinds|%s" % fid.split("::")[-1], f.where(ow[0].block), "existing slot of the current scope is overwritten, otherwise a new slot is pushed")
        else:
            ctx.bad("redeclare-rebinds|%s" % fid.split("::")[-1], f.where(), "%s no longer rebinds an existing slot of the current scope" % fid.split("::")[-1])


def r4b_arguments_belong_to_the_caller(ctx):
    """Argument expressions are evaluated in the caller's scope: all of them before the callee's parameter scope exists.  Once
    that scope is pushed, nothing but the binding of the already computed values happens until the body runs (an argument
    evaluated later would see the half-built scope of the *next* activation - under recursion its earlier parameters - and an
    error in it would leave the scope pushed)."""
    f = ctx.need(RT + "eval_function_call")
    ctx.touch(f)
    pushes = [c for c in f.calls() if (c.callee or "").endswith("Runtime::push_scope_with_capacity") or (c.callee or "").endswith("Runtime::push_scope")]
    body = [c for c in f.calls() if (c.callee or "").endswith("Runtime::exec_block_with_flow")]
    if not pushes or not body:
        ctx.bad("call|shape", f.where(), "cannot see the parameter scope push / the body execution in eval_function_call")
        return
    region = f.reach_from_succ(pushes[0].block, removed_nodes=[c.block for c in body])
    late = [c for c in f.calls() if c.block in region and (c.callee or "").split("::")[-1] in ("eval_expr", "eval_function_call", "eval_member_call", "eval_builtin_call")]
    if late:
        ctx.bad("call|argument-evaluated-in-callee-scope", f.where(late[0].block), "eval_function_call evaluates an argument after the callee's parameter scope has been pushed: the argument's variables are looked up with the new activation's parameters already in place (ids are per function, so under recursion `f(n minus 1, n)` reads the new n), and an error in the argument returns with the scope still pushed")
    else:
        ctx.ok("call|arguments-before-scope", f.where(pushes[0].block), "no evaluation between the push of the parameter scope and the body")
    # and the scope is popped on every path that follows the body, error or not
    pops = [c for c in f.calls() if (c.callee or "").endswith("Runtime::pop_scope")]
    r = f.reach_from_succ(body[0].block, removed_nodes=[c.block for c in pops])
    if r & set(f.exits()):
        ctx.bad("call|scope-not-popped", f.where(body[0].block), "a path from the body's execution to the end of eval_function_call does not pop the parameter scope")
    else:
        ctx.ok("call|scope-popped", f.where(pops[0].block) if pops else f.where(), "pop_scope on every path after the body (before `?`)")


def r4c_initialiser_sees_the_old_scope(ctx):
    """`make x get <expr>`: the initialiser is checked (and its names resolved) before x is declared, so an x inside it is the
    outer x - or an error when there is none - never the variable being declared."""
    cs = ctx.need("resolver::Resolver::check_stmt")
    ctx.touch(cs)
    S = None
    for cand in sorted(cs.live):
        if cs.blocks[cand]["t"]["k"] == "switch":
            si = cs.switch_info(cand)
            if si["kind"] == "discr" and "parser::Stmt" in si["ty"]:
                S = (cand, si)
                break
    if S is None:
        ctx.bad("declare|no-dispatch", cs.where(), "check_stmt does not dispatch on the statement kind")
        return
    S, si = S
    arm = set()
    for lab, tgt in cs.succ[S]:
        if label_names(cs, S, [lab], si) == {"Assign"}:
            arm = {b for b in cs.live if cs.edge_dominated(b, S, [lab])} | {tgt}
    init = [c for c in cs.calls() if c.block in arm and (c.callee or "").endswith("Resolver::check_expr") and sh(ne(cs.deep(c.args[1]))).endswith("@Assign.expr")]
    decl = [c for c in cs.calls() if c.block in arm and ((c.callee or "").endswith("ProgramFacts::push_local_decl") or ((c.callee or "").endswith("Vec::push") and "variable_scopes" in sh(ne(cs.deep(c.args[0])))) or (c.callee or "").endswith("ProgramFacts::record_stmt_local"))]
    if not init or not decl:
        ctx.bad("declare|shape", cs.where(), "cannot see the initialiser check / the declaration in the Assign arm (%d/%d)" % (len(init), len(decl)))
        return
    late = [d for d in decl if not any(cs.dominates(i.block, d.block) and i.block != d.block for i in init)]
    if late:
        ctx.bad("declare|visible-in-own-initialiser", cs.where(late[0].block), "the variable of `make x get <expr>` is declared (%s) before its initialiser has been checked: an x inside the initialiser resolves to the variable being declared - a program that uses an undeclared name there is accepted, and a shadowing declaration `make x get x add 1` reads itself instead of the outer x" % (late[0].callee or "").split("::")[-1])
    else:
        ctx.ok("declare|initialiser-first", cs.where(init[0].block), "check_expr(initialiser) dominates %d declaration actions" % len(decl))


def r4d_declarations_stay_in_their_block(ctx):
    """`make x` creates (or rebinds) x in the block being executed and nowhere else: define_bound_local / define_var look for
    an existing slot only in the innermost scope (env.last_mut()), never along the scope stack - an activation further out may
    hold a slot with the same id (recursion) or name, and overwriting it would let a callee's declaration change its caller's
    variable."""
    for name in ("define_bound_local", "define_var"):
        f = ctx.need(RT + name)
        fam = ctx.lib.family(f.id)
        for g in fam:
            ctx.touch(g)
        walks = []
        for g in fam:
            for c in g.calls():
                last = (c.callee or "").split("::")[-1]
                if last in ("iter", "iter_mut", "into_iter", "rev") and c.args:
                    t = sh(ne(g.deep(c.args[0])))
                    if re.search(r"(^|[(&*])self\.env\)?$", t) or t in ("self.env", "&self.env", "&mut self.env", "*self.env"):
                        walks.append((g, c, t))
        lasts = [c for g in fam for c in g.calls() if (c.callee or "").split("::")[-1] in ("last_mut", "last") and "self.env" in sh(ne(g.deep(c.args[0])))]
        if walks:
            g, c, t = walks[0]
            ctx.bad("declare|%s|walks-scope-stack" % name, g.where(c.block), "%s iterates over the whole scope stack when it looks for the slot to rebind: with two live activations of one function (recursion) the inner `make x` overwrites the outer activation's x and creates no variable of its own" % name)
        elif lasts:
            ctx.ok("declare|%s|innermost-only" % name, f.where(lasts[0].block), "looks only at env.last_mut()")
        else:
            ctx.bad("declare|%s|shape" % name, f.where(), "cannot see which scope %s declares into" % name)


def r5_recorded_is_consumed(ctx):
    """Every binding kind the resolver records is the one the runtime asks for on the same node kind."""
    pairs = [
        ("record_expr_local", "resolver::Resolver::check_expr", "Var", "bound_expr_local", RT + "eval_expr", "Var"),
        ("record_string_segment_local", "resolver::Resolver::check_expr", "String", "bound_string_segment_local", RT + "eval_string_expr", None),
        ("record_stmt_local", "resolver::Resolver::check_stmt", "Assign", "bound_stmt_local", RT + "exec_stmt", "Assign"),
        ("record_stmt_local", "resolver::Resolver::check_stmt", "AssignExisting", "bound_stmt_local", RT + "exec_stmt", "AssignExisting"),
        ("record_user_call", "resolver::Resolver::check_expr", "Call", "user_call_callee", RT + "eval_function_call", None),
    ]
    for rec, rfn, rvar, qry, cfn, cvar in pairs:
        rf = ctx.need(rfn)
        cf = ctx.need(cfn)
        ctx.touch(rf)
        ctx.touch(cf)

        def in_arm(fn, call_short, variant):
            hits = []
            fam = ctx.lib.family(fn.id)
            for g in fam:
                for c in g.calls():
                    if (c.callee or "").split("::")[-1] != call_short:
                        continue
                    if variant is None or g is not fn:
                        hits.append(c)
                        continue
                    for S, al in fn.constraints(c.block):
                        si = fn.switch_info(S)
                        if si["kind"] == "discr" and ("parser::Expr" in si["ty"] or "parser::Stmt" in si["ty"]) and variant in label_names(fn, S, al, si) and len(label_names(fn, S, al, si)) == 1:
                            hits.append(c)
            return hits
        r_hits = in_arm(rf, rec, rvar)
        c_hits = in_arm(cf, qry, cvar)
        key = "%s@%s->%s" % (rec, rvar, qry)
        if r_hits and c_hits:
            ctx.ok(key, rf.where(r_hits[0].block), "recorded in the resolver's %s arm, consumed by %s" % (rvar, cfn.split("::")[-1]))
        elif not r_hits:
            ctx.bad(key + "|not-recorded", rf.where(), "the resolver no longer records a binding for %s nodes (%s): the runtime falls back to name lookup up the dynamic scope stack" % (rvar, rec))
        else:
            ctx.bad(key + "|not-consumed", cf.where(), "%s no longer asks for the binding the resolver records (%s)" % (cfn.split("::")[-1], qry))
    # the record must carry the id found by the lexical lookup on that path
    ce = ctx.need("resolver::Resolver::check_expr")
    for c in ce.calls():
        if (c.callee or "").split("::")[-1] == "record_expr_local":
            src = sh(ne(ce.deep(c.args[2])))
            if "lookup_var_info" in src:
                ctx.ok("record-carries-lexical-id", ce.where(c.block), "id comes from lookup_var_info on the same name")
            else:
                ctx.bad("record-carries-lexical-id", ce.where(c.block), "record_expr_local is given `%s`, not the id found by the lexical lookup" % src[:60])


def r5b_record_unconditional(ctx):
    """Whenever the lexical lookup of a name succeeds on a node kind whose binding the runtime consumes, the binding is recorded
    on *every* path that follows the success - not only for some owners / kinds of variables.  A node left without a binding
    is looked up by name on the dynamic scope stack at run time (callers' variables included)."""
    n = 0
    RECS = ("record_stmt_local", "record_expr_local", "record_string_segment_local")
    for root in ("resolver::Resolver::check_stmt", "resolver::Resolver::check_expr"):
        for fn in ctx.lib.family(ctx.need(root).id):
            ctx.touch(fn)
            for S in sorted(fn.live):
                if fn.blocks[S]["t"]["k"] != "switch":
                    continue
                si = fn.switch_info(S)
                if si["kind"] != "discr" or not si["ty"].endswith("Option"):
                    continue
                d = sh(ne(fn.deep(fn.blocks[S]["t"]["d"])))
                if not d.startswith("discr(lookup_var_info("):
                    continue
                some = [(lab, j) for lab, j in fn.succ[S] if "Some" in label_names(fn, S, [lab], si)]
                if not some:
                    continue
                labs = [lab for lab, j in some]
                recs = [c for c in fn.calls() if (c.callee or "").split("::")[-1] in RECS and fn.edge_dominated(c.block, S, labs)]
                if not recs:
                    continue    # a lookup made for another purpose (type inference)
                n += 1
                arm = "/".join(sorted({x for S2, al in fn.constraints(S) for si2 in [fn.switch_info(S2)] if si2["kind"] == "discr" and ("parser::Expr" in si2["ty"] or "parser::Stmt" in si2["ty"]) for x in label_names(fn, S2, al, si2)})) or "?"
                ordn = sum(1 for r in ctx.records if r["rule"] == ctx.rule and r["instance"].startswith("record-on-every-path|%s|%s" % (fn.id.split("::")[-1], arm)))
                key = "record-on-every-path|%s|%s#%d" % (fn.id.split("::")[-1], arm, ordn + 1)
                via = {c.block for c in recs}
                r = fn.reach([j for lab, j in some], removed_nodes=via)
                # leaving the success region without having recorded: reaching a return, or a block that is no longer under
                # the Some edge (loop back / join)
                escaped = sorted(b for b in r if b in set(fn.exits()) or not fn.edge_dominated(b, S, labs))
                if escaped:
                    ctx.bad("record-conditional|%s|%s|%s" % (fn.id.split("::")[-1], arm, recs[0].callee.split("::")[-1]), fn.where(recs[0].block),
                            "in the %s arm the binding found by lookup_var_info is recorded only on some paths (%s can be skipped): the nodes left unbound are resolved by name on the run-time scope stack, i.e. dynamically - a same-named variable of a caller is read or written instead of the lexically enclosing one" % (arm, recs[0].callee.split("::")[-1]))
                else:
                    ctx.ok(key, fn.where(recs[0].block), "every path after a successful lookup passes %s" % recs[0].callee.split("::")[-1])
    ctx.floor("successful-lookup regions that record a binding", n, 3)


def r5c_query_on_the_variable_node(ctx):
    """bound_expr_local is keyed by the address of the Expr::Var node the resolver recorded.  Asking it about any other node
    (an enclosing Index expression, a copy) finds nothing and silently switches that access to dynamic name lookup."""
    n = 0

    def var_matched(fn, block, text):
        for S, al in fn.constraints(block):
            si = fn.switch_info(S)
            if si["kind"] == "discr" and "parser::Expr" in si["ty"] and sh(ne(fn.deep(fn.blocks[S]["t"]["d"]))) == "discr(%s)" % text:
                if label_names(fn, S, al, si) == {"Var"}:
                    return True
        return False
    fl = ctx.need(RT + "flatten_index_target")
    ctx.touch(fl)
    fl_ok = False
    for b in sorted(fl.live):
        for st in fl.blocks[b]["s"]:
            if st["lhs"]["l"] == 0 and not st["lhs"]["p"] and st["rv"]["k"] == "agg":
                node = sh(ne(fl.deep(st["rv"]["ops"][0])))
                name = sh(ne(fl.deep(st["rv"]["ops"][1])))
                if var_matched(fl, b, node) and name == "%s@Var.0" % node:
                    fl_ok = True
                    ctx.ok("flatten_index_target|returns-var-node", fl.where(b), "returns (%s, %s, ..) under %s matched as Expr::Var" % (node, name, node))
                else:
                    ctx.bad("flatten_index_target|returns-var-node", fl.where(b), "flatten_index_target returns `%s` as the base node and `%s` as its name, but `%s` is not the node matched as Expr::Var at that point: the binding query made with it finds nothing and every write through an index chain falls back to dynamic name lookup" % (node, name, node))
    if not fl_ok and not any(r["rule"] == ctx.rule and r["status"] == "violation" for r in ctx.records):
        ctx.bad("flatten_index_target|shape", fl.where(), "cannot see the (node, name, indices) result of flatten_index_target")
    for fn in sorted([f for f in ctx.lib.in_file("src/runtime.rs") if f.id.startswith(RT)], key=lambda f: f.line):
        for c in fn.calls():
            if (c.callee or "").split("::")[-1] != "bound_expr_local":
                continue
            n += 1
            ctx.touch(fn)
            x = sh(ne(fn.deep(c.args[1])))
            short = fn.id.split("::")[-1]
            ordn = sum(1 for r in ctx.records if r["rule"] == ctx.rule and r["instance"].startswith("query-node|%s#" % short))
            key = "query-node|%s#%d" % (short, ordn + 1)
            if var_matched(fn, c.block, x):
                ctx.ok(key, fn.where(c.block), "asked about `%s`, matched as Expr::Var here" % x[:40])
            elif x.startswith("flatten_index_target(") and x.endswith(".0"):
                ctx.ok(key, fn.where(c.block), "asked about the base node returned by flatten_index_target")
            else:
                ctx.bad("query-node|%s|%s" % (short, x[:30]), fn.where(c.block), "bound_expr_local is asked about `%s`, which is not known to be an Expr::Var node at this point: no binding is found and the access is resolved by name on the run-time scope stack" % x[:60])
    ctx.floor("bound_expr_local queries", n, 6)


def r6_hoisting_asks_the_right_table(ctx):
    """A block's functions are hoisted unless the plan says the definition is removable; that answer comes from the table of
    function definitions, not from the table of statements (shared with C03-R3b)."""
    from .c03 import r3b_plan_queries_read_their_own_table
    r3b_plan_queries_read_their_own_table(ctx)


SIBLINGS = [("define_var", "define_bound_local"), ("assign_var", "assign_bound_local"), ("lookup_var_mut", "lookup_local_mut"),
            ("lookup_var", "lookup_local"), ("lookup_var_ref", "lookup_local_ref"), ("lookup_env", "lookup_local_env")]


def r7_name_and_id_variants_agree(ctx):
    """Every variable operation exists twice - keyed by name (programs resolved without facts) and keyed by the resolver's
    local id.  The two variants implement one semantics: same scope walk (direction, innermost-only or whole stack), same
    promotion and slot hand-over, same failure.  Their call sequences, with the arguments spelled out and the key normalised,
    are compared pairwise; a one-sided change (one variant searching the scope stack the other way round, one forgetting to
    promote) shows as a difference, whichever side it is on."""
    def signature(fn):
        fam = [fn] + sorted(ctx.lib.closures_of(fn.id), key=lambda g: g.id)
        out = []
        for g in fam:
            for c in g.calls():
                short = (c.callee or "?").split("::")[-1]
                # the calls that carry the semantics: how the scopes are walked, what is copied, what is handed over
                if short not in ("iter", "iter_mut", "rev", "last", "last_mut", "first", "first_mut", "find", "rfind", "position", "rposition", "find_map",
                                 "promote", "detach", "overwrite_slot", "push", "insert", "clone_into", "return_to_pool", "lookup_env", "lookup_local_env",
                                 "pop", "get", "get_mut", "has_frame_arena", "map", "replace", "swap", "take"):
                    continue
                args = []
                for a in c.args:
                    t = sh(ne(g.deep(a)))
                    t = re.sub(r"\blookup_local_env\b", "lookup_env", t)
                    t = re.sub(r"\{closure#\d+\}::\{[^}]*\}", "{closure}", t)
                    # variable names carry no meaning here (`v` / `value`, `name` / `local`): keep self-rooted paths, field
                    # names and callee names, erase every other identifier
                    t = re.sub(r"(?<![\w.])(?!self\b)([a-z_][a-z0-9_]*)\b(?!\()", "_", t)
                    t = re.sub(r"Option::(Some\{_\}|None\{\})", "_", t)    # the slot's id: Some(local) in one variant, None in the other
                    t = re.sub(r"\barg\d+(\.\d+)*", "_", t)
                    args.append(t[:80])
                out.append((re.sub(r"^lookup_local_env$", "lookup_env", short), tuple(args)))
        return out
    n = 0
    for a, b in SIBLINGS:
        fa, fb = ctx.lib.fns.get("runtime::Runtime::" + a), ctx.lib.fns.get("runtime::Runtime::" + b)
        if fa is None or fb is None:
            ctx.bad("siblings|%s/%s|missing" % (a, b), "src/runtime.rs", "the name-keyed / id-keyed pair %s / %s no longer exists in this form: re-audit the pairing" % (a, b))
            continue
        n += 1
        ctx.touch(fa)
        ctx.touch(fb)
        sa, sb = signature(fa), signature(fb)
        if sa == sb:
            ctx.ok("siblings|%s/%s" % (a, b), fa.where(), "%d calls, identical up to the key" % len(sa))
        else:
            diff = next(((x, y) for x, y in zip(sa + [None] * len(sb), sb + [None] * len(sa)) if x != y), None)
            ctx.bad("siblings|%s/%s|differ" % (a, b), fb.where(), "%s and %s do the same job keyed by name and by local id, but their call sequences differ (first difference: %s vs %s): one of them walks the scopes differently or skips a step the other performs, so programs resolved with and without binding facts behave differently" % (a, b, diff[0] if diff else None, diff[1] if diff else None))
    ctx.floor("name-keyed / id-keyed sibling pairs", n, 5)


def r8_redeclaration_finds_its_variable_by_name(ctx):
    """`make x get ..` in a scope that already has an x rebinds that x - the same variable, whatever the types involved - so that
    a function defined between the two declarations and its block keep meaning the same thing by the name.  In the Assign arm
    the search for the existing entry of the innermost scope compares names and nothing else."""
    from .c09 import arm_region
    arm = arm_region(ctx, "resolver::Resolver::check_stmt", "Assign")
    if arm is None:
        ctx.bad("redeclare|anchor", "src/resolver.rs", "cannot find the Assign arm of check_stmt")
        return
    fn, blocks = arm
    ctx.touch(fn)
    finds = [c for c in fn.calls() if c.block in blocks and (c.callee or "").split("::")[-1] in ("rposition", "position", "find", "rfind", "find_map") and "variable_scopes" in sh(ne(fn.deep(c.args[0])))]
    if not finds:
        ctx.bad("redeclare|no-search", fn.where(min(blocks)), "the Assign arm no longer searches the innermost scope for an existing entry of the name")
        return
    for c in finds:
        txt = sh(ne(fn.deep(c.args[1]))) if len(c.args) > 1 else ""
        m = re.search(r"\{closure#(\d+)\}", txt)
        clo = ctx.lib.fns.get("%s::{closure#%s}" % (fn.id, m.group(1))) if m else None
        if clo is None:
            ctx.bad("redeclare|search-closure", fn.where(c.block), "cannot see the predicate the Assign arm searches the scope with")
            continue
        ctx.touch(clo)
        eqs = [k for k in clo.calls() if (k.callee or "").split("::")[-1] in ("eq", "ne")]
        extra = [k for k in eqs if "ValueType" in (k.callee or "") or "ValueType" in " ".join(clo.locals[(a.get("move") or a.get("copy") or {"l": 0})["l"]]["ty"] for a in k.args if isinstance(a, dict) and (a.get("move") or a.get("copy")))]
        bins = [st for b in sorted(clo.live) for st in clo.blocks[b]["s"] if st["rv"]["k"] == "bin" and st["rv"]["op"] in ("Eq", "Ne")]
        if extra or len(eqs) + len(bins) > 1:
            ctx.bad("redeclare|search-by-more-than-name", fn.where(c.block), "the existing entry is looked for by name *and* another property (%d comparisons in the predicate%s): a redeclaration that does not match it creates a second variable of the same name in the same scope, and a function defined between the two declarations stays bound to the old one" % (len(eqs) + len(bins), ", one on the value type" if extra else ""))
        else:
            ctx.ok("redeclare|search-by-name", fn.where(c.block), "one comparison, on the name")


def r9_function_reachability_ignores_dead_definitions(ctx):
    """Functions are hoisted: one defined after a `return` is as callable as any other, and the runtime registers it.  Which
    functions are 'never called' (and therefore removable) follows the call graph from the script body alone - it must not ask
    whether the *statement* that defines a function is reachable, or everything called only from such a function is reported
    unused, removed, and missing when the call happens."""
    fn = ctx.lib.fns.get("analysis::diagnostics::compute_function_reachability")
    if fn is None:
        ctx.note("analysis::diagnostics::compute_function_reachability not found: clause not evaluated")
        return
    from ..mir import fields_read
    from .c03 import natural_loop
    ctx.touch(fn)
    # the worklist loop: the natural loop around the pop of the worklist
    pops = [c for c in fn.calls() if (c.callee or "").endswith("Vec::pop")]
    body = set()
    for c in pops:
        for H in sorted(fn.live):
            if fn.dominates(H, c.block):
                nl = natural_loop(fn, H)
                if c.block in nl:
                    body |= nl
    uses = []
    import json as _json
    for b_ in sorted(body):
        if '"f": "def_stmt"' in _json.dumps(fn.blocks[b_]["s"]) + _json.dumps(fn.blocks[b_]["t"]):
            uses.append((fn, b_, "the function's def_stmt inside the worklist loop"))
    if not pops:
        ctx.bad("function-reachability|shape", fn.where(), "compute_function_reachability no longer works through a worklist")
        return
    if uses:
        g, b, what = uses[0]
        ctx.bad("function-reachability|asks-statement-reachability", g.where(b), "the reachability of functions consults %s: a function whose definition stands in dead code (after a return) is still hoisted and callable at run time, but its callees are no longer followed - a helper called only from there is reported 'never called', removed from the plan's point of view, and the call panics on a function that was never registered" % what)
    else:
        ctx.ok("function-reachability|call-graph-only", fn.where(), "follows calls from the script body without regard to statement reachability")


def r10_a_hoisted_function_meets_its_own_block_s_variables(ctx):
    """A function is visible throughout its block, so it can run before a `make` of that block has.  The lookup by id then has
    to find a slot of *this* activation: the variables of a block that defines functions exist (null) from block entry,
    whatever the order of the `make` and the definition in the text - otherwise the search goes on down the scope stack and,
    in a recursive function, reads or assigns the caller's activation's variable.  Shared with C06-R5's discharge."""
    from .c06 import block_variables_exist_from_block_entry
    ok, why = block_variables_exist_from_block_entry(ctx)
    hb = ctx.lib.fns.get("runtime::Runtime::hoist_block_functions")
    if hb is not None:
        ctx.touch(hb)
    if ok:
        ctx.ok("hoisted|own-block-variables-exist", hb.where() if hb is not None else "", why)
    else:
        ctx.bad("hoisted|own-block-variables-exist", hb.where() if hb is not None else "", "%s: a hoisted function that runs before the `make` finds no slot in its own activation and takes the same-named variable of an older activation" % why)


def r11_static_scope_searches_go_innermost_first(ctx):
    """The checker resolves names the way the runtime does: every search over its stack of variable scopes (look-up, type
    widening, redeclaration) starts at the innermost scope and, inside a scope, at the newest entry.  A routine that walks the
    stack outermost-first touches the shadowed outer variable instead of the visible one."""
    n = 0
    for fid, fn in sorted(ctx.lib.fns.items()):
        if fn.file != "src/resolver.rs":
            continue
        for c in fn.calls():
            short = (c.callee or "").split("::")[-1]
            if short not in ("iter", "iter_mut") or not c.args:
                continue
            t = sh(ne(fn.deep(c.args[0], 8))).replace("&mut ", "")
            if not t.endswith("self.variable_scopes") and "deref_mut(self.variable_scopes)" not in t and "deref(self.variable_scopes)" not in t:
                continue
            # what consumes this iterator: a search (find / find_map / any / position / a loop) needs rev() in between
            uses = [u for u in fn.calls() if u.block != c.block and any(isinstance(a, dict) and "iter" in sh(ne(fn.deep(a, 6))) and "variable_scopes" in sh(ne(fn.deep(a, 6))) for a in u.args[:1])]
            searching = [u for u in uses if (u.callee or "").split("::")[-1] in ("find", "find_map", "any", "position", "next", "into_iter", "try_fold", "rev", "rposition", "rfind")]
            if not searching:
                continue
            n += 1
            ctx.touch(fn)
            short_fn = parent_fn(fid).split("::")[-1]
            reversed_ = any((u.callee or "").split("::")[-1] in ("rev", "rposition", "rfind") for u in uses) or any("rev(" in sh(ne(fn.deep(a, 8))) for u in uses for a in u.args[:1])
            ordn = sum(1 for r in ctx.records if r["rule"] == ctx.rule and r["instance"].startswith("static-search|%s#" % short_fn))
            if reversed_:
                ctx.ok("static-search|%s#%d" % (short_fn, ordn + 1), fn.where(c.block), "innermost scope first")
            else:
                ctx.bad("static-search|%s|outermost-first" % short_fn, fn.where(c.block), "%s searches the checker's variable scopes from the outermost scope: with a shadowed name it reaches the outer variable, while look-ups see the inner one (a reassigned inner variable keeps its stale type and a valid use of the new type is rejected)" % short_fn)
    ctx.floor("searches over the checker's variable scopes", n, 2)


RULES = [("C04-R1", r1_id_directed_lookup), ("C04-R2", r2_innermost_first), ("C04-R3", r3_sorted_tables), ("C04-R4", r4_scope_discipline), ("C04-R4b", r4b_arguments_belong_to_the_caller), ("C04-R4c", r4c_initialiser_sees_the_old_scope), ("C04-R4d", r4d_declarations_stay_in_their_block),
         ("C04-R5", r5_recorded_is_consumed), ("C04-R5b", r5b_record_unconditional), ("C04-R5c", r5c_query_on_the_variable_node), ("C04-R6", r6_hoisting_asks_the_right_table), ("C04-R7", r7_name_and_id_variants_agree), ("C04-R8", r8_redeclaration_finds_its_variable_by_name), ("C04-R9", r9_function_reachability_ignores_dead_definitions), ("C04-R10", r10_a_hoisted_function_meets_its_own_block_s_variables), ("C04-R11", r11_static_scope_searches_go_innermost_first)]

EXPLANATION = (
    "R1: at run time every name-keyed accessor is reachable only on the None outcome of the matching binding query and every "
    "id-keyed accessor only on the Some outcome; the facts are installed before anything runs. R2: every scope-stack "
    "traversal in resolver and runtime goes innermost scope first and newest entry first. R3: each binary-searched binding "
    "table is sorted in finalize_pointer_bindings by a key closure of the same shape, after resolution and before use. R4: "
    "scope push/pop pairing on every path of check_block / check_function_body / exec_block_with_flow / eval_function_call, "
    "predeclaration (resolver) and hoisting (runtime) of a block's functions into the block's own scope before its statements, "
    "declarations into the innermost scope, same-block redeclaration rebinding the existing slot. R5: each binding kind the "
    "resolver records on a node kind is the one the runtime queries on that node kind, carrying the id found by the lexical "
    "lookup. Decides the mechanism; does not decide that resolver ids and dynamic activations coincide for every program "
    "(temporal order: a hoisted function can run before an enclosing declaration, reported under C06-R5)."
)
EXPLANATION += (
    " Added after seeded changes were missed: R3 an insertion into a pointer-keyed binding table is skipped only when ptr::eq says that very node is already there; R5b after a successful lexical lookup the binding is recorded on every path (not only for some owners); R5c bound_expr_local is asked about the Expr::Var node itself, and flatten_index_target returns that node with its name."
)
EXPLANATION += (
    " R4b: all arguments are evaluated before the callee's parameter scope is pushed and the scope is popped on every path after the body. R4c: check_expr(initialiser) dominates every declaration action of the Assign arm."
)
EXPLANATION += (
    " R4d: a declaration creates or rebinds its variable only in the innermost scope (`env.last_mut()`), never by a walk along the scope stack. R6 (= C03-R3b): hoisting asks the plan's function-definition table, not its statement table."
)
EXPLANATION += (
    ' R7: the name-keyed and id-keyed variants of every variable operation (define, assign, lookup, mutable lookup, environment walk) are compared pairwise - their sequences of semantic calls (scope walk and its direction, innermost-only or whole stack, promotion, slot hand-over, push) with arguments spelled out and every variable name erased must be identical; a one-sided change is reported whichever side it is on.'
)
EXPLANATION += (
    " R8: the Assign arm looks for the existing entry of the innermost scope by name alone (one comparison in the search predicate, none on the value type). R9: inside the worklist loop of compute_function_reachability nothing reads a function's def_stmt - which functions are reachable follows the call graph, not the reachability of the defining statement (functions are hoisted)."
)
ASSUMPTIONS = ["the AST node address identifies the node (arena-allocated, never moved)"]
TRUSTED = ["rustc nightly MIR", "nsx exporter", "nsverif edge-dominance"]
NONTRIVIAL = "one obligation per keyed accessor call site, traversal, table, pairing and record/consume pair"
EXPLANATION += (
    " Round 6: R10 - the variables of a block that defines functions exist from block entry whatever the textual order of `make` and definition (shared with C06-R5's discharge, which now also rejects a flag tested inside the loop that computes it). R11 - every search over the checker's variable scopes goes innermost-first."
)

"""C10 — layout is insignificant: whitespace and comments never change meaning (mechanism integrity)."""
import json
import re

from ..guards import ne, sh
from ..panics import label_names
from ..mir import parent_fn
from .c07 import LEX, lexer_bodies, pos_writes, r3_parser_position_free

SCAN = LEX + "scan_identifier_or_keyword"
TCW = LEX + "try_consume_word"


def r1_one_whitespace_predicate(ctx):
    n = 0
    for fid in (LEX + "skip_whitespace", TCW):
        f = ctx.need(fid)
        ctx.touch(f)
        # loops that advance a position while a byte predicate holds
        preds = [c for c in f.calls() if (c.callee or "").split("::")[-1].startswith("is_ascii_") or (c.callee or "").split("::")[-1] in ("is_whitespace",)]
        loops = [c for c in preds if c.block in f.reach_from_succ(c.block)]
        for c in loops:
            n += 1
            short = (c.callee or "").split("::")[-1]
            if short == "is_ascii_whitespace":
                ctx.ok("skip|%s" % fid.split("::")[-1], f.where(c.block), "skips while u8::is_ascii_whitespace (space, tab, LF, FF, CR)")
            else:
                ctx.bad("skip-predicate|%s|%s" % (fid.split("::")[-1], short), f.where(c.block), "%s skips with `%s`: the set of layout bytes differs from the scanner's other skip site, so a layout accepted between tokens is not accepted between the words of a multi-word keyword (or vice versa)" % (fid.split("::")[-1], short))
        if not loops:
            # explicit byte set?
            ctx.bad("skip-predicate|%s|none" % fid.split("::")[-1], f.where(), "%s no longer skips layout with a whitespace predicate" % fid.split("::")[-1])
    ctx.floor("whitespace-skipping loops", n, 2)
    # the skip is exhaustive: whatever follows it (the comparison with the next word, the return to the token dispatcher)
    # is reached only through the loop's own exit - no shortcut that steps over a fixed number of bytes
    for fid in (LEX + "skip_whitespace", TCW):
        f = ctx.need(fid)
        preds = [c for c in f.calls() if (c.callee or "").split("::")[-1] == "is_ascii_whitespace" and c.block in f.reach_from_succ(c.block)]
        if not preds:
            continue
        P = preds[0].block
        cycle = {b for b in f.reach_from_succ(P) if P in f.reach_from_succ(b)} | {P}
        head = min(cycle, key=lambda b: len(f.dominators(b)))
        short = fid.split("::")[-1]
        if short == "try_consume_word":
            targets = {c.block for c in f.calls() if (c.callee or "").split("::")[-1] in ("eq", "ne") or "PartialEq" in (c.callee or "")} or set(f.exits())
        else:
            targets = set(f.exits())
        r = f.reach([0], removed_nodes=[head])
        if r & targets:
            ctx.bad("skip|%s|bypass" % short, f.where(head), "%s can reach %s without going through the exit of its whitespace loop: on that path a run of layout bytes is only partly skipped, so `a  b` (two spaces, a tab after a space, a line break after a space) is read differently from `a b`" % (short, "the word comparison" if short == "try_consume_word" else "its return"))
        else:
            ctx.ok("skip|%s|exhaustive" % short, f.where(head), "everything after the skip is dominated by the loop's exit")


def r2_tokens_carry_no_layout(ctx):
    tok = ctx.lib.adt("syntax::token::Token")
    names = [v["name"] for v in tok["variants"]]
    layout = [v for v in names if v.lower() in ("newline", "eol", "indent", "dedent", "whitespace", "comment", "linebreak")]
    if layout:
        ctx.bad("token-kind|%s" % ",".join(layout), "src/syntax/token.rs", "Token has layout variants %s" % layout)
    else:
        ctx.ok("token-kinds", "src/syntax/token.rs", "%d token kinds, none for layout" % len(names))
    nt = ctx.need(LEX + "next_token")
    ctx.touch(nt)
    sw = nt.calls_to(LEX + "skip_whitespace")
    sc = nt.calls_to(LEX + "skip_comment")
    scans = [c for c in nt.calls() if (c.callee or "").startswith(LEX + "scan_")]
    if sw and all(any(nt.dominates(w.block, c.block) for w in sw) for c in scans):
        ctx.ok("skip-before-every-token", nt.where(sw[0].block), "skip_whitespace dominates every scan_* call")
    else:
        ctx.bad("skip-before-every-token", nt.where(), "a token can be scanned without skipping leading whitespace first")
    # the comment branch loops back (continue) to the whitespace skip and is decided before any token kind
    if sc and all(sw[0].block in nt.reach_from_succ(c.block) for c in sc) and all(not nt.dominates(s.block, sc[0].block) for s in scans):
        hash_ok = any(si["kind"] == "bin" and si["op"] == "Eq" and (si["b"].get("int") == 35 or si["a"].get("int") == 35) and 0 not in al
                      for S, al in nt.constraints(sc[0].block) for si in [nt.switch_info(S)])
        if hash_ok:
            ctx.ok("comment-branch", nt.where(sc[0].block), "`#` -> skip_comment -> back to skipping whitespace, before any token kind is tried")
        else:
            ctx.bad("comment-branch|trigger", nt.where(sc[0].block), "skip_comment is not triggered by the byte `#`")
    else:
        ctx.bad("comment-branch", nt.where(), "comments are not skipped before tokens are scanned (or scanning does not resume after a comment)")
    cm = ctx.need(LEX + "skip_comment")
    ctx.touch(cm)
    mc = [c for c in cm.calls() if (c.callee or "").endswith("memchr2")]
    if mc and {mc[0].args[0].get("int"), mc[0].args[1].get("int")} == {10, 13}:
        ctx.ok("comment-ends-at-line-break", cm.where(mc[0].block), "a comment ends at the first LF or CR")
        # ... the first one *from the cursor on*: the haystack starts at the cursor and the search at its offset 0.  A
        # search that starts further in steps over the line break of a short (empty) comment and swallows the next line.
        hay = sh(ne(cm.deep(mc[0].args[2]))).replace(" ", "")
        off = mc[0].args[3].get("int") if len(mc[0].args) > 3 and isinstance(mc[0].args[3], dict) else None
        if off == 0 and re.search(r"Range::Range\{self\.pos,", hay):
            ctx.ok("comment-search-starts-at-cursor", cm.where(mc[0].block), "memchr2(.., src[pos..], 0)")
        elif off is not None and re.search(r"^self\.src$|^\*?self\.src$", hay) and sh(ne(cm.deep(mc[0].args[3]))) == "self.pos":
            ctx.ok("comment-search-starts-at-cursor", cm.where(mc[0].block), "memchr2(.., src, pos)")
        else:
            ctx.bad("comment-search-starts-at-cursor|%s" % (off if off is not None else sh(ne(cm.deep(mc[0].args[3])))[:16]), cm.where(mc[0].block), "the search for the end of a comment does not start at the cursor (haystack `%s`, offset %s): the line break that ends a comment shorter than that offset - an empty `#` line - is not seen, and the following source line is swallowed into the comment" % (hay[:40], off))
    else:
        ctx.bad("comment-ends-at-line-break", cm.where(), "skip_comment does not stop at the first LF / CR: with CR-only or CRLF line ends the comment swallows the following line(s)")


def r3_parser_sees_only_tokens(ctx):
    r3_parser_position_free(ctx)


def r4_lookahead_rollback(ctx):
    f = ctx.need(SCAN)
    ctx.touch(f)
    writes = pos_writes(f)
    restores = [b for b, k, s in writes if s["rv"]["k"] == "use" and sh(ne(f.expr(s["rv"]["a"], 3))) == "save"]
    tries = [c for c in f.calls() if c.callee == TCW]
    # (a) every return of Identifier("if") / Identifier("small") passes a restore after the last attempt
    n = 0
    for b in sorted(f.live):
        for s in f.blocks[b]["s"]:
            rv = s["rv"]
            if rv["k"] == "agg" and rv["adt"].endswith("Token") and rv["variant"] == "Identifier":
                txt = sh(ne(f.deep(rv["ops"][0])))
                if txt in ('"if"', '"small"'):
                    n += 1
                    if any(f.dominates(r, b) for r in restores):
                        ctx.ok("rollback|Identifier(%s)" % txt, f.where(b), "cursor restored to the snapshot before the word is returned as an identifier")
                    else:
                        ctx.bad("rollback|Identifier(%s)" % txt, f.where(b), "the word %s is returned as an identifier without restoring the cursor after the failed keyword look-ahead: the words consumed while looking ahead are lost" % txt)
    ctx.floor("identifier fall-backs of the multi-word look-ahead", n, 2)
    # (b) a failed attempt is rolled back before the next attempt starts: between a try_consume_word that succeeded and a
    #     later, different attempt's first try there must be a restore
    groups = {}
    for c in tries:
        word = sh(ne(f.deep(c.args[1]))).strip('"')
        succeeded_before = []
        for S, al in f.constraints(c.block):
            si = f.switch_info(S)
            if si["kind"] == "call" and si["callee"] == TCW and 0 not in al:
                succeeded_before.append(si["block"])
        groups[c.block] = (word, succeeded_before)
    firsts = [c for c in tries if not groups[c.block][1]]
    for c in firsts:
        # can this first try be reached after some other try succeeded (on a path), without a restore in between?
        for o in tries:
            if o is c:
                continue
            # success edge of o
            S = o.target
            while S is not None and f.blocks[S]["t"]["k"] == "goto":
                S = f.blocks[S]["t"]["t"]
            if S is None or f.blocks[S]["t"]["k"] != "switch":
                continue
            succ_targets = [j for lab, j in f.succ[S] if lab != 0]
            r = f.reach(succ_targets, removed_nodes=restores)
            if c.block in r:
                w1, w2 = groups[o.block][0], groups[c.block][0]
                # Not a violation of C10 (both spellings are still layout-insensitive, and `if to not so` is no valid
                # token sequence of a well-formed program either way); recorded as an observation only.
                ctx.note("observation: after `%s` was consumed and the rest of that keyword did not follow, the next attempt (`%s ...`) starts from the advanced cursor: the malformed text `if %s %s so` lexes as the other keyword" % (w1, w2, w1, w2))
                ctx.ok("rollback|attempt(%s)|observation" % groups[c.block][0], f.where(c.block), "attempt starts after a partially consumed failed attempt (observation, see notes)")
                break
        else:
            ctx.ok("rollback|attempt(%s)" % groups[c.block][0], f.where(c.block), "attempt starts from the snapshot position")
    # (c) try_consume_word moves the cursor only when it reports success
    t = ctx.need(TCW)
    ctx.touch(t)
    tw = pos_writes(t)
    ok = bool(tw)
    for b, k, s in tw:
        # the block must lead only to `return true`
        rets = {sh(ne(t.deep_rvalue(st["rv"]))) for x in t.reach([b]) for st in t.blocks[x]["s"] if st["lhs"]["l"] == 0 and not st["lhs"]["p"]}
        # a named flag that is returned (`if at_word_end { self.pos = end; } at_word_end`) is `true` on the path through the
        # write when the write sits on the true side of a test of that same flag
        known_true = set()
        for S, al in t.constraints(b):
            d = t.blocks[S]["t"]["d"]
            pl = (d.get("copy") or d.get("move")) if isinstance(d, dict) else None
            if pl is not None and not pl["p"] and 0 not in al and t.locals[pl["l"]]["ty"].strip() == "bool":
                root = pl["l"]
                dd = t.whole_defs(root)
                if len(dd) == 1 and dd[0][1] != "t" and dd[0][2]["rv"]["k"] == "use" and isinstance(dd[0][2]["rv"]["a"], dict) and (dd[0][2]["rv"]["a"].get("copy") or dd[0][2]["rv"]["a"].get("move")):
                    root = (dd[0][2]["rv"]["a"].get("copy") or dd[0][2]["rv"]["a"].get("move"))["l"]
                for cand in {pl["l"], root}:
                    if t.locals[cand]["name"]:
                        known_true.add(t.locals[cand]["name"])
        if not rets or not rets <= ({"true", "1"} | known_true):
            ok = False
    if ok:
        ctx.ok("try_consume_word|writes-only-on-success", t.where(), "the cursor is written only on the path that returns true")
    else:
        ctx.bad("try_consume_word|writes-only-on-success", t.where(), "try_consume_word can move the cursor and still report failure")


def r5_parentheses_add_no_node(ctx):
    pe = ctx.need("syntax::parser::Parser::parse_expression")
    ctx.touch(pe)
    S = None
    for cand in sorted(pe.live):
        if pe.blocks[cand]["t"]["k"] == "switch":
            si = pe.switch_info(cand)
            if si["kind"] == "discr" and si["ty"].endswith("Token"):
                S = cand
                break
    if S is None:
        ctx.bad("paren|no-dispatch", pe.where(), "parse_expression no longer dispatches on the token kind")
        return
    si = pe.switch_info(S)
    for lab, tgt in pe.succ[S]:
        if "LParen" in label_names(pe, S, [lab], si):
            region = {b for b in pe.reach([tgt], removed_nodes=[S]) if pe.edge_dominated(b, S, [lab])}
            allocs = [c for c in pe.calls() if c.block in region and (c.callee or "").endswith("Parser::alloc")]
            if allocs:
                ctx.bad("paren|allocates-node", pe.where(allocs[0].block), "the `(` arm allocates an AST node: redundant parentheses change the tree")
            else:
                ctx.ok("paren|no-node", pe.where(tgt), "the `(` arm returns the inner expression itself")
            inner = [c for c in pe.calls() if c.block in region and c.callee == pe.id]
            if inner and all(c.args[1].get("int") == 0 for c in inner):
                ctx.ok("paren|inner-bp", pe.where(inner[0].block), "the group's content is parsed from binding power 0")
            else:
                ctx.bad("paren|inner-bp", pe.where(tgt), "the content of a parenthesised group is not parsed from binding power 0 (%s)" % [sh(ne(pe.deep(c.args[1]))) for c in inner])
    # the operand produced by any prefix arm - a parenthesised group included - continues with the binding power of the
    # *enclosing* call: a group is one operand, `a op (b) op c` must group like `a op b op c`
    CONT = "syntax::parser::Parser::parse_expression_continuation"
    conts = [c for c in pe.calls() if c.callee == CONT]
    for c in conts:
        bp = sh(ne(pe.deep(c.args[2])))
        ordn = sum(1 for r in ctx.records if r["rule"] == ctx.rule and r["instance"].startswith("continuation|"))
        if bp == "min_bp":
            ctx.ok("continuation|min_bp#%d" % (ordn + 1), pe.where(c.block), "operand continues with the caller's binding power")
        else:
            ctx.bad("continuation|bp|%s" % bp[:20], pe.where(c.block), "parse_expression continues an operand with binding power `%s` instead of its own min_bp: after that operand (e.g. a parenthesised group) the enclosing operator's precedence is forgotten, so redundant parentheses regroup the expression" % bp)
    ctx.floor("operand continuations in parse_expression", len(conts), 1)
    rets = pe.whole_defs(0)
    def from_cont(k, st):
        if k == "t":
            return (st.get("res") or st.get("callee")) == CONT
        return re.match(r"^[&*(]*parse_expression_continuation\(", sh(ne(pe.deep_rvalue(st["rv"])))) is not None
    if rets and all(from_cont(k, st) for (bi, k, st) in rets):
        ctx.ok("continuation|every-return", pe.where(rets[0][0]), "every result of parse_expression comes out of parse_expression_continuation")
    else:
        ctx.bad("continuation|every-return", pe.where(), "parse_expression has a result that does not pass through the shared continuation (%d definitions of the return place)" % len(rets))


def r6_word_is_identifier_bytes(ctx):
    """A word token consists of identifier bytes only - letters, digits, underscore - so every other byte ends it: `#` (a
    comment needs no space before it), punctuation, quotes.  The advance in read_word is justified only by an identifier-class
    test of the byte at the cursor."""
    from .c07 import subjects
    IDENT = ("is_alpha_or_underscore", "is_ascii_alphabetic", "is_ascii_digit", "is_ascii_alphanumeric")
    f = ctx.need(LEX + "read_word")
    ctx.touch(f)

    def ident_fact(S, labels):
        si = f.switch_info(S)
        names = label_names(f, S, labels, si)
        if si["kind"] == "call" and (si["callee"] or "").split("::")[-1] in IDENT and names == {"true"}:
            short = (si["callee"] or "").split("::")[-1]
            return subjects(f, si["call"]["args"][-1] if short != "is_alpha_or_underscore" else si["call"]["args"][0])
        if si["kind"] == "bin" and si["op"] == "Eq" and names == {"true"} and 95 in (si["a"].get("int"), si["b"].get("int")):
            return subjects(f, si["a"] if si["b"].get("int") == 95 else si["b"])
        return None
    writes = pos_writes(f)
    n = 0
    for b, k, st in writes:
        rhs = sh(ne(f.deep_rvalue(st["rv"])))
        if rhs != "Add(self.pos,1)":
            ctx.bad("word|advance-shape|%s" % rhs[:30], f.where(b), "read_word moves the cursor by `%s`, not one identifier byte at a time" % rhs[:50])
            continue
        n += 1
        known = set()
        for S, al in f.constraints(b):
            sub = ident_fact(S, al)
            if sub:
                known |= sub
        dec = {}
        for S, lab in f.deciding(b):
            dec.setdefault(S, []).append(lab)
        if dec:
            common = None
            for S, labs in dec.items():
                sub = ident_fact(S, labs)
                if not sub:
                    common = set()
                    break
                common = sub if common is None else (common & sub)
            known |= common or set()
        if "self.pos" in known:
            ctx.ok("word|identifier-bytes-only", f.where(b), "the cursor moves only over a byte tested alphabetic / digit / underscore")
        else:
            ctx.bad("word|identifier-bytes-only", f.where(b), "read_word advances over a byte that is not known to be a letter, digit or underscore (it stops at a list of delimiters instead): a byte missing from that list - `#`, an operator, a bracket - is glued into the word, so `total#comment` no longer reads like `total #comment`")
    ctx.floor("cursor advances in read_word", n, 1)


def r7_token_start_after_layout(ctx):
    """A token's text and span begin at the position recorded in next_token's `start`.  That position is taken after all layout
    in front of the token has been skipped: no skip_whitespace / skip_comment can run between the assignment of `start` and a
    use of it (a scan_* call that slices from it, a span built from it).  Otherwise a comment placed directly in front of a
    token becomes part of that token - `[ # note\n 3 ]` yields a number literal whose text starts at the `#`."""
    fn = ctx.need("syntax::scanner::Lexer::next_token")
    ctx.touch(fn)
    sl = [i for i, l in enumerate(fn.locals) if l["name"] == "start"]
    layout = [c for c in fn.calls() if (c.callee or "").split("::")[-1] in ("skip_whitespace", "skip_comment") and "Lexer" in (c.callee or "")]
    if not sl or not layout:
        ctx.bad("token-start|shape", fn.where(), "next_token no longer has a `start` position and layout-skipping calls to relate")
        return
    sl = sl[0]
    assigns = {b for (b, k, st) in fn.whole_defs(sl)}
    # uses of start: operands that copy it (arguments of scan_* calls, span aggregates)
    uses = set()
    for b in sorted(fn.live):
        for st in fn.blocks[b]["s"]:
            if json.dumps({"l": sl, "p": []}) in json.dumps(st["rv"]):
                uses.add(b)
        t = fn.blocks[b]["t"]
        if t["k"] == "call" and json.dumps({"l": sl, "p": []}) in json.dumps(t.get("args", [])):
            uses.add(b)
    # locals that are plain copies of start (temporaries handed to the calls)
    copies = {st["lhs"]["l"] for b in fn.live for st in fn.blocks[b]["s"] if st["rv"]["k"] == "use" and isinstance(st["rv"]["a"], dict) and (st["rv"]["a"].get("copy") or st["rv"]["a"].get("move") or {}).get("l") == sl and not (st["rv"]["a"].get("copy") or st["rv"]["a"].get("move"))["p"]}
    for b in sorted(fn.live):
        t = fn.blocks[b]["t"]
        if t["k"] == "call" and any(isinstance(a, dict) and (a.get("copy") or a.get("move") or {}).get("l") in copies for a in t.get("args", [])):
            uses.add(b)
        for st in fn.blocks[b]["s"]:
            if st["rv"]["k"] == "agg" and any(isinstance(a, dict) and (a.get("copy") or a.get("move") or {}).get("l") in copies for a in st["rv"].get("ops", [])):
                uses.add(b)
    ctx.floor("uses of next_token's start position", len(uses), 4)
    for c in layout:
        short = c.callee.split("::")[-1]
        if c.target is None:
            continue
        stale = fn.reach([c.target], removed_nodes=assigns) & uses
        key = "token-start|after-%s" % short
        if stale:
            ctx.bad(key, fn.where(c.block), "after %s() next_token can use the `start` position recorded before it (at %s) without recording it again: the skipped text in front of the token becomes part of the token's text and span (a comment directly before a number literal makes the literal unreadable: the interpreter panics on it)" % (short, ", ".join("line %s" % fn.block_line(b) for b in sorted(stale)[:3])))
        else:
            ctx.ok(key, fn.where(c.block), "`start` is recorded again before any use")


def r8_adjacency_errors_are_identifier_glue_only(ctx):
    """Whether two tokens are separated by layout must not matter.  The one place where the scanner looks at the byte *after* a
    complete token and rejects is `1foo` - a word glued to a number, which no layout-free reading could split anyway.  That
    rejection is raised under an identifier-class test of the following byte and under nothing else: any further byte in the
    condition (`.`, an operator) makes `6.25.sqrt()` an error while `6.25 .sqrt()` is accepted."""
    fn = ctx.need(LEX + "scan_number")
    ctx.touch(fn)
    IDENT = ("is_alpha_or_underscore", "is_ascii_alphabetic", "is_ascii_alphanumeric")
    sites = [c for c in fn.calls() if (c.callee or "").endswith("emit_error") and "InvalidIdentifier" in sh(ne(fn.deep(c.args[2])))]
    if not sites:
        ctx.note("scan_number raises no InvalidIdentifier error: nothing to check")
        return
    for c in sites:
        # the conditions that send control into the rejecting region: the dominating ones, or - when the region is entered
        # from several tests (`a || b`) - every deciding alternative of its entry block
        entry = c.block
        cons = fn.constraints(entry)
        # walk up to the first block of the region: the closest dominator whose own constraints are a strict prefix
        doms = [d for d in fn.dominators(entry) if d != entry]
        region_entry = entry
        for d in sorted(doms, key=lambda d: len(fn.dominators(d)), reverse=True):
            if any(fn.switch_info(S)["kind"] == "call" and (fn.switch_info(S)["callee"] or "").split("::")[-1] in IDENT for S, al in fn.constraints(d)) or any(fn.blocks[S]["t"]["k"] == "switch" and "next_char" in sh(ne(fn.deep(fn.blocks[S]["t"]["d"]))) for S, _l in fn.deciding(d)):
                region_entry = d
        tests = []
        for S, al in fn.constraints(region_entry):
            tests.append((S, set(al), True))
        for S, lab in fn.deciding(region_entry):
            if not any(S == t[0] for t in tests):
                tests.append((S, {lab}, False))
        bad = []
        ident = False
        for S, labs, dom in tests:
            si = fn.switch_info(S)
            txt = sh(ne(fn.deep(fn.blocks[S]["t"]["d"])))
            if si["kind"] == "call" and (si["callee"] or "").split("::")[-1] in IDENT and 0 not in labs:
                ident = True
                continue
            if "next_char" in txt or re.search(r"self\.src\[self\.pos\]", txt):
                if si["kind"] == "bin" and si["op"] == "Lt" and "self.len" in txt + "len":
                    continue
                if si["kind"] == "call" and (si["callee"] or "").split("::")[-1] == "is_ascii_digit":
                    continue    # the loops that consume the literal's own digits
                if si["kind"] == "bin" and si["op"] == "Eq" and 95 in (si["a"].get("int") if isinstance(si["a"], dict) else None, si["b"].get("int") if isinstance(si["b"], dict) else None):
                    ident = ident or 0 not in labs
                    continue    # `== b'_'`: the underscore is an identifier byte (is_alpha_or_underscore written out)
                bad.append(txt[:50])
        if bad:
            ctx.bad("adjacency|scan_number|%s" % re.sub(r"\s+", "", bad[0])[:40], fn.where(c.block), "a number literal is rejected because of the byte that follows it under `%s`, not only when that byte would glue a word to it: the same tokens separated by a space are accepted, so layout decides (`6.25.sqrt()` vs `6.25 .sqrt()`)" % bad[0])
        elif ident:
            ctx.ok("adjacency|scan_number", fn.where(c.block), "rejected only under an identifier-class test of the following byte")
        else:
            ctx.bad("adjacency|scan_number|no-ident-test", fn.where(c.block), "the word-glued-to-number rejection is not guarded by an identifier-class test of the following byte")


def r9_line_ends_are_equal_for_the_renderer(ctx):
    """LF, CRLF and CR files are the same program - also when a diagnostic is rendered for them: the line table's look-ahead
    for the LF of a CRLF stays inside the text (shared with C07-R5b)."""
    from .c07 import r5b_renderer_indexes_stay_inside
    r5b_renderer_indexes_stay_inside(ctx)


def r10_keyword_words_end_at_identifier_bytes(ctx):
    """`small pass`, `if to say`, `if not so` are recognised word by word.  A word ends where an identifier would end: the byte
    after it is not a letter, not an underscore and not a digit.  If digits are not excluded, `small` on one line and an
    identifier `pass1` on the next are glued into the operator `small pass` followed by `1` - a program made of documented
    constructs that is rejected, and whose acceptance depends on how it is laid out."""
    fn = ctx.need(LEX + "try_consume_word")
    ctx.touch(fn)
    classes = set()
    for S in sorted(fn.live):
        if fn.blocks[S]["t"]["k"] != "switch":
            continue
        si = fn.switch_info(S)
        txt = sh(ne(fn.deep(fn.blocks[S]["t"]["d"])))
        if "len(word)" not in txt.replace(" ", "") and "end" not in txt:
            continue
        if si["kind"] == "call":
            short = (si["callee"] or "").split("::")[-1]
            if short in ("is_alpha_or_underscore", "is_ascii_alphabetic"):
                classes |= {"alpha"} | ({"underscore"} if short == "is_alpha_or_underscore" else set())
            if short == "is_ascii_digit":
                classes.add("digit")
            if short == "is_ascii_alphanumeric":
                classes |= {"alpha", "digit"}
        if si["kind"] == "bin" and si["op"] in ("Eq", "Ne") and 95 in ((si["a"].get("int") if isinstance(si["a"], dict) else None), (si["b"].get("int") if isinstance(si["b"], dict) else None)):
            classes.add("underscore")
    # the last test of a chain may feed a named flag instead of a branch (`let at_word_end = .. || !(.. || digit)`): the class
    # tests applied to the byte at `end` count wherever their result goes
    for c in fn.calls():
        short = (c.callee or "").split("::")[-1]
        if short not in ("is_alpha_or_underscore", "is_ascii_alphabetic", "is_ascii_digit", "is_ascii_alphanumeric") or not c.args:
            continue
        at = sh(ne(fn.deep(c.args[0], 8))).replace(" ", "")
        if "end" not in at and "len(word)" not in at:
            continue
        if short in ("is_alpha_or_underscore", "is_ascii_alphabetic"):
            classes |= {"alpha"} | ({"underscore"} if short == "is_alpha_or_underscore" else set())
        elif short == "is_ascii_digit":
            classes.add("digit")
        else:
            classes |= {"alpha", "digit"}
    missing = {"alpha", "underscore", "digit"} - classes
    if not missing:
        ctx.ok("word-boundary", fn.where(), "the byte after a keyword word is tested against letters, digits and underscore")
    else:
        ctx.bad("word-boundary|%s-not-excluded" % "+".join(sorted(missing)), fn.where(), "try_consume_word accepts a keyword word although it is followed by a %s: `small` and an identifier `pass1` (on the next line) are read as the operator `small pass` and the number 1, so a valid program is rejected and its reading depends on layout" % "/".join(sorted(missing)))


def r11_grouping_is_the_documented_one(ctx):
    """`Redundant parentheses around a sub-expression do not change its value`: parentheses are redundant exactly when they
    repeat the grouping the binding powers already give, so the clause holds only if the operator table is the documented one
    (each level left-associative: right power = left power + 1).  Shared with C01-R2."""
    from .c01 import r2_precedence
    r2_precedence(ctx)


def r12_a_relayout_cannot_crash_the_renderer(ctx):
    """Accepted programs print warnings before they run, and a re-layout moves the text those warnings quote: another last
    line, another neighbour on the line.  `Behave identically` then needs the renderer to locate and copy *any* line of any
    layout - the last line's end is the end of the text (no final line break required), and a character of any width can be
    copied into the output.  Shared with C07-R5 / C07-R5b (renderer positions) and C13-R6 (encode buffers hold 4 bytes)."""
    from .c07 import r5_renderer_boundaries, r5b_renderer_indexes_stay_inside, r5c_renderer_slices_run_forward, r10_front_end_memory_is_linear
    from .c13 import encode_buffers
    r5_renderer_boundaries(ctx)
    r5b_renderer_indexes_stay_inside(ctx)
    r5c_renderer_slices_run_forward(ctx)
    encode_buffers(ctx)
    # ... and what the front end allocates per token does not depend on where the line breaks are (C07-R10): a reservation
    # sized by the rest of the line makes a one-line layout of a program quadratic in memory while the same tokens, one
    # statement per line, are linear
    r10_front_end_memory_is_linear(ctx)


def r13_no_private_notion_of_blank(ctx):
    """The scanner has one notion of layout between words: u8::is_ascii_whitespace (R1).  A byte of the source compared with a
    space or a tab constant is a second, narrower notion - `if` followed by a line break instead of a space is then no longer
    the start of `if to say`, so the same tokens are accepted on one line and rejected when broken over two.  Expected count
    of such comparisons: zero (the seeded change C10-m13 is the positive example of the self-test)."""
    hits = []
    for fn in ctx.lib.in_file("src/syntax/scanner.rs"):
        for S in sorted(fn.live):
            t = fn.blocks[S]["t"]
            if t["k"] == "switch" and any(v in (32, 9) for v, _ in t["ts"]):
                d = sh(ne(fn.deep(t["d"], 8)))
                if "src" in d or "bytes" in d or "get(" in d or "index(" in d:
                    hits.append((fn, S, d))
        for b in sorted(fn.live):
            for st in fn.blocks[b]["s"]:
                rv = st["rv"]
                if rv["k"] == "bin" and rv["op"] in ("Eq", "Ne") and any(isinstance(o, dict) and o.get("int") in (32, 9) for o in (rv["a"], rv["b"])):
                    hits.append((fn, b, sh(ne(fn.deep_rvalue(rv)))))
    for fn in ctx.lib.in_file("src/syntax/scanner.rs"):
        ctx.touch(fn)
    if hits:
        fn, b, d = hits[0]
        ctx.bad("blank|private-set|%s" % parent_fn(fn.id).split("::")[-1], fn.where(b), "%s compares a source byte with the space / tab constants (`%s`): a line break, which is_ascii_whitespace accepts in the same place, is treated differently, so a re-layout changes which tokens are read" % (parent_fn(fn.id).split("::")[-1], d[:60]))
    else:
        ctx.ok("blank|one-notion", "src/syntax/scanner.rs", "no source byte is compared with a space or tab constant")


def r14_stdin_text_is_taken_whole(ctx):
    """A script piped into `naija -` is the same program however the pipe delivers it: the bytes are validated as text once,
    after the last read, and the reading loop ends only when a read returns nothing.  Shared with C14-R2 (the CLI wiring)."""
    from .c14 import r2_same_wiring
    r2_same_wiring(ctx)


RULES = [("C10-R1", r1_one_whitespace_predicate), ("C10-R2", r2_tokens_carry_no_layout), ("C10-R3", r3_parser_sees_only_tokens),
         ("C10-R4", r4_lookahead_rollback), ("C10-R5", r5_parentheses_add_no_node), ("C10-R6", r6_word_is_identifier_bytes), ("C10-R7", r7_token_start_after_layout), ("C10-R8", r8_adjacency_errors_are_identifier_glue_only), ("C10-R9", r9_line_ends_are_equal_for_the_renderer), ("C10-R10", r10_keyword_words_end_at_identifier_bytes), ("C10-R11", r11_grouping_is_the_documented_one), ("C10-R12", r12_a_relayout_cannot_crash_the_renderer), ("C10-R13", r13_no_private_notion_of_blank), ("C10-R14", r14_stdin_text_is_taken_whole)]

EXPLANATION = (
    "R1: both whitespace-skipping loops of the scanner (between tokens, between the words of a multi-word keyword) use the "
    "same predicate u8::is_ascii_whitespace. R2: Token has no layout variant; skip_whitespace dominates every scan_* call; the "
    "`#` branch runs skip_comment and resumes skipping before any token kind is tried; a comment ends at the first LF or CR. "
    "R3: no parser arithmetic or branch depends on a span (statement boundaries come from token kinds only). R4: multi-word "
    "keyword look-ahead is rolled back - before a word is returned as an identifier, and between a failed attempt and the "
    "next attempt; try_consume_word writes the cursor only on its success path. R5: the `(` arm of parse_expression allocates "
    "no node. Not decided: equality of behaviour of two concrete layouts (would be a differential run)."
)
EXPLANATION += (
    " Added after seeded changes were missed: R1 whatever follows a whitespace skip (the word comparison in try_consume_word, the return of skip_whitespace) is reachable only through the loop's own exit - no fixed-width shortcut; R5 the group's content is parsed from binding power 0 and every operand - a group included - continues with the enclosing call's min_bp through the one shared continuation; R6 read_word moves the cursor only over a byte tested alphabetic / digit / underscore, so every other byte - `#` included - ends a word."
)
EXPLANATION += (
    " R2 also: the search for the end of a comment starts at the cursor (offset 0 of a haystack that begins at pos)."
)
EXPLANATION += (
    " R7: next_token records the token's start position after all layout in front of it has been skipped - no skip_whitespace / skip_comment can run between the assignment of `start` and a use of it. R8: the only rejection that depends on the byte following a complete number literal is the word-glued-to-number case, raised under an identifier-class test of that byte and nothing else. R9 (= C07-R5b): the line table's CRLF look-ahead stays inside the text."
)
EXPLANATION += (
    ' R10: the byte after a keyword word (`small`/`pass`, `if`/`to`/`say`, ...) is tested against all three identifier classes - letters, underscore and digits - so that a word ends where an identifier would end.'
)
ASSUMPTIONS = ["layout bytes are exactly those accepted by u8::is_ascii_whitespace"]
TRUSTED = ["rustc nightly MIR", "nsx exporter", "nsverif reachability"]
NONTRIVIAL = "one obligation per skip loop, per look-ahead attempt / fall-back, per parser body"
EXPLANATION += (
    ' R11 shares C01-R2 (the binding-power table is the documented one: redundant parentheses repeat that grouping). R12 shares C07-R5/R5b (renderer positions), C13-R6 (encode buffers hold four bytes) and C07-R10 (front-end memory does not depend on where the line breaks are): a re-layout moves the text diagnostics quote and the amount of text on a line, and must change neither a crash nor the memory the scanner takes.'
)
EXPLANATION += (
    ' Round 6: R13 no source byte is compared with a space or tab constant (one notion of blank: is_ascii_whitespace); R14 shares C14-R2 (a script on stdin is read to the end and validated once); R12 also shares C07-R5c.'
)

"""C14 — the shipped pipeline matches the library; runs do not influence each other."""
import json
import os
import re

from ..guards import ne, sh
from ..mir import parent_fn
from ..panics import label_names

LIBP = "naijascript::"
PIPELINE = ["syntax::scanner::Lexer::new", "syntax::parser::Parser::new", "syntax::parser::Parser::parse_program",
            "resolver::Resolver::with_facts_arena", "resolver::Resolver::resolve", "resolver::Resolver::into_artifacts",
            "runtime::Runtime::new", "runtime::Runtime::run_with_analysis"]


def r1_exit_status(ctx):
    rs = ctx.need("cmd::run_source", ctx.bin)
    ctx.touch(rs)
    rets = []
    for b in sorted(rs.live):
        for s in rs.blocks[b]["s"]:
            if s["lhs"]["l"] == 0 and not s["lhs"]["p"]:
                rets.append((b, sh(ne(rs.deep_rvalue(s["rv"])))))
    # a status produced by a call (ExitCode::from(<computed>)) is no constant either
    for c in rs.calls():
        if c.dest is not None and c.dest["l"] == 0 and not c.dest["p"]:
            rets.append((c.block, "%s(%s)" % ((c.callee or "?").split("::")[-1], ",".join(sh(ne(rs.deep(a)))[:40] for a in c.args))))
    n_succ = 0
    for b, val in rets:
        cons = {}
        for S, al in rs.constraints(b):
            d = sh(ne(rs.deep(rs.blocks[S]["t"]["d"])))
            names = label_names(rs, S, al)
            if d.startswith("is_empty(parse_program"):
                cons["parse-clean"] = names == {"true"}
            elif d.startswith("has_errors(with_facts_arena") or (d.startswith("has_errors(") and "resolve" in d and "run_with_analysis" not in d):
                cons["resolve-clean"] = names == {"false"}
            elif d.startswith("has_errors(run_with_analysis"):
                cons["run-clean"] = names == {"false"}
        if val.endswith("SUCCESS"):
            n_succ += 1
            missing = [k for k in ("parse-clean", "resolve-clean", "run-clean") if not cons.get(k)]
            if missing:
                ctx.bad("success|%s" % ",".join(missing), rs.where(b), "exit status SUCCESS is reachable without %s: a run with error diagnostics exits 0" % missing)
            else:
                ctx.ok("success", rs.where(b), "SUCCESS only with no parse diagnostics, no resolver errors, no runtime errors")
        elif val.endswith("FAILURE"):
            if all(cons.get(k) for k in ("parse-clean", "resolve-clean", "run-clean")):
                ctx.bad("failure-on-clean-run", rs.where(b), "a clean run exits with FAILURE")
            else:
                ctx.ok("failure|%s" % ",".join(sorted(k for k, v in cons.items() if not v) or ["-"]), rs.where(b), "FAILURE after an error stage")
        else:
            ctx.bad("exit-value|%s" % val[:40], rs.where(b), "run_source returns the computed status `%s` instead of one of the two constants: whether a run with error diagnostics exits non-zero then depends on a value (a count truncated to 8 bits is 0 for 256 errors)" % val[:80])
    ctx.floor("SUCCESS returns of run_source", n_succ, 1)
    # nothing runs after an error diagnostic
    run = rs.calls_to(LIBP + "runtime::Runtime::run_with_analysis")
    for c in run:
        cons = {}
        for S, al in rs.constraints(c.block):
            d = sh(ne(rs.deep(rs.blocks[S]["t"]["d"])))
            names = label_names(rs, S, al)
            if d.startswith("is_empty(parse_program"):
                cons["parse-clean"] = names == {"true"}
            elif d.startswith("has_errors("):
                cons["resolve-clean"] = names == {"false"}
        if cons.get("parse-clean") and cons.get("resolve-clean"):
            ctx.ok("run-only-when-clean", rs.where(c.block), "the program runs only after a clean parse and a clean resolve")
        else:
            ctx.bad("run-only-when-clean", rs.where(c.block), "run_with_analysis is reachable although the front end produced error diagnostics (%s)" % cons)
    # ... and whatever the CLI reports as a failure on stderr ends in FAILURE: in every function of the CLI that returns an
    # ExitCode, a SUCCESS constant is not returned from a block that an error print dominates (a failed arena
    # initialisation that exits 0 tells the caller the script ran)
    k = 0
    for fid, f in sorted(ctx.bin.fns.items()):
        if "ExitCode" not in f.locals[0]["ty"]:
            continue
        eprints = [c for c in f.calls() if (c.callee or "").endswith("io::_eprint")]
        if not eprints:
            continue
        ctx.touch(f)
        for b in sorted(f.live):
            for st in f.blocks[b]["s"]:
                if st["lhs"]["l"] == 0 and not st["lhs"]["p"]:
                    val = sh(ne(f.deep_rvalue(st["rv"])))
                    after = [c for c in eprints if f.dominates(c.block, b)]
                    if not after:
                        continue
                    k += 1
                    if val.endswith("SUCCESS"):
                        ctx.bad("error-reported-exit-0|%s" % parent_fn(fid).split("::")[-1], f.where(b), "%s prints an error on stderr and then returns ExitCode::SUCCESS: the failure is invisible to whoever looks at the exit status" % parent_fn(fid).split("::")[-1])
                    else:
                        ctx.ok("error-reported-exit-nonzero|%s#%d" % (parent_fn(fid).split("::")[-1], k), f.where(b), "FAILURE after the error message")
    ctx.floor("returns of the CLI that follow an error message", k, 2)
    # has_errors counts exactly Severity::Error (lib)
    he = ctx.lib.fns.get("diagnostics::Diagnostics::has_errors")
    if he is not None:
        ctx.touch(he)
        blob = " ".join(sh(ne(g.deep_rvalue(s["rv"]))) for g in ctx.lib.family("diagnostics::Diagnostics::has_errors") for b in g.live for s in g.blocks[b]["s"]) + \
            " ".join(sh(ne(g.deep(a))) for g in ctx.lib.family("diagnostics::Diagnostics::has_errors") for c in g.calls() for a in c.args)
        if "Severity::Error" in blob and "Severity::Warning" not in blob:
            ctx.ok("has_errors", he.where(), "tests Severity::Error only")
        else:
            ctx.bad("has_errors", he.where(), "has_errors does not test exactly Severity::Error")


def call_sequence_mir(fn):
    seq = []
    for c in sorted(fn.calls(), key=lambda c: (len(fn.dominators(c.block)), c.block)):
        cal = (c.callee or "")
        if cal.startswith(LIBP):
            cal = cal[len(LIBP):]
        if cal in PIPELINE:
            seq.append((cal, c))
    return seq


def wasm_sequence(repo):
    p = os.path.join(repo, "wasm", "src", "lib.rs")
    try:
        src = open(p).read()
    except FileNotFoundError:
        return None, None
    m = re.search(r"pub fn run_source\b.*?\n}\n", src, re.S)
    if not m:
        return None, None
    body = re.sub(r"//[^\n]*", "", m.group(0))
    toks = re.findall(r"(Lexer::new|Parser::new|parse_program|Resolver::with_facts_arena|Resolver::new|\.resolve\(|into_artifacts|Runtime::new_with_host_policy|Runtime::new|run_with_analysis|\.run\(|scratch_arena\((None|Some\([^)]*\))\)|arena::init)", body)
    names = {"Lexer::new": PIPELINE[0], "Parser::new": PIPELINE[1], "parse_program": PIPELINE[2], "Resolver::with_facts_arena": PIPELINE[3],
             ".resolve(": PIPELINE[4], "into_artifacts": PIPELINE[5], "Runtime::new": PIPELINE[6], "run_with_analysis": PIPELINE[7]}
    seq = [names.get(t[0], t[0]) for t in toks if not t[0].startswith("scratch_arena") and t[0] != "arena::init"]
    scratch = [t[1].strip() for t in toks if t[0].startswith("scratch_arena")]
    return (seq, scratch), body


def r2_same_wiring(ctx):
    rs = ctx.need("cmd::run_source", ctx.bin)
    seq = call_sequence_mir(rs)
    names = [s[0] for s in seq]
    if names == PIPELINE:
        ctx.ok("cli|sequence", rs.where(), " -> ".join(x.split("::")[-1] for x in names))
    else:
        ctx.bad("cli|sequence|%s" % ",".join(x.split("::")[-1] for x in names), rs.where(), "the CLI pipeline is %s, expected %s" % ([x.split("::")[-1] for x in names], [x.split("::")[-1] for x in PIPELINE]))
    by = {n: c for n, c in seq}
    checks = []
    if PIPELINE[6] in by:
        c = by[PIPELINE[6]]
        a0, a1 = sh(ne(rs.deep(c.args[0]))), sh(ne(rs.deep(c.args[1])))
        checks.append(("runtime-arenas", a0 == "arena" and a1.startswith("Option::Some{scratch_arena("), "Runtime::new(%s, %s)" % (a0, a1[:40])))
    if PIPELINE[7] in by:
        c = by[PIPELINE[7]]
        a = [sh(ne(rs.deep(x))) for x in c.args]
        checks.append(("run-args", "parse_program" in a[1] and ".0" in a[1] and "into_artifacts" in a[2] and "into_artifacts" in a[3] and "as_ref" in sh(ne(rs.expr(c.args[3], 6))) or ("into_artifacts" in a[3] and ".1" in a[3]), "run_with_analysis(root, &facts, plan.as_ref())"))
    if PIPELINE[3] in by:
        c = by[PIPELINE[3]]
        a0, a1 = sh(ne(rs.deep(c.args[0]))), sh(ne(rs.deep(c.args[1])))
        checks.append(("resolver-arenas", a0.startswith("scratch_arena(") and a1 == "arena", "Resolver::with_facts_arena(%s, %s)" % (a0[:40], a1)))
    for name, ok, detail in checks:
        if ok:
            ctx.ok("cli|%s" % name, rs.where(), detail)
        else:
            ctx.bad("cli|%s" % name, rs.where(), "CLI wiring differs from the documented pipeline: %s" % detail)
    # the three front ends all go through run_source
    for fid in ("cmd::run_file", "cmd::run_stdin"):
        f = ctx.need(fid, ctx.bin)
        ctx.touch(f)
        if f.calls_to("cmd::run_source"):
            ctx.ok("cli|%s" % fid.split("::")[-1], f.where(), "delegates to run_source")
        else:
            ctx.bad("cli|%s" % fid.split("::")[-1], f.where(), "%s no longer runs scripts through run_source" % fid)
    # stdin front end: the bytes are validated as text once, after everything was read; validating per read chunk rejects a
    # script whose multi-byte character straddles a chunk boundary although the same script runs from a file
    g = ctx.need("cmd::run_stdin", ctx.bin)
    dec = [c for c in g.calls() if (c.callee or "").split("::")[-1] in ("from_utf8", "from_utf8_lossy", "from_utf8_unchecked") and "str" in (c.callee or "")]
    fetch = [c for c in g.calls() if (c.callee or "").split("::")[-1] in ("read", "fill_buf", "read_to_end", "read_to_string") and "io" in (c.callee or "")]
    checked = [c for c in dec if not (c.callee or "").endswith("unchecked")]
    if not checked:
        ctx.bad("cli|stdin-validation|missing", g.where(), "run_stdin hands unvalidated bytes to the pipeline as text")
    for d in checked:
        if any(d.block in g.reach_from_succ(d.block) and fc.block in g.reach_from_succ(d.block) for fc in fetch):
            ctx.bad("cli|stdin-validation|per-chunk", g.where(d.block), "run_stdin validates UTF-8 inside the read loop (per chunk): a valid script with a multi-byte character on a chunk boundary is refused on stdin but accepted from a file")
        else:
            ctx.ok("cli|stdin-validation|whole-buffer#%d" % d.block, g.where(d.block), "validated once after the read loop")
    # ... and the reading loop is left towards running the program only when a read returned nothing: a read that returns
    # fewer bytes than were asked for says nothing about the end of the input (a pipe delivers what it has), so ending on a
    # short read makes the first piece the whole program - and the rest of the script is later served to read_line
    from .c03 import natural_loop
    rd = [c for c in g.calls() if (c.callee or "").split("::")[-1] == "read" and "io" in (c.callee or "")]
    runs = g.calls_to("cmd::run_source")
    if rd and runs:
        loops = [natural_loop(g, H) for H in sorted(g.live) if natural_loop(g, H) and rd[0].block in natural_loop(g, H)]
        if loops:
            nl = min(loops, key=len)
            exits_ok, why = True, ""
            for b in sorted(nl):
                for lab, j in g.succ[b]:
                    if j in nl or not (runs[0].block in g.reach([j])):
                        continue
                    # an exit towards run_source: what decides it?
                    t = g.blocks[b]["t"]
                    if t["k"] != "switch":
                        continue
                    d = sh(ne(g.deep(t["d"], 10))).replace(" ", "")
                    si = g.switch_info(b)
                    zero = (si["kind"] in ("place", "field", "copy") or "read(" in d) and lab == 0 and "Lt(" not in d and "Le(" not in d and "len(" not in d
                    if not zero:
                        exits_ok, why = False, d[:60]
            if exits_ok:
                ctx.ok("cli|stdin-read-to-the-end", g.where(rd[0].block), "the loop ends when read() returns 0")
            else:
                ctx.bad("cli|stdin-read-to-the-end|%s" % why[:24], g.where(rd[0].block), "run_stdin stops reading on `%s`, not only when a read returns 0: when the script arrives in pieces only the first piece is run, and the rest of its text is what the program's read_line calls receive" % why)
    # wasm front end: not type-checkable on this host (cfg(target_family = "wasm"), no wasm32 std) -> lexical
    (w, body) = wasm_sequence(ctx.repo)
    if w is None:
        ctx.note("wasm/src/lib.rs::run_source not found: wasm wiring not compared")
        return
    wseq, wscratch = w
    if wseq == PIPELINE:
        ctx.ok("wasm|sequence(lexical)", "wasm/src/lib.rs", "same call sequence as the CLI")
    else:
        ctx.bad("wasm|sequence|%s" % ",".join(x.split("::")[-1] for x in wseq), "wasm/src/lib.rs", "the playground pipeline is %s; the CLI/library pipeline is %s" % ([x.split("::")[-1] for x in wseq], [x.split("::")[-1] for x in PIPELINE]))
    if re.search(r"run_with_analysis\(\s*root\s*,\s*&facts\s*,\s*optimization_plan\.as_ref\(\)\s*\)", body):
        ctx.ok("wasm|run-args(lexical)", "wasm/src/lib.rs", "run_with_analysis(root, &facts, optimization_plan.as_ref())")
    else:
        ctx.bad("wasm|run-args", "wasm/src/lib.rs", "the playground does not pass (root, &facts, optimization_plan.as_ref()) to run_with_analysis")
    if re.search(r"arena::init\(", body) and body.index("arena::init") < body.index("scratch_arena"):
        ctx.ok("wasm|reinit-first(lexical)", "wasm/src/lib.rs", "arena::init(..) precedes every scratch_arena call")
    else:
        ctx.bad("wasm|reinit-first", "wasm/src/lib.rs", "the playground does not re-initialise the scratch arenas before each run")
    if wscratch[:1] == ["None"] and all(x.replace(" ", "") == "Some(&arena)" for x in wscratch[1:]):
        ctx.ok("wasm|scratch-args(lexical)", "wasm/src/lib.rs", "scratch_arena(None) once, then Some(&arena)")
    else:
        ctx.bad("wasm|scratch-args|%s" % ",".join(wscratch), "wasm/src/lib.rs", "scratch_arena arguments in the playground: %s" % wscratch)


def r2c_routes_are_labelled_apart(ctx):
    """The three ways a script reaches the CLI (file, --eval, stdin) hand run_source three different source labels, so the
    location line of a diagnostic says which input it is about.  (A weaker clause: the library takes the label as a
    parameter; what is checked is only that the CLI does not give two routes the same one.)"""
    labels = []
    for fn in ctx.bin.fns.values():
        for c in fn.calls():
            if (c.callee or "") == "cmd::run_source":
                labels.append((fn, c, sh(ne(fn.deep(c.args[0])))))
    ctx.floor("calls of run_source in the CLI", len(labels), 3)
    seen = {}
    for fn, c, t in labels:
        seen.setdefault(t, []).append((fn, c))
    dup = {t: v for t, v in seen.items() if len(v) > 1 and t.startswith('"')}
    if dup:
        t, v = sorted(dup.items())[0]
        ctx.bad("route-label|duplicate|%s" % t.strip('"')[:16], v[1][0].where(v[1][1].block), "two routes of the CLI run their source under the same label %s: diagnostics of one input are attributed to another (`naija --eval ..` prints ` --> <stdin>:1:7`)" % t)
    else:
        ctx.ok("route-labels-distinct", labels[0][0].where(labels[0][1].block) if labels else "src/bin", "labels %s" % sorted(seen))


def r2b_cli_prints_the_library_rendering(ctx):
    """What the CLI prints is, byte for byte, what the library (and the playground) computes: Diagnostics::report - the only
    printing entry point - prints the result of render_ansi and renders nothing on its own."""
    rp = ctx.need("diagnostics::Diagnostics::report")
    fam = ctx.lib.family(rp.id)
    own = []
    printed = []
    for g in fam:
        ctx.touch(g)
        for c in g.calls():
            cal = c.callee or ""
            last = cal.split("::")[-1]
            if cal.startswith("diagnostics::Diagnostics::") and last != "render_ansi":
                own.append((g, c))
            if last in ("_print", "_eprint", "write_all", "write_fmt", "write_str") and ("std::io" in cal or "fmt::Write" in cal or "io::Write" in cal):
                printed.append((g, c, " ".join(sh(ne(g.deep(a))) for a in c.args)))
    ra = [c for g in fam for c in g.calls() if c.callee == "diagnostics::Diagnostics::render_ansi"]
    if not ra:
        ctx.bad("report|not-render_ansi", rp.where(), "Diagnostics::report no longer prints the result of render_ansi: the CLI's text is produced by a path of its own and can differ from what the library renders for the same program")
    elif own:
        ctx.bad("report|renders-itself|%s" % (own[0][1].callee or "").split("::")[-1], own[0][0].where(own[0][1].block), "Diagnostics::report calls %s itself: the CLI's output is assembled differently from render_ansi's (for instance the gutter width per diagnostic instead of per report), so the same program prints different bytes through the CLI and through the library" % (own[0][1].callee or "").split("::")[-1])
    elif printed and all("render_ansi(self,src,filename)" in t for g, c, t in printed):
        ctx.ok("report|prints-render_ansi", rp.where(printed[0][1].block), "print!(render_ansi(src, filename)) and nothing else")
    else:
        ctx.bad("report|prints-other", rp.where(), "Diagnostics::report prints something other than the result of render_ansi (%s)" % [t[:50] for g, c, t in printed][:2])
    # who else prints diagnostics text?  only report (CLI) - render_ansi itself must not print
    for g in ctx.lib.family("diagnostics::Diagnostics::render_ansi") + ctx.lib.family("diagnostics::Diagnostics::render_diagnostic"):
        ctx.touch(g)
    wr = ctx.lib.fns.get("diagnostics::Diagnostics::write_to_stream_or_buf")
    if wr is not None:
        ctx.touch(wr)
        # the stream branch is taken only without a buffer; render_ansi always passes one
        rd = ctx.need("diagnostics::Diagnostics::render_ansi")
        passes_buf = any("Some" in sh(ne(rd.deep(a))) or "buf" in sh(ne(rd.expr(a, 3))) for c in rd.calls() if c.callee == "diagnostics::Diagnostics::render_diagnostic" for a in c.args[-1:])
        if passes_buf:
            ctx.ok("render_ansi|into-buffer", rd.where(), "render_ansi renders into its buffer (no printing of its own)")
        else:
            ctx.bad("render_ansi|into-buffer", rd.where(), "render_ansi no longer hands render_diagnostic a buffer: it prints instead of returning the text")


def r3_scratch_rule(ctx):
    """The code base's own rule: a function that takes an Arena must pass it to scratch_arena."""
    n = 0
    for prog, label in ((ctx.bin, "bin"), (ctx.lib, "lib")):
        for fn in prog.fns.values():
            for c in fn.calls():
                cal = c.callee or ""
                if not (cal.endswith("arena::scratch_arena") or cal.endswith("arena::scratch::scratch_arena")):
                    continue
                n += 1
                arg = sh(ne(fn.deep(c.args[0])))
                has_arena = any("Arena" in fn.locals[i]["ty"] and "&" in fn.locals[i]["ty"] for i in range(1, fn.argc + 1))
                key = "%s|%s" % (parent_fn(fn.id), label)
                ordn = sum(1 for r in ctx.records if r["rule"] == ctx.rule and r["instance"].split("#")[0] == key)
                key = "%s#%d" % (key, ordn + 1)
                if has_arena:
                    if arg.startswith("Option::Some{") and "None" not in arg:
                        ctx.ok(key, fn.where(c.block), "scratch_arena(%s)" % arg)
                    else:
                        ctx.bad(key, fn.where(c.block), "a body that receives an &Arena calls scratch_arena(%s): it may be handed the very arena its caller is allocating from" % arg)
                else:
                    if arg.startswith("Option::None"):
                        ctx.ok(key, fn.where(c.block), "no arena in scope: scratch_arena(None)")
                    else:
                        ctx.ok(key, fn.where(c.block), "scratch_arena(%s)" % arg)
    ctx.floor("scratch_arena call sites (bin + lib)", n, 3)
    # the flip: index = (conflict == &S_SCRATCH[0])
    sa = ctx.need("arena::scratch::scratch_arena")
    ctx.touch(sa)
    eq = [c for c in sa.calls() if (c.callee or "").endswith("opt_ptr_eq")]
    t1 = sh(ne(sa.deep(eq[0].args[1]))).replace(" ", "") if eq else ""
    if eq and ("S_SCRATCH" in t1 or "bump::Arena;2]" in t1) and "[0]" in t1 and "conflict" in sh(ne(sa.deep(eq[0].args[0]))):
        ctx.ok("flip|conflict-vs-scratch0", sa.where(eq[0].block), "index = usize::from(conflict == &S_SCRATCH[0])")
    else:
        ctx.bad("flip|conflict-vs-scratch0", sa.where(), "scratch_arena no longer selects the arena by comparing the conflict pointer with &S_SCRATCH[0]")
    dr = ctx.need("<arena::scratch::ScratchArena as std::ops::Drop>::drop")
    ctx.touch(dr)
    rs = [c for c in dr.calls() if (c.callee or "").endswith("Arena::reset")]
    if rs and "offset" in sh(ne(dr.deep(rs[0].args[1]))):
        ctx.ok("scoped-reset", dr.where(), "drop resets to the offset captured at creation")
    else:
        ctx.bad("scoped-reset", dr.where(), "ScratchArena::drop does not reset to its creation offset")


def r4_global_state(ctx):
    muts = [s for s in ctx.lib.statics if s["mut"] or not s["freeze"]]
    ids = sorted(s["id"] for s in muts)
    if ids == ["arena::scratch::S_SCRATCH"]:
        ctx.ok("statics|only-scratch", "src/arena/scratch.rs", "the only mutable / interior-mutable static of the library is S_SCRATCH")
    else:
        ctx.bad("statics|%s" % ",".join(ids), "src", "mutable global state besides the scratch pair: %s - a run can leave state behind for the next one" % ids)
    bmuts = [s["id"] for s in ctx.bin.statics if s["mut"] or not s["freeze"]]
    if bmuts:
        ctx.bad("statics|bin|%s" % ",".join(sorted(bmuts)), "src/bin", "mutable global state in the CLI: %s" % bmuts)
    # thread_local / OnceLock style state shows up as statics too (LocalKey is a static); counted above.
    init = ctx.need("arena::scratch::init")
    ctx.touch(init)
    has_loop = any((c.callee or "").endswith("Iterator>::next") or (c.callee or "").endswith("::next") for c in init.calls())
    news = [c for c in init.calls() if (c.callee or "").endswith("bump::Arena::new")]
    resets = [c for c in init.calls() if (c.callee or "").endswith("Arena::reset")]
    it = " ".join(sh(ne(init.deep(a))) for c in init.calls() for a in c.args)
    whole = "S_SCRATCH" in it and ("RangeFull" in it or "[..]" in it or "iter_mut" in it or "index_mut" in it)
    if has_loop and news and resets and resets[0].args[1].get("int") == 0:
        # on each element one of the two happens
        empt = [S for S in init.live if init.blocks[S]["t"]["k"] == "switch" and init.switch_info(S)["kind"] == "call" and (init.switch_info(S)["callee"] or "").endswith("is_empty")]
        ok = bool(empt) and all(init.edge_dominated(news[0].block, S, [l for l, _ in init.succ[S] if l != 0]) and init.edge_dominated(resets[0].block, S, [0]) for S in empt)
        if ok:
            ctx.ok("init|all-elements", init.where(), "every scratch arena is either created or reset(0)")
        else:
            ctx.bad("init|branch", init.where(), "init does not create-or-reset each arena under is_empty()")
    else:
        ctx.bad("init|shape", init.where(), "arena::init no longer iterates S_SCRATCH creating or resetting every element to offset 0 (loop=%s new=%d reset=%d)" % (has_loop, len(news), len(resets)))
    # S_SCRATCH is touched only by init and scratch_arena
    from ..mir import statics_used
    users = set()
    for fn in ctx.lib.fns.values():
        if "arena::scratch::S_SCRATCH" in statics_used(fn):
            users.add(parent_fn(fn.id))
    if not users:
        ctx.bad("statics|users|none-seen", "src/arena/scratch.rs", "no body is seen using S_SCRATCH: the who-may-touch rule has nothing to check (exporter change?)")
    allowed = {"arena::scratch::init", "arena::scratch::scratch_arena"}
    if users <= allowed:
        ctx.ok("statics|users", "src/arena/scratch.rs", "S_SCRATCH used only by %s" % sorted(x.split("::")[-1] for x in users))
    else:
        ctx.bad("statics|users|%s" % ",".join(sorted(users - allowed)), "src", "S_SCRATCH accessed from %s" % sorted(users - allowed))


def r5_report_gets_the_text_it_parsed(ctx):
    """Every diagnostic the CLI prints is located in the text that was scanned: each Diagnostics::report call of run_source
    receives, as its source argument, the very text handed to Lexer::new, and the file name as the label - both are `&str`, so
    the swapped order type-checks, and the renderer then slices the file name with spans of the program (a panic, or a
    diagnostic showing the wrong line)."""
    if ctx.bin is None:
        ctx.bad("report-args|no-bin", "", "the CLI crate was not analysed")
        return
    n = 0
    for fid, fn in sorted(ctx.bin.fns.items()):
        lex = [c for c in fn.calls() if (c.callee or "").endswith("scanner::Lexer::new")]
        reps = [c for c in fn.calls() if (c.callee or "").endswith("diagnostics::Diagnostics::report")]
        if not lex or not reps:
            continue
        ctx.touch(fn)
        text = sh(ne(fn.deep(lex[0].args[0])))
        for c in reps:
            n += 1
            got_src, got_name = sh(ne(fn.deep(c.args[1]))), sh(ne(fn.deep(c.args[2])))
            ordn = sum(1 for r in ctx.records if r["rule"] == ctx.rule and r["instance"].startswith("report-args|%s#" % parent_fn(fid)))
            if got_src == text and got_name != text:
                ctx.ok("report-args|%s#%d" % (parent_fn(fid), ordn + 1), fn.where(c.block), "report(%s, %s) - the text given to the lexer" % (got_src, got_name))
            else:
                ctx.bad("report-args|%s|%s,%s" % (parent_fn(fid), got_src[:16], got_name[:16]), fn.where(c.block), "%s renders diagnostics with report(%s, %s) although the text that was scanned is `%s`: the spans of the program are applied to another string (a panic in the renderer - exit 101 and no diagnostic - or a diagnostic that shows the wrong text)" % (parent_fn(fid), got_src, got_name, text))
    ctx.floor("Diagnostics::report calls of the CLI next to a Lexer::new", n, 5)


def r6_errors_anywhere_count(ctx):
    """A stage has failed iff *some* diagnostic it collected is an error - the checker appends its warnings after its errors, so
    the newest entry says nothing.  has_errors asks every element (Iterator::any / a loop over all), never a single one
    (last / first / get); the CLI and the playground gate the next stage on it."""
    fn = ctx.need("diagnostics::Diagnostics::has_errors")
    ctx.touch(fn)
    fam = [fn] + list(ctx.lib.closures_of(fn.id))
    calls = [(g, c) for g in fam for c in g.calls()]
    whole = [c for g, c in calls if (c.callee or "").split("::")[-1] in ("any", "all", "find", "position", "filter", "fold", "try_fold", "next", "count", "contains")]
    single = [c for g, c in calls if (c.callee or "").split("::")[-1] in ("last", "first", "get", "pop", "last_mut", "first_mut", "nth", "next_back") and "diagnostics" in sh(ne(fn.deep(c.args[0]))) ]
    sev = any("Severity" in g.dump() and "Error" in g.dump() for g in fam)
    if single:
        ctx.bad("has-errors|single-element|%s" % single[0].callee.split("::")[-1], fn.where(single[0].block), "has_errors looks at one diagnostic only (%s): an error followed by a warning - the checker always appends its warnings last - is not seen, and the CLI runs a program it has just rejected and exits 0" % single[0].callee.split("::")[-1])
    elif whole and sev:
        ctx.ok("has-errors|all-elements", fn.where(whole[0].block), "%s over all diagnostics, comparing the severity with Error" % whole[0].callee.split("::")[-1])
    else:
        ctx.bad("has-errors|shape", fn.where(), "has_errors no longer examines every diagnostic's severity")


def r7_scratch_arenas_get_the_configured_capacity(ctx):
    """The CLI and the playground state the capacity of the scratch arenas once (SCRATCH_ARENA_CAPACITY); arena::init creates
    every scratch arena with exactly that many bytes (compared as a value, so `capacity`, `capacity * 1` are the same and
    `capacity / 2` is not)."""
    from ..linear import lin, show as lshow
    fn = ctx.need("arena::scratch::init")
    ctx.touch(fn)
    news = [c for c in fn.calls() if (c.callee or "").endswith("bump::Arena::new")]
    for c in news:
        e = ne(fn.deep(c.args[0]))
        if lin(e) == ({"capacity": 1}, 0):
            ctx.ok("scratch-capacity", fn.where(c.block), "Arena::new(capacity)")
        else:
            ctx.bad("scratch-capacity|%s" % re.sub(r"\s+", "", lshow(e))[:30], fn.where(c.block), "a scratch arena is created with `%s` bytes instead of the capacity init() was asked for: programs that fit the advertised capacity run out of memory" % lshow(e))
    ctx.floor("scratch arenas created by init", len(news), 1)


def _calls_in(e, out):
    if isinstance(e, tuple):
        if e and e[0] == "call" and len(e) > 2:
            out.append(e[1])
        for x in e:
            if isinstance(x, (tuple, list)):
                _calls_in(x, out)
    elif isinstance(e, list):
        for x in e:
            _calls_in(x, out)
    return out


TEXT_NEUTRAL = {"as_str", "as_bytes", "from_utf8", "from_utf8_unchecked", "deref", "as_ref", "borrow", "len", "as_slice", "as_mut_str", "as_mut_slice", "new_in", "new",
                "with_capacity_in", "with_capacity", "read_to_string", "branch", "unwrap", "expect", "unwrap_unchecked", "as_deref", "as_path", "clone", "to_owned"}


def r8_every_route_runs_the_text_it_was_given(ctx):
    """The three routes (file, --eval, stdin) differ only in where the text comes from: what each hands to run_source is the
    text it read, through conversions that change no byte.  A route that trims, strips or otherwise edits the text first
    accepts (or rejects) programs the library and the other routes treat differently."""
    n = 0
    for fid, fn in sorted(ctx.bin.fns.items()):
        for c in fn.calls():
            if (c.callee or "") != "cmd::run_source" or len(c.args) < 2:
                continue
            n += 1
            ctx.touch(fn)
            e = ne(fn.deep(c.args[1], 20))
            edits = sorted({x.split("::")[-1] for x in _calls_in(e, []) if x.split("::")[-1] not in TEXT_NEUTRAL})
            key = "route-text|%s" % parent_fn(fid)
            if edits:
                ctx.bad("%s|%s" % (key, ",".join(edits)[:40]), fn.where(c.block), "%s passes its text through %s before running it (`%s`): a program text is treated differently on this route than by the library and the other routes" % (parent_fn(fid), ", ".join(edits), sh(e)[:80]))
            else:
                ctx.ok(key, fn.where(c.block), "run_source(.., %s)" % sh(e)[:60])
    ctx.floor("routes into run_source", n, 3)


def r9_shout_prints_the_value_it_records(ctx):
    """`shout(v)` prints v and records v (Runtime.output is what the library reports): the printing half formats its own
    parameter with Display, a line break after it, and does nothing else to it."""
    f = ctx.need("builtins::GlobalBuiltin::shout")
    ctx.touch(f)
    calls = [(c.callee or "") for c in f.calls()]
    other = sorted({x.split("::")[-1] for x in calls if not (x.endswith("Argument::new_display") or x.endswith("Arguments::new") or x.endswith("Arguments::new_const") or x.endswith("io::_print"))})
    disp = [c for c in f.calls() if (c.callee or "").endswith("Argument::new_display")]
    whole = bool(disp) and all(re.match(r"^(\(tuple\)::\{)?value\}?(\.0)?$", sh(ne(f.deep(c.args[0], 8))).replace("(tuple)::{value}.0", "value")) for c in disp)
    tmpl = [sh(ne(f.deep(c.args[0], 4))) for c in f.calls() if (c.callee or "").endswith("Arguments::new")]
    plain = all(not re.search(r"[A-Za-z0-9 ,;:.!?-]", re.sub(r"\\x[0-9a-f]{2}|\\n|^b\"|\"$", "", t)) and t.count("\\n") == 1 for t in tmpl)
    if not other and whole and tmpl and plain:
        ctx.ok("shout|prints-its-argument", f.where(), "println!(\"{value}\")")
    else:
        ctx.bad("shout|prints-its-argument|%s" % (",".join(other)[:40] or ("template" if not plain else "argument")), f.where(), "shout does not print exactly its argument followed by one line break (extra calls: %s; formatted operand: %s; template %s): what the CLI prints differs from the value recorded in Runtime.output, which is what the library reports" % (other, [sh(ne(f.deep(c.args[0], 8)))[:40] for c in disp], tmpl))


def r10_script_arguments_accept_every_text(ctx):
    """The arguments that carry the program (`--eval`, the script path) take any string - the empty program is a program: in the
    derived clap definition of the top-level Cli every value_parser is the one inferred from the field type."""
    n = 0
    for fid in ("<cmd::Cli as clap::Args>::augment_args", "<cmd::Cli as clap::Args>::augment_args_for_update"):
        fn = ctx.bin.fns.get(fid)
        if fn is None:
            continue
        ctx.touch(fn)
        for c in fn.calls():
            if (c.callee or "") != "clap::Arg::value_parser":
                continue
            n += 1
            who = sh(ne(fn.deep(c.args[0], 8)))
            m = re.search(r'new\("([a-z_]+)"\)', who)
            arg = m.group(1) if m else "?"
            srcs = [x for x in _calls_in(ne(fn.deep(c.args[1], 10)), [])]
            if srcs and all("_infer_ValueParser_for" in x for x in srcs):
                ctx.ok("cli-arg|%s|inferred-parser#%s" % (arg, fid.split("::")[-1]), fn.where(c.block), "value parser inferred from the field type")
            else:
                ctx.bad("cli-arg|%s|parser|%s" % (arg, ",".join(x.split("::")[-2] if "::" in x else x for x in srcs)[:40]), fn.where(c.block), "the `%s` argument of the CLI validates its value with %s: some program texts (the empty program) are refused on the command line although the library and the other routes run them" % (arg, [x.split("::")[-2:] for x in srcs]))
    ctx.floor("value parsers of the top-level CLI arguments", n, 2)


def r11_the_shared_arenas_are_not_wasted(ctx):
    """The CLI runs the program's frames on top of what the resolver left in the shared scratch arena, the library pipeline
    gives each stage an arena of its own: memory the analyses reserve without needing it is memory the program lacks only in
    the CLI.  Shared with C18-R7 (bit sets are sized *and reserved* in words of the local count) and C07-R10 (front-end memory
    is linear in what it describes)."""
    from .c18 import r7_bit_sets_are_sized_in_words
    from .c07 import r10_front_end_memory_is_linear
    r7_bit_sets_are_sized_in_words(ctx)
    r10_front_end_memory_is_linear(ctx)


def r12_the_cli_locates_what_the_library_found(ctx):
    """The library hands over byte spans; the line and column the CLI prints for them come from the line table.  Shared with
    C07-R5 / R5d (the table starts at 0, has one entry per line break of any kind, and the scan resumes where it recorded)."""
    from .c07 import r5_renderer_boundaries, r5d_the_line_table_and_its_scan_agree
    r5_renderer_boundaries(ctx)
    r5d_the_line_table_and_its_scan_agree(ctx)


def r3b_one_scratch_borrow_at_a_time_for_the_run(ctx):
    """The CLI has two scratch arenas.  The resolver borrows the second one for its working memory and for the rendered
    warnings; the runtime borrows *the same one* for its frames.  With separate arenas (the library pipeline) the frame has its
    whole capacity; in the CLI it has that only if the resolver's borrow has been released - dropped - before the frame's
    borrow is taken.  Otherwise everything the resolver and the warnings left behind stays as dead weight under the frames, and
    a program that runs in the isolated configuration aborts in the CLI."""
    rs = ctx.need("cmd::run_source", ctx.bin)
    ctx.touch(rs)
    sc = [c for c in rs.calls() if (c.callee or "").endswith("scratch_arena") and c.dest is not None and not c.dest["p"]]
    if len(sc) < 2:
        ctx.bad("scratch-borrows|count|%d" % len(sc), rs.where(), "run_source no longer takes a resolver borrow and a frame borrow of the scratch arena")
        return
    sc.sort(key=lambda c: len(rs.dominators(c.block)))
    res, frame = sc[0], sc[-1]
    l = res.dest["l"]
    drops = [b for b in sorted(rs.live) if rs.blocks[b]["t"]["k"] == "drop" and rs.blocks[b]["t"]["of"]["l"] == l and not rs.blocks[b]["t"]["of"]["p"]]
    released = any(rs.dominates(b, frame.block) for b in drops)
    if released:
        ctx.ok("scratch-borrows|resolver-released-before-frame", rs.where(frame.block), "the resolver's ScratchArena is dropped on every path to the frame's scratch_arena call")
    else:
        ctx.bad("scratch-borrows|resolver-still-held", rs.where(frame.block), "run_source takes the frame's borrow of the scratch arena while the resolver's borrow of the same arena is still alive (it is dropped at the end of the block, after the run): the resolver's working memory and the rendered warnings stay under the runtime's frames, so a program that fits the frame arena of the isolated configuration aborts with `memory allocation failed` in the CLI")


def r13_the_record_is_what_was_printed(ctx):
    """The library reports Runtime.output; the CLI prints as it goes.  The two agree only while the recorded copy of a shouted
    value stays intact after the frame it was computed on is gone: shout promotes its argument relative to the *frame* arena
    (a value that merely borrows frame memory is copied), like every other store.  Shared with C02-R5 (every copy routine is
    called with the frame arena in the frame position)."""
    from .c02 import r5_promotion_complete
    r5_promotion_complete(ctx)
    # ... and what the CLI shows around it: a line read from standard input is delivered whole (C17-R3: read_line removes
    # the terminator it found, nothing else), and the markers under a diagnostic are as wide as the text looks (C07-R18)
    from .c17 import r3_each_byte_once_and_unchanged
    from .c07 import r18_marker_widths_are_measured_in_columns
    r3_each_byte_once_and_unchanged(ctx)
    r18_marker_widths_are_measured_in_columns(ctx)


RULES = [("C14-R1", r1_exit_status), ("C14-R2", r2_same_wiring), ("C14-R2b", r2b_cli_prints_the_library_rendering), ("C14-R2c", r2c_routes_are_labelled_apart), ("C14-R3", r3_scratch_rule), ("C14-R3b", r3b_one_scratch_borrow_at_a_time_for_the_run), ("C14-R4", r4_global_state), ("C14-R5", r5_report_gets_the_text_it_parsed), ("C14-R6", r6_errors_anywhere_count), ("C14-R7", r7_scratch_arenas_get_the_configured_capacity), ("C14-R8", r8_every_route_runs_the_text_it_was_given), ("C14-R9", r9_shout_prints_the_value_it_records), ("C14-R10", r10_script_arguments_accept_every_text), ("C14-R11", r11_the_shared_arenas_are_not_wasted), ("C14-R12", r12_the_cli_locates_what_the_library_found), ("C14-R13", r13_the_record_is_what_was_printed)]

EXPLANATION = (
    "R1: every return of cmd::run_source that yields ExitCode::SUCCESS is edge-dominated by 'no parse diagnostics', 'no "
    "resolver errors' and 'no runtime errors'; the program runs only after a clean front end; has_errors tests exactly "
    "Severity::Error. R2: the ordered pipeline call sequence extracted from the CLI's MIR equals the documented library "
    "pipeline (Lexer::new -> Parser::new -> parse_program -> Resolver::with_facts_arena -> resolve -> into_artifacts -> "
    "Runtime::new(arena, Some(frame)) -> run_with_analysis(root, &facts, plan.as_ref())), file/stdin front ends delegate to "
    "run_source; the wasm front end is cfg(target_family = wasm) and cannot be type-checked here, so its one function is "
    "compared lexically (declared weaker instance). R3: the code base's own scratch-arena rule at every call site, the "
    "flip/flop selection and the scoped reset. R4: the only mutable global state is S_SCRATCH, used only by init and "
    "scratch_arena, and init creates-or-resets every element. Not decided: equality of printed output between the two arena "
    "configurations or across run sequences (needs execution)."
)
EXPLANATION += (
    " Added after a seeded change was missed: R2b Diagnostics::report - the CLI's only printing entry point - prints exactly the result of render_ansi and calls no other rendering routine, and render_ansi renders into its buffer."
)
EXPLANATION += (
    ' R5: every Diagnostics::report call of the CLI gets, as its source text, the text that was handed to Lexer::new, and the file name as the label. R6: has_errors examines every diagnostic (Iterator::any over all), never a single element. R7: arena::init creates each scratch arena with exactly the capacity it was asked for (compared as a value).'
)
ASSUMPTIONS = ["the wasm crate is analysed lexically (token scan of run_source's body)"]
TRUSTED = ["rustc nightly MIR for the naija binary crate", "nsx exporter", "regular-expression scan of wasm/src/lib.rs"]
NONTRIVIAL = "one obligation per exit path, per pipeline stage/argument, per scratch_arena call site and per global-state clause"
EXPLANATION += (
    ' R8: what each route hands to run_source is the text it read, through byte-preserving conversions only. R9: shout prints its own parameter with Display and one line break, nothing else. R10: in the derived clap definition of the top-level Cli every value parser is the one inferred from the field type (the empty program is a program).'
)
EXPLANATION += (
    ' Round 6: R2 also requires the stdin reading loop to end only when a read returns 0.'
)
EXPLANATION += (
    ' Round 7: R13 shares C02-R5 (the recorded copy of a shouted value is promoted relative to the frame), C17-R3 (a line read is delivered whole) and C07-R18 (marker widths).'
)

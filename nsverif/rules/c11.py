"""C11 — bump arena contract (mechanism integrity; arithmetic over run-time values declined)."""
import re

from ..guards import cmp_facts, ne, sh
from ..mir import parent_fn
from ..panics import label_names

B = "arena::bump::Arena::"
D = "arena::debug::Arena::"
ALLOC_IMPL = "<arena::bump::Arena as std::alloc::Allocator>::"
DBG_IMPL = "<arena::debug::Arena as std::alloc::Allocator>::"


def ok_returns(fn):
    """Blocks that build Result::Ok into the return place."""
    out = []
    for b in sorted(fn.live):
        for s in fn.blocks[b]["s"]:
            if s["lhs"]["l"] == 0 and s["rv"]["k"] == "agg" and s["rv"]["variant"] == "Ok":
                out.append(b)
    return out


def err_returns(fn):
    out = []
    for b in sorted(fn.live):
        for s in fn.blocks[b]["s"]:
            if s["lhs"]["l"] == 0 and s["rv"]["k"] == "agg" and s["rv"]["variant"] == "Err":
                out.append(b)
    return out


def r1_no_out_of_bounds_block(ctx):
    ar = ctx.need(B + "alloc_raw")
    ctx.touch(ar)
    for b in ok_returns(ar):
        facts = cmp_facts(ar, b)
        if any(op == "Le" and sh(x) == "end" and "commit" in sh(y) for op, x, y, S in facts):
            ctx.ok("alloc_raw|fast-path-within-commit", ar.where(b), "Ok only under end <= commit")
        else:
            ctx.bad("alloc_raw|fast-path-within-commit", ar.where(b), "the fast path returns a block without `end <= commit` (%s): memory beyond the committed region is handed out" % [(o, sh(x), sh(y)) for o, x, y, S in facts])
    bump = ar.calls_to(B + "alloc_raw_bump")
    if bump and all(any(op == "Gt" and sh(x) == "end" and "commit" in sh(y) for op, x, y, S in cmp_facts(ar, c.block)) for c in bump):
        a = [sh(ne(ar.deep(x))) for x in bump[0].args[1:]]
        from ..linear import lin
        # beg is what the fast path adds to the base for the block it hands out (R8 states what that has to be)
        fast_beg = None
        for c in ar.calls():
            if (c.callee or "").endswith("slice_from_raw_parts"):
                pe = ne(ar.deep(c.args[0], 30))
                if pe[0] == "call" and pe[1].split("::")[-1] == "add" and len(pe[2]) == 2:
                    fast_beg = lin(pe[2][1])
        lb = lin(ne(ar.deep(bump[0].args[1], 30)))
        le = lin(ne(ar.deep(bump[0].args[2], 30)))
        want_end = None
        if lb is not None:
            we = dict(lb[0])
            we["bytes"] = we.get("bytes", 0) + 1
            want_end = (we, lb[1])
        if "BitAnd(" in a[0] and lb is not None and lb == fast_beg and le == want_end:
            ctx.ok("alloc_raw|slow-path", ar.where(bump[0].block), "end > commit -> alloc_raw_bump(beg, end)")
        else:
            ctx.bad("alloc_raw|slow-path-args", ar.where(bump[0].block), "alloc_raw_bump is called with (%s, %s), not (beg, end)" % (a[0][:40], a[1][:40]))
    else:
        ctx.bad("alloc_raw|slow-path", ar.where(), "alloc_raw no longer delegates to alloc_raw_bump exactly when end > commit")
    ab = ctx.need(B + "alloc_raw_bump")
    ctx.touch(ab)
    for b in ok_returns(ab):
        facts = cmp_facts(ab, b)
        cap_ok = any(op == "Le" and "commit_new" in sh(x) or op == "Le" and sh(x).startswith("BitAnd(") for op, x, y, S in facts if "capacity" in sh(y))
        commit_ok = False
        for S, al in ab.constraints(b):
            si = ab.switch_info(S)
            if si["kind"] == "call" and (si["callee"] or "").endswith("Result::is_err") and set(al) == {0}:
                if "commit(" in sh(ne(ab.deep(si["call"]["args"][0]))):
                    commit_ok = True
        if cap_ok and commit_ok:
            ctx.ok("alloc_raw_bump|ok-guards", ab.where(b), "Ok only under commit_new <= capacity and a successful commit")
        else:
            ctx.bad("alloc_raw_bump|ok-guards|cap=%s,commit=%s" % (cap_ok, commit_ok), ab.where(b), "alloc_raw_bump returns a block without %s" % ("the capacity test" if not cap_ok else "checking that virtual_memory::commit succeeded"))
    if err_returns(ab):
        ctx.ok("alloc_raw_bump|err", ab.where(err_returns(ab)[0]), "Err(AllocError) on the failing outcomes")
    else:
        ctx.bad("alloc_raw_bump|err", ab.where(), "alloc_raw_bump can no longer fail cleanly")
    # the commit call extends from the old commit by the difference
    cm = [c for c in ab.calls() if (c.callee or "").endswith("VirtualMemory>::commit") or (c.callee or "").endswith("::commit")]
    if cm:
        a0, a1 = sh(ne(ab.deep(cm[0].args[0]))), sh(ne(ab.deep(cm[0].args[1])))
        if "get(self.commit)" in a0 and a1.startswith("Sub(BitAnd(") and "get(self.commit)" in a1:
            ctx.ok("alloc_raw_bump|commit-range", ab.where(cm[0].block), "commit(base + commit_old, commit_new - commit_old)")
        else:
            ctx.bad("alloc_raw_bump|commit-range", ab.where(cm[0].block), "the committed range is (%s, %s)" % (a0[:60], a1[:60]))
    # the returned block starts at base + beg with the requested length
    for fn, beg_word in ((ar, "BitAnd("), (ab, "beg")):
        for c in fn.calls():
            if (c.callee or "").endswith("slice_from_raw_parts"):
                p = sh(ne(fn.deep(c.args[0])))
                if "add(self.base," in p.replace(" ", "") and beg_word in p:
                    ctx.ok("%s|block-at-beg" % fn.id.split("::")[-1], fn.where(c.block), "block = base + beg")
                else:
                    ctx.bad("%s|block-at-beg" % fn.id.split("::")[-1], fn.where(c.block), "the returned block starts at `%s`, not at base + beg (alignment / overlap)" % p[:80])


def cursor_writes(prog, field):
    out = []
    for fn in prog.fns.values():
        if not fn.file.startswith("src/arena"):
            continue
        for c in fn.calls():
            if (c.callee or "").split("::")[-1] in ("set", "replace") and "Cell" in (c.callee or ""):
                t = sh(ne(fn.deep(c.args[0])))
                if t == "self.%s" % field:
                    out.append((parent_fn(fn.id), fn, c))
    return out


def r2_who_writes_cursor(ctx):
    allowed = {"offset": {B + "alloc_raw", B + "alloc_raw_bump", B + "reset", ALLOC_IMPL + "shrink"},
               "commit": {B + "alloc_raw_bump", B + "decommit"}}
    for field, who in allowed.items():
        ws = cursor_writes(ctx.lib, field)
        for pid, fn, c in ws:
            ctx.touch(fn)
            if pid in who:
                ctx.ok("writes|%s|%s" % (field, pid.split("::")[-1]), fn.where(c.block), "audited writer")
            else:
                ctx.bad("writes|%s|%s" % (field, pid), fn.where(c.block), "Arena.%s is written in %s, outside the audited writers %s" % (field, pid, sorted(x.split("::")[-1] for x in who)))
        ctx.floor("writes to Arena.%s" % field, len(ws), len(who))
    rs = ctx.need(B + "reset")
    ctx.touch(rs)
    if rs.is_unsafe:
        ctx.ok("reset|unsafe", rs.where(), "Arena::reset is an unsafe fn")
    else:
        ctx.bad("reset|unsafe", rs.where(), "Arena::reset is no longer unsafe: any safe code can invalidate live allocations")
    reset_sets_its_argument(ctx)


def reset_sets_its_argument(ctx):
    """Arena::reset(to) leaves the watermark at exactly `to` (shared with C02-R4: a watermark below `to` frees live data of
    the caller - the next allocation overwrites it)."""
    rs = ctx.need(B + "reset")
    ctx.touch(rs)
    w = [c for c in rs.calls() if (c.callee or "").split("::")[-1] in ("set", "replace")]
    if w and all(sh(ne(rs.deep(c.args[1]))) == "to" for c in w):
        ctx.ok("reset|to", rs.where(), "offset = to")
    else:
        ctx.bad("reset|to", rs.where(), "reset does not set the offset to its argument (it stores `%s`): a watermark below `to` hands the caller's live bytes just under the mark to the next allocation" % (sh(ne(rs.deep(w[0].args[1])))[:60] if w else "nothing"))
    dr = ctx.lib.fns.get(D + "reset")
    if dr is not None:
        ctx.touch(dr)
        fw = [c for c in dr.calls() if (c.callee or "") == B + "reset"]
        if fw and all(sh(ne(dr.deep(c.args[1]))) == "to" for c in fw):
            ctx.ok("reset|debug-forwards-to", dr.where(), "debug wrapper forwards `to` unchanged")
        else:
            ctx.bad("reset|debug-forwards-to", dr.where(), "the debug wrapper of Arena::reset does not forward its argument unchanged")


def r3_grow(ctx):
    g = ctx.need(ALLOC_IMPL + "grow")
    ctx.touch(g)
    # the tail test
    S = None
    for cand in sorted(g.live):
        if g.blocks[cand]["t"]["k"] == "switch":
            si = g.switch_info(cand)
            if si["kind"] == "call" and (si["callee"] or "").split("::")[-1] == "eq":
                a = [sh(ne(g.deep(x))) for x in si["call"]["args"]]
                if any("add(ptr," in x.replace(" ", "") and "old_layout" in x for x in a) and any("self.base" in x and "self.offset" in x for x in a):
                    S = cand
    if S is None:
        ctx.bad("grow|tail-test", g.where(), "grow no longer tests `ptr + old_size == base + offset` before growing in place: a block that is not the most recent one would be extended over its neighbour")
        return
    ctx.ok("grow|tail-test", g.where(S), "in-place growth only when the block ends at the arena's offset")
    # ... where the block's end is its start plus its *size* (what the caller may use); with the size rounded up to the
    # alignment, a block followed by small neighbours that fill its padding counts as last and grows over them
    si = g.switch_info(S)
    ends = []
    for x in si["call"]["args"]:
        e = ne(g.deep(x))

        def walk(t):
            if isinstance(t, tuple):
                if t[0] == "call" and t[1].split("::")[-1] == "add" and len(t[2]) == 2 and sh(t[2][0]).replace(" ", "") == "ptr":
                    ends.append(sh(t[2][1]).replace(" ", ""))
                for y in t:
                    if isinstance(y, (tuple, list)):
                        walk(y)
            elif isinstance(t, list):
                for y in t:
                    walk(y)
        walk(e)
    if ends and all(x == "size(old_layout)" for x in ends):
        ctx.ok("grow|tail-test|block-end", g.where(S), "block end = ptr + old_layout.size()")
    else:
        ctx.bad("grow|tail-test|block-end", g.where(S), "the tail test takes the block to end at ptr + `%s`, not at ptr + old_layout.size(): a neighbour placed in the block's alignment padding is overwritten by the in-place growth" % (ends[0][:60] if ends else "?"))
    inplace = [c for c in g.calls_to(B + "alloc_raw") if g.edge_dominated(c.block, S, [l for l, _ in g.succ[S] if l != 0])]
    # the block handed back in place keeps its address: it must already satisfy the alignment of the *new* layout (the
    # Allocator contract lets a caller grow to a stricter alignment); either the address is tested against new_layout.align()
    # or the alignments are compared, on every path into the in-place branch
    if inplace:
        tested = False
        wrong_mask = None
        for S2, al in g.constraints(inplace[0].block):
            d = sh(ne(g.deep(g.blocks[S2]["t"]["d"]))).replace(" ", "")
            if "align(new_layout)" in d and ("align(old_layout)" in d or "align_offset(" in d or "is_aligned_to(" in d):
                tested = True
            if "align(new_layout)" in d and "addr(" in d:
                # an address test has to use the low-bit mask align - 1 (or a remainder): `addr & align` looks at one bit
                if re.search(r"BitAnd\(addr\([^)]*\)\)?,Sub\(align\(new_layout\),1\)\)", d) or re.search(r"Rem\(addr\(.*\),align\(new_layout\)\)", d):
                    tested = True
                else:
                    wrong_mask = d
        for op, x, y, S2 in cmp_facts(g, inplace[0].block):
            t = (sh(x) + " " + sh(y)).replace(" ", "")
            if "align(new_layout)" in t and "align(old_layout)" in t:
                tested = True
            elif "align(new_layout)" in t and "addr(" in t:
                # (the same address test reached as a comparison fact - e.g. through a named `aligned` - is held to the same mask)
                if re.search(r"BitAnd\(addr\([^)]*\)\)?,Sub\(align\(new_layout\),1\)\)", t) or re.search(r"Rem\(addr\(.*\),align\(new_layout\)\)", t):
                    tested = True
                else:
                    wrong_mask = wrong_mask or t
        if tested:
            ctx.ok("grow|in-place|alignment", g.where(inplace[0].block), "in place only when the block's address fits new_layout.align()")
        elif wrong_mask:
            ctx.bad("grow|in-place|alignment|mask", g.where(inplace[0].block), "grow tests the block's address with `%s`: that is not the low-bit mask align - 1, so an address with low bits set but that one bit clear counts as aligned and the block is returned misaligned" % wrong_mask[:70])
        else:
            ctx.bad("grow|in-place|alignment", g.where(inplace[0].block), "grow extends the last block in place without looking at new_layout.align(): growing to a stricter alignment returns the old, misaligned address (a debug_assert catches it in debug builds only)")
    tail_labels = [l for l, _ in g.succ[S] if l != 0]
    # the relocating path: everything that is not on the in-place side of the tail test (it may be entered from an earlier
    # test as well - `aligned && tail` - so it is not necessarily edge-dominated by the test's false outcome)
    copy = [c for c in g.calls() if (c.callee or "").endswith("copy_nonoverlapping") and not g.edge_dominated(c.block, S, tail_labels)]
    alloc = [c for c in g.calls() if c.callee in (ALLOC_IMPL + "allocate", B + "alloc_raw") and not g.edge_dominated(c.block, S, tail_labels)]
    if inplace and "Sub(size(new_layout),size(old_layout))" in sh(ne(g.deep(inplace[0].args[1]))).replace(" ", "") and inplace[0].args[2].get("int") == 1:
        ctx.ok("grow|in-place", g.where(inplace[0].block), "alloc_raw(new - old, 1) on the tail path")
    else:
        ctx.bad("grow|in-place", g.where(), "the in-place path does not extend the arena by exactly new_size - old_size with alignment 1")
    if copy and alloc and any(g.dominates(a.block, copy[0].block) for a in alloc):
        cargs = [sh(ne(g.deep(x))) for x in copy[0].args]
        if cargs[0].replace(" ", "") == "as_ptr(ptr)" and cargs[2].replace(" ", "") == "size(old_layout)" and ("allocate" in cargs[1] or "alloc_raw" in cargs[1] or "new_ptr" in cargs[1]):
            ctx.ok("grow|copy", g.where(copy[0].block), "allocate(new_layout) then copy old_size bytes from the old block")
        else:
            ctx.bad("grow|copy-args", g.where(copy[0].block), "the relocating path copies (%s -> %s, %s bytes)" % (cargs[0][:30], cargs[1][:30], cargs[2][:30]))
    else:
        ctx.bad("grow|copy", g.where(), "the relocating path of grow no longer allocates a new block and copies the old contents into it")
    for fid, what in ((ALLOC_IMPL + "grow_zeroed", "grow"), (ALLOC_IMPL + "allocate_zeroed", "alloc_raw")):
        z = ctx.need(fid)
        ctx.touch(z)
        wb = [c for c in z.calls() if (c.callee or "").endswith("write_bytes")]
        base = [c for c in z.calls() if (c.callee or "").split("::")[-1] == what]
        always = bool(wb) and bool(base) and z.must_pass([base[0].block], {wb[0].block}, targets=[b for b in ok_returns(z)] or None)[0]
        if wb and base and z.dominates(base[0].block, wb[0].block) and wb[0].args[1].get("int") == 0 and not always:
            ctx.bad("%s|zeroes|conditionally" % fid.split("::")[-1], z.where(wb[0].block), "%s skips the zero fill on some successful paths: committed-but-recycled memory (released by reset, or poisoned in debug builds) is handed out as `zeroed`" % fid.split("::")[-1])
        elif wb and base and z.dominates(base[0].block, wb[0].block) and wb[0].args[1].get("int") == 0:
            ctx.ok("%s|zeroes" % fid.split("::")[-1], z.where(wb[0].block), "write_bytes(0, ..) after the allocation")
        else:
            ctx.bad("%s|zeroes" % fid.split("::")[-1], z.where(), "%s no longer zero-fills after allocating" % fid.split("::")[-1])
    gz = ctx.need(ALLOC_IMPL + "grow_zeroed")
    wb = [c for c in gz.calls() if (c.callee or "").endswith("write_bytes")]
    if wb:
        tgt, ln = sh(ne(gz.deep(wb[0].args[0]))), sh(ne(gz.deep(wb[0].args[2])))
        if "grow(" not in tgt:
            ctx.bad("grow_zeroed|zeroes-old-block", gz.where(wb[0].block), "grow_zeroed zero-fills through `%s`, not through the block grow() returned: when the block had to move, the zeros land behind the old location (on a live neighbour) and the new tail stays dirty" % tgt[:60])
        elif "size(old_layout)" in tgt.replace(" ", "") and "Sub(size(new_layout),size(old_layout))" in ln.replace(" ", ""):
            ctx.ok("grow_zeroed|range", gz.where(wb[0].block), "zeroes [old_size, new_size)")
        else:
            ctx.bad("grow_zeroed|range", gz.where(wb[0].block), "grow_zeroed zeroes (%s, %s): the preserved prefix is overwritten or the new tail is not cleared" % (tgt[:50], ln[:50]))
    sk = ctx.need(ALLOC_IMPL + "shrink")
    ctx.touch(sk)
    w = [c for c in sk.calls() if (c.callee or "").split("::")[-1] in ("set", "replace") and sh(ne(sk.deep(c.args[0]))) == "self.offset"]
    for c in w:
        tail = False
        for S2, al in sk.constraints(c.block):
            si = sk.switch_info(S2)
            if si["kind"] == "call" and (si["callee"] or "").split("::")[-1] == "eq" and 0 not in al:
                tail = True
        if tail:
            ctx.ok("shrink|tail-only", sk.where(c.block), "offset moved back only for the last block")
        else:
            ctx.bad("shrink|tail-only", sk.where(c.block), "shrink moves the offset without the tail test")


def r4_debug_wrapper(ctx):
    if ctx.cfg != "dev":
        ctx.note("debug::Arena exists only with debug_assertions; forwarding checked in the dev configuration")
        return
    pairs = [
        (D + "offset", B + "offset", True), (D + "reset", B + "reset", True), (D + "contains_ptr", B + "contains_ptr", False),
        (D + "decommit", B + "decommit", True), (D + "alloc_uninit", B + "alloc_uninit", True), (D + "alloc_uninit_slice", B + "alloc_uninit_slice", True),
        (DBG_IMPL + "allocate", B + "alloc_raw", True), (DBG_IMPL + "allocate_zeroed", ALLOC_IMPL + "allocate_zeroed", True),
        (DBG_IMPL + "deallocate", ALLOC_IMPL + "deallocate", True), (DBG_IMPL + "grow", ALLOC_IMPL + "grow", True),
        (DBG_IMPL + "grow_zeroed", ALLOC_IMPL + "grow_zeroed", True), (DBG_IMPL + "shrink", ALLOC_IMPL + "shrink", True),
    ]
    for wrapper, target, checked in pairs:
        w = ctx.need(wrapper)
        ctx.touch(w)
        tc = [c for c in w.calls() if c.callee == target]
        via = [c for c in w.calls() if c.callee == D + ("delegate_target" if checked else "delegate_target_unchecked")]
        name = wrapper.split("::")[-1]
        if len(tc) == 1 and via and w.dominates(via[0].block, tc[0].block):
            # arguments forwarded in order
            fwd = [sh(ne(w.deep(a))) for a in tc[0].args[1:]]
            params = [w.locals[i]["name"] for i in range(2, w.argc + 1)]
            if target == B + "alloc_raw":
                good = fwd == ["size(layout)", "align(layout)"]
            else:
                good = fwd == params
            if good:
                ctx.ok("forward|%s" % name, w.where(), "-> %s through %s" % (target.split("::")[-1], via[0].callee.split("::")[-1]))
            else:
                ctx.bad("forward|%s|args" % name, w.where(), "debug::Arena::%s forwards (%s) for parameters (%s)" % (name, fwd, params))
        else:
            ctx.bad("forward|%s" % name, w.where(), "debug::Arena::%s does not forward to %s through %s (calls: %s)" % (name, target, "delegate_target" if checked else "delegate_target_unchecked", sorted({c.callee.split('::')[-1] for c in w.calls() if c.callee})))
    dt = ctx.need(D + "delegate_target")
    ctx.touch(dt)
    if any(c.target is None for c in dt.calls()):
        ctx.ok("delegate_target|borrow-check", dt.where(), "asserts that the newest borrower is calling")
    else:
        ctx.bad("delegate_target|borrow-check", dt.where(), "delegate_target no longer asserts the borrow order")


def r5_scoped_reset(ctx):
    dr = ctx.need("<arena::scratch::ScratchArena as std::ops::Drop>::drop")
    ctx.touch(dr)
    rs = [c for c in dr.calls() if (c.callee or "").endswith("Arena::reset")]
    dc = [c for c in dr.calls() if (c.callee or "").endswith("Arena::decommit")]
    if rs and dc and dr.dominates(rs[0].block, dc[0].block) and "offset" in sh(ne(dr.deep(rs[0].args[1]))):
        ctx.ok("drop|reset-then-decommit", dr.where(), "reset(self.offset) then decommit()")
    else:
        ctx.bad("drop|reset-then-decommit", dr.where(), "ScratchArena::drop no longer resets to its creation offset before decommitting")
    # the mark a scratch borrow resets to is the watermark at the moment of the borrow, to the byte: a mark rounded *down*
    # gives back the tail of the block directly below it (poisoned on release, overlapped by the next allocation)
    k = 0
    for fid, g in sorted(ctx.lib.fns.items()):
        if not fid.startswith("arena::scratch::ScratchArena") or not fid.endswith("::new"):
            continue
        for b in sorted(g.live):
            for st in g.blocks[b]["s"]:
                rv = st["rv"]
                if rv["k"] == "agg" and str(rv.get("adt", "")).endswith("ScratchArena"):
                    flds = [f[0] for f in ctx.lib.adt("arena::scratch::ScratchArena")["variants"][0]["fields"]]
                    vals = {f: sh(ne(g.deep(o, 10))).replace(" ", "") for f, o in zip(flds, rv["ops"])}
                    k += 1
                    ctx.touch(g)
                    mark = vals.get("offset", "?")
                    if re.fullmatch(r"offset\((\*?arena|self\.arena|arena)\)", mark):
                        ctx.ok("scratch|mark-is-the-watermark", g.where(b), "offset = arena.offset()")
                    else:
                        ctx.bad("scratch|mark|%s" % mark[:30], g.where(b), "a scratch borrow records `%s` as the mark it will reset to, not the arena's watermark: whatever lies between the two belongs to a live block of the lender and is released with the borrow" % mark[:60])
    ctx.floor("scratch borrows that record a mark", k, 1)
    de = ctx.need(B + "decommit")
    ctx.touch(de)
    ws = [c for c in de.calls() if (c.callee or "").split("::")[-1] in ("set", "replace") and sh(ne(de.deep(c.args[0]))) == "self.commit"]
    vm = [c for c in de.calls() if (c.callee or "").endswith("::decommit") and "VirtualMemory" in (c.callee or "") or (c.callee or "").endswith("UnixVirtualMemory::decommit")]
    for c in ws + vm:
        facts = cmp_facts(de, c.block)
        if any(op == "Lt" and (sh(x).startswith("BitAnd(") or sh(x) == "keep") and "commit" in sh(y) for op, x, y, S in facts):
            ctx.ok("decommit|only-when-keep-below-commit#%d" % c.block, de.where(c.block), "under keep < commit")
        else:
            ctx.bad("decommit|unguarded", de.where(c.block), "decommit releases pages / lowers the commit mark without `keep < commit`")
    if vm:
        a0, a1 = sh(ne(de.deep(vm[0].args[0]))), sh(ne(de.deep(vm[0].args[1])))
        if "BitAnd(" in a0 and a1.startswith("Sub(get(self.commit),BitAnd("):
            ctx.ok("decommit|range", de.where(vm[0].block), "decommit(base + keep, commit - keep)")
        else:
            ctx.bad("decommit|range", de.where(vm[0].block), "decommit releases (%s, %s)" % (a0[:60], a1[:60]))


def round_up_form(e, align_text):
    """(x + a - 1) & !(a - 1) in either association."""
    t = sh(e).replace(" ", "")
    a = align_text
    ok1 = t.startswith("BitAnd(Sub(Add(") and t.endswith(",Not(Sub(%s,1)))" % a) and (",%s),1)" % a) in t
    ok2 = t.startswith("BitAnd(Add(") and ("Sub(%s,1))" % a) in t and t.endswith(",Not(Sub(%s,1)))" % a)
    return ok1 or ok2


def r6_roundings(ctx):
    chunk = None
    c = ctx.lib.consts.get("arena::bump::ALLOC_CHUNK_SIZE")
    if c and "bytes" in c:
        chunk = int.from_bytes(bytes.fromhex(c["bytes"]), "little")
    if chunk is None or chunk & (chunk - 1):
        ctx.bad("chunk-size", "src/arena/bump.rs", "ALLOC_CHUNK_SIZE (%s) is not a power of two: the mask idiom does not round" % chunk)
        return
    ctx.ok("chunk-size", "src/arena/bump.rs", "ALLOC_CHUNK_SIZE = %d (power of two)" % chunk)
    sites = [(B + "new", "capacity", str(chunk)), (B + "alloc_raw", "beg", "alignment"), (B + "alloc_raw_bump", "commit_new", str(chunk)), (B + "decommit", "keep", str(chunk))]
    for fid, var, align in sites:
        fn = ctx.need(fid)
        ctx.touch(fn)
        found = None
        for b in sorted(fn.live):
            for s in fn.blocks[b]["s"]:
                if s["rv"]["k"] == "bin" and s["rv"]["op"] == "BitAnd":
                    found = (b, ne(fn.deep_rvalue(s["rv"])))
        if found is None:
            # other accepted idioms
            alt = [c for c in fn.calls() if (c.callee or "").split("::")[-1] in ("next_multiple_of", "div_ceil")]
            if alt:
                ctx.ok("round-up|%s" % var, fn.where(alt[0].block), "%s" % alt[0].callee.split("::")[-1])
            else:
                ctx.bad("round-up|%s|missing" % var, fn.where(), "%s is no longer rounded with a recognised round-up idiom" % var)
            continue
        b, e = found
        if round_up_form(e, align):
            ctx.ok("round-up|%s" % var, fn.where(b), "(x + %s - 1) & !(%s - 1)" % (align, align))
        else:
            ctx.bad("round-up|%s|%s" % (var, sh(e)[:50]), fn.where(b), "%s = %s is not the round-UP idiom (x + a - 1) & !(a - 1) with a = %s: a round-down would hand out unaligned/overlapping blocks or release live pages" % (var, sh(e)[:90], align))


def r7_typed_front_ends(ctx):
    """alloc_uninit::<T>() and alloc_uninit_slice::<T>(n) hand out memory for one T / n Ts: the raw request is size_of::<T>()
    (times n) bytes at align_of::<T>(), and the slice they return has exactly n elements."""
    for fid, want_size in ((B + "alloc_uninit", "size_of()"), (B + "alloc_uninit_slice", "Mul(size_of(),count)")):
        f = ctx.need(fid)
        ctx.touch(f)
        ar = f.calls_to(B + "alloc_raw")
        short = fid.split("::")[-1]
        if len(ar) != 1:
            ctx.bad("typed|%s|shape" % short, f.where(), "%s no longer makes exactly one alloc_raw request" % short)
            continue
        size = sh(ne(f.deep(ar[0].args[1]))).replace(" ", "")
        align = sh(ne(f.deep(ar[0].args[2]))).replace(" ", "")
        mirror = "Mul(count,size_of())"
        # the product as a checked multiplication whose failure panics (expect / unwrap) is the same request
        m = re.match(r"^(?:expect|unwrap)\(checked_mul\(([a-z_]+\(\),count|count,[a-z_]+\(\))\)(?:,\"[^\"]*\")?\)$", size)
        checked = bool(m)
        if m:
            size = "Mul(%s)" % m.group(1)
        if short == "alloc_uninit_slice":
            wraps = any(st["rv"]["k"] == "bin" and st["rv"]["op"] in ("Mul", "MulUnchecked") for b in f.live for st in f.blocks[b]["s"]) or any((c.callee or "").split("::")[-1] in ("wrapping_mul", "unchecked_mul") for c in f.calls())
            if checked and not wraps:
                ctx.ok("typed|%s|product-checked" % short, f.where(ar[0].block), "size_of::<T>().checked_mul(count), a failed product panics")
            else:
                ctx.bad("typed|%s|product-can-wrap" % short, f.where(ar[0].block), "alloc_uninit_slice computes size_of::<T>() * count with an operator that wraps in a build without overflow checks (the release profile): a count above usize::MAX / size_of::<T>() is served from a few bytes and the caller gets a slice of `count` elements over memory it does not own, instead of a clean failure")
        # ... of the element type itself: `align_of::<usize>()` prints the same and is right only for word-aligned types
        ao = [c for c in f.calls() if (c.callee or "").endswith("mem::align_of")]
        so = [c for c in f.calls() if (c.callee or "").endswith("mem::size_of")]
        gen = lambda c: [str(x) for x in (f.blocks[c.block]["t"].get("gargs") or f.blocks[c.block]["t"].get("res_args") or [])]
        tparam = [g for c in so for g in gen(c)][:1]
        if ao and tparam and any(gen(c)[:1] != tparam for c in ao):
            ctx.bad("typed|%s|alignment-of|%s" % (short, ",".join(gen(ao[0]))[:20]), f.where(ao[0].block), "%s::<T> aligns its block as align_of::<%s>() while it sizes it as size_of::<%s>(): a type aligned more strictly than that (u128, #[repr(align(64))]) comes back misaligned" % (short, ",".join(gen(ao[0])), ",".join(tparam)))
        if size in (want_size, mirror) and align == "align_of()":
            ctx.ok("typed|%s|request" % short, f.where(ar[0].block), "alloc_raw(%s, %s)" % (size, align))
        else:
            ctx.bad("typed|%s|request|%s,%s" % (short, size[:24], align[:12]), f.where(ar[0].block), "%s::<T> requests `%s` bytes aligned to `%s` instead of %s at align_of::<T>(): for a type whose size differs from its alignment the block is too small (it overlaps the next allocation / reaches uncommitted memory) or misaligned" % (short, size, align, want_size))
        if short == "alloc_uninit_slice":
            fr = [c for c in f.calls() if (c.callee or "").endswith("from_raw_parts_mut")]
            if fr and sh(ne(f.deep(fr[0].args[1]))) == "count":
                ctx.ok("typed|%s|length" % short, f.where(fr[0].block), "slice of `count` elements")
            else:
                ctx.bad("typed|%s|length" % short, f.where(), "alloc_uninit_slice returns a slice whose length is not `count`")


def r8_watermark_arithmetic(ctx):
    """What the allocator primitives store and hand out, stated as values (linear normal forms, so the spelling is free):
    alloc_raw returns `bytes` bytes at base + beg and leaves the watermark at beg + bytes; alloc_raw_bump returns end - beg
    bytes at base + beg and leaves it at end; in-place grow extends by new - old; shrink of the tail block leaves the
    watermark at offset - old + new, i.e. at the end of the kept part."""
    from ..linear import lin, show
    from ..flow import reaching_expr

    def L(fn, operand, block):
        return lin(ne(reaching_expr(fn, fn.deep(operand, 30), block)))

    def want(fn, c, operand, expected, key, what, consequence):
        got = L(fn, operand, c.block)
        if got == expected:
            ctx.ok(key, fn.where(c.block), "%s = %s" % (what, show(ne(reaching_expr(fn, fn.deep(operand, 30), c.block)))))
        else:
            ctx.bad(key, fn.where(c.block), "%s is `%s`, not `%s`: %s" % (what, show(ne(reaching_expr(fn, fn.deep(operand, 30), c.block))), " + ".join("%s%s" % ("" if v == 1 else "-" if v == -1 else str(v) + "*", k) for k, v in sorted(expected[0].items())).replace("+ -", "- ") or str(expected[1]), consequence))
    n = 0
    ar = ctx.need(B + "alloc_raw")
    ctx.touch(ar)
    # beg: the one opaque (rounded) leaf in the pointer handed out
    beg = None
    for c in ar.calls():
        if (c.callee or "").endswith("slice_from_raw_parts"):
            pe = ne(ar.deep(c.args[0], 30))
            if pe[0] == "call" and pe[1].split("::")[-1] == "add" and len(pe[2]) == 2:
                beg = pe[2][1]
            n += 1
            want(ar, c, c.args[1], ({"bytes": 1}, 0), "arith|alloc_raw|length", "the length of the block alloc_raw hands out", "the caller is told it owns bytes that belong to the padding before the block or to the next block (allocate_zeroed and Vec write through that length)")
    for c in ar.calls():
        if (c.callee or "").split("::")[-1] in ("set", "replace") and sh(ne(ar.deep(c.args[0]))) == "self.offset" and beg is not None:
            n += 1
            lb = lin(beg) or ({sh(beg): 1}, 0)
            exp = dict(lb[0])
            exp["bytes"] = exp.get("bytes", 0) + 1
            want(ar, c, c.args[1], (exp, lb[1]), "arith|alloc_raw|watermark", "the watermark after alloc_raw", "the next block overlaps this one or memory is skipped")
    ab = ctx.need(B + "alloc_raw_bump")
    ctx.touch(ab)
    for c in ab.calls():
        short = (c.callee or "").split("::")[-1]
        if short == "slice_from_raw_parts":
            n += 1
            want(ab, c, c.args[1], ({"end": 1, "beg": -1}, 0), "arith|alloc_raw_bump|length", "the length of the block alloc_raw_bump hands out", "the block's length does not match the range [beg, end) that was reserved for it")
        if short in ("set", "replace") and sh(ne(ab.deep(c.args[0]))) == "self.offset":
            n += 1
            want(ab, c, c.args[1], ({"end": 1}, 0), "arith|alloc_raw_bump|watermark", "the watermark after alloc_raw_bump", "the next block overlaps this one or memory is skipped")
    g = ctx.need(ALLOC_IMPL + "grow")
    ctx.touch(g)
    for c in g.calls_to(B + "alloc_raw"):
        if len(c.args) > 1:
            n += 1
            want(g, c, c.args[1], ({"size(new_layout)": 1, "size(old_layout)": -1}, 0), "arith|grow|in-place-delta", "the number of bytes in-place grow adds", "the grown block is shorter than promised or the watermark moves past it")
    for c in g.calls():
        if (c.callee or "").endswith("slice_from_raw_parts"):
            n += 1
            want(g, c, c.args[1], ({"size(new_layout)": 1}, 0), "arith|grow|length", "the length of the block grow returns", "the caller is told a different size than it asked for")
    sk = ctx.need(ALLOC_IMPL + "shrink")
    ctx.touch(sk)
    for c in sk.calls():
        if (c.callee or "").split("::")[-1] in ("set", "replace") and sh(ne(sk.deep(c.args[0]))) == "self.offset":
            n += 1
            want(sk, c, c.args[1], ({"get(self.offset)": 1, "size(new_layout)": 1, "size(old_layout)": -1}, 0), "arith|shrink|watermark", "the watermark after shrinking the tail block", "shrinking to more than half puts the watermark inside the kept part (the next allocation overwrites its tail); to less than half it wastes space")
    ctx.floor("allocator lengths / watermarks compared as values", n, 7)


def r9_os_failure_values(ctx):
    """The OS signals failure of mprotect / munmap / madvise with -1 (and success with 0).  Wherever the status of such a
    call is tested, the test sends -1 to the error outcome and 0 to the success outcome."""
    n = 0
    for fid, fn in sorted(ctx.lib.fns.items()):
        if not fn.file.startswith("src/sys/"):
            continue
        for c in fn.calls():
            cal = c.callee or ""
            if not re.match(r"^libc::(\w+::)*(mprotect|munmap|madvise|mlock|msync)$", cal) or c.dest is None:
                continue
            r = c.dest["l"]
            for S in sorted(fn.live):
                if fn.blocks[S]["t"]["k"] != "switch":
                    continue
                si = fn.switch_info(S)
                if si["kind"] != "bin" or si["op"] not in ("Eq", "Ne", "Lt", "Le", "Gt", "Ge"):
                    continue

                def is_status(o):
                    pl = (o.get("move") or o.get("copy")) if isinstance(o, dict) else None
                    hops = 0
                    while pl is not None and not pl["p"] and hops < 4:
                        if pl["l"] == r:
                            return True
                        dd = fn.whole_defs(pl["l"])
                        if len(dd) != 1 or dd[0][1] == "t" or dd[0][2]["rv"]["k"] not in ("use", "cast"):
                            return False
                        a = dd[0][2]["rv"]["a"]
                        pl = (a.get("move") or a.get("copy")) if isinstance(a, dict) else None
                        hops += 1
                    return False
                a, b2 = si["a"], si["b"]
                if is_status(a) and isinstance(b2, dict) and b2.get("int") is not None:
                    k, flip = b2["int"], False
                elif is_status(b2) and isinstance(a, dict) and a.get("int") is not None:
                    k, flip = a["int"], True
                else:
                    continue
                if k >= 2 ** 31:
                    k -= 2 ** 32
                n += 1
                ctx.touch(fn)

                def holds(v):
                    x, y = (k, v) if flip else (v, k)
                    return {"Eq": x == y, "Ne": x != y, "Lt": x < y, "Le": x <= y, "Gt": x > y, "Ge": x >= y}[si["op"]]
                errs = {bb for bb in fn.live for st in fn.blocks[bb]["s"] if st["rv"]["k"] == "agg" and st["rv"].get("variant") == "Err"}
                oks = {bb for bb in fn.live for st in fn.blocks[bb]["s"] if st["rv"]["k"] == "agg" and st["rv"].get("variant") == "Ok"}
                out = {}
                for v in (-1, 0):
                    tgt = [j for lab, j in fn.succ[S] if (lab != 0) == holds(v)]
                    rr = fn.reach(tgt)
                    out[v] = ("Err" if rr & errs and not rr & oks else "Ok" if rr & oks and not rr & errs else "mixed")
                key = "os-status|%s|%s" % (parent_fn(fid).split("::")[-1], cal.split("::")[-1])
                if out[-1] == "Err" and out[0] == "Ok":
                    ctx.ok(key, fn.where(S), "%s(status, %d): -1 -> Err, 0 -> Ok" % (si["op"], k))
                else:
                    ctx.bad(key + "|%s%d" % (si["op"], k), fn.where(S), "the status of %s is tested with %s %d, which sends the failure value -1 to the %s outcome and 0 to the %s outcome: a refused request is treated as done (the arena then hands out memory that was never made accessible)" % (cal.split("::")[-1], si["op"], k, out[-1], out[0]))
    ctx.floor("tested statuses of memory-management system calls", n, 1)


def r10_raw_writes_end_inside_the_committed_region(ctx):
    """Every raw write the bump allocator itself makes through base + start (the debug poison fills of reset, alloc_raw and
    alloc_raw_bump) ends at a value that is capped by the commit mark: start + len, in linear normal form, is one `min(..)`
    with the commit mark as an operand.  A fill that can run past the mark touches pages that are not committed (SIGSEGV) or,
    when the arena is fully committed, memory behind the reservation."""
    from ..linear import lin
    n = 0
    for fn in ctx.lib.fns.values():
        if fn.file != "src/arena/bump.rs":
            continue
        for c in fn.calls():
            short = (c.callee or "").split("::")[-1]
            if short not in ("from_raw_parts_mut", "write_bytes"):
                continue
            ptr = ne(fn.deep(c.args[0]))
            ptxt = sh(ptr).replace(" ", "")
            m = re.search(r"add\(self\.base,", ptxt)
            if not m:
                continue        # a block obtained from alloc_raw / grow: sized by that call (R7, R3)
            # start operand of base.add(start)
            start = None

            def find(e):
                nonlocal start
                if isinstance(e, tuple):
                    if e[0] == "call" and e[1].split("::")[-1] == "add" and len(e[2]) == 2 and sh(e[2][0]).replace(" ", "") == "self.base":
                        start = e[2][1]
                        return
                    for x in e:
                        if isinstance(x, (tuple, list)):
                            find(x)
                elif isinstance(e, list):
                    for x in e:
                        find(x)
            find(ptr)
            if start is None:
                continue
            n += 1
            ctx.touch(fn)
            ln = ne(fn.deep(c.args[-1]))
            end = lin(("bin", "Add", start, ln))
            key = "raw-write|%s|%s" % (parent_fn(fn.id).split("::")[-1], short)
            capped = False
            if end is not None and end[1] == 0 and len(end[0]) == 1 and list(end[0].values()) == [1]:
                atom = list(end[0])[0].replace(" ", "")
                capped = atom.startswith("min(") and "get(self.commit)" in atom
            if not capped:
                # ... or a dominating comparison caps it
                capped = end is not None and any(op == "Le" and lin(x) == end and "commit" in sh(y) for op, x, y, S in cmp_facts(fn, c.block))
            if capped:
                ctx.ok(key, fn.where(c.block), "ends at %s" % (list(end[0])[0][:70] if end and end[0] else "?"))
            else:
                from ..linear import show as lshow
                ctx.bad(key, fn.where(c.block), "the raw write starting at base + %s ends at `%s`, which is not capped by the commit mark: when the watermark sits just below a commit boundary the write runs into uncommitted pages (or past the reservation)" % (sh(start)[:40], lshow(("bin", "Add", start, ln))[:120]))
    ctx.floor("raw writes through base + start", n, 3)


def r11_growth_is_reserved_before_the_raw_copy(ctx):
    """The vector/string front ends that write through raw pointers (vec_replace_impl: ptr::copy / copy_nonoverlapping /
    set_len) obtain the room first: a reserve of X - Y is taken exactly when X > Y (the comparison has the operands of the
    subtraction), and it comes before the pointer is taken.  With a narrower condition the copies run past the block the
    arena handed out, into its neighbour."""
    n = 0
    for fn in ctx.lib.fns.values():
        if fn.file != "src/arena/string.rs":
            continue
        raw = [c for c in fn.calls() if (c.callee or "").split("::")[-1] in ("copy", "copy_nonoverlapping", "set_len") and ("ptr::" in (c.callee or "") or "intrinsics" in (c.callee or "") or (c.callee or "").endswith("set_len"))]
        if not raw:
            continue
        for c in fn.calls():
            if (c.callee or "").split("::")[-1] not in ("reserve", "reserve_exact") or len(c.args) < 2:
                continue
            amt = ne(fn.expr(c.args[1], 3))
            if not (amt[0] == "bin" and amt[1].startswith("Sub")):
                continue
            n += 1
            ctx.touch(fn)
            X, Y = sh(amt[2]), sh(amt[3])
            facts = [(op, sh(x), sh(y)) for op, x, y, S in cmp_facts(fn, c.block)]
            key = "reserve|%s|guard" % parent_fn(fn.id).split("::")[-1]
            exact = ("Gt", X, Y) in facts or ("Lt", Y, X) in facts
            # the pointer the copies go through is taken after the reserve: a reserve may move the buffer, and a pointer
            # obtained before it points into the old block (and, after the move, over whatever follows it)
            ptrs = [q for q in fn.calls() if (q.callee or "").split("::")[-1] in ("as_mut_ptr", "as_ptr") and q.args and sh(ne(fn.deep(q.args[0]))).replace("&mut ", "").replace(" ", "") == sh(ne(fn.deep(c.args[0]))).replace("&mut ", "").replace(" ", "")]
            stale = [q for q in ptrs if c.block in fn.reach_from_succ(q.block) or q.block == c.block and False]
            if stale:
                ctx.bad("reserve|%s|pointer-taken-before" % parent_fn(fn.id).split("::")[-1], fn.where(stale[0].block), "%s takes the buffer's pointer before it reserves room: when the reserve has to move the buffer (the string is not the arena's last block) the copies go through the stale pointer into the old block and over its neighbour" % parent_fn(fn.id).split("::")[-1])
                continue
            if exact and all(fn.dominates(c.block, r.block) or not (c.block in fn.reach([r.block])) for r in raw):
                ctx.ok(key, fn.where(c.block), "reserve(%s - %s) exactly when %s > %s, before the raw copies" % (X, Y, X, Y))
            elif not facts:
                ctx.ok(key, fn.where(c.block), "unconditional reserve")
            else:
                ctx.bad(key, fn.where(c.block), "reserve(%s - %s) is taken under %s, not under %s > %s: when the replacement is longer than the part it replaces but the condition is false, the raw copies write past the end of the block" % (X, Y, facts, X, Y))
    ctx.floor("guarded reserves before raw copies", n, 1)


def r12_alignment_is_a_property_of_the_address(ctx):
    """`Is aligned as requested`, for any alignment: alloc_raw rounds the *offset* up to the alignment, so the block's address
    base + beg is aligned only as far as `base` itself is.  The reservation comes from the OS page-aligned; for alignments up
    to the page size the two agree.  The rule asks for one of: the rounding is applied to the address (the base's address
    enters the round-up), or the request's alignment is tested against what the base guarantees."""
    ar = ctx.need(B + "alloc_raw")
    ctx.touch(ar)
    rounded = None
    for b in sorted(ar.live):
        for st in ar.blocks[b]["s"]:
            if st["rv"]["k"] == "bin" and st["rv"]["op"] == "BitAnd":
                rounded = (b, sh(ne(ar.deep_rvalue(st["rv"]))).replace(" ", ""))
    if rounded is None:
        ctx.ok("alignment|address|other-idiom", ar.where(), "no mask rounding in alloc_raw (R6 decides the idiom)")
        return
    b, t = rounded
    on_address = "self.base" in t or "addr(" in t
    guarded = any("alignment" in (sh(x) + sh(y)) and re.search(r"PAGE|page|4096|ALLOC_CHUNK", sh(x) + sh(y)) for fn in (ar,) for blk in fn.live for op, x, y, S in cmp_facts(fn, blk))
    if on_address or guarded:
        ctx.ok("alignment|address", ar.where(b), "rounded on the address" if on_address else "alignment tested against the base's")
    else:
        ctx.bad("alignment|offset-not-address", ar.where(b), "alloc_raw aligns the offset (`%s`), not the address: for an alignment above the page size the block is misaligned whenever the reservation's base is not a multiple of it (a 64 KiB-aligned request in a 256 KiB arena is off by 32 KiB)" % t[:70])


def r13_the_end_of_a_request_cannot_wrap(ctx):
    """`A request that does not fit fails cleanly`: the size is the caller's (alloc_uninit_slice::<u8>(usize::MAX - 50) reaches
    alloc_raw with it), so beg + bytes is computed with overflow detection whose failure is the allocation error - a plain `+`
    panics in a debug build and *wraps* in the release profile, where the wrapped end lies below the commit mark, the request
    `succeeds`, the caller gets a block of 2^64 bytes and the watermark moves backwards over live data.  Likewise the commit
    mark is rounded up from `end` only after `end` has been compared with the capacity."""
    ar = ctx.need(B + "alloc_raw")
    ctx.touch(ar)
    bump = ar.calls_to(B + "alloc_raw_bump")
    if not bump:
        ctx.bad("end|anchor", ar.where(), "alloc_raw no longer delegates to alloc_raw_bump")
        return
    e = ne(ar.deep(bump[0].args[2], 30))
    t = sh(e).replace(" ", "")
    checked = "checked_add(" in t and ("ok_or(" in t or "unwrap(" in t or "expect(" in t or "branch(" in t)
    if checked:
        ctx.ok("end|checked-sum", ar.where(bump[0].block), "end = beg.checked_add(bytes), failure is the allocation error")
    else:
        ctx.bad("end|sum-can-wrap", ar.where(bump[0].block), "alloc_raw computes the end of the block as `%s` with an operator that wraps when overflow checks are off (the release profile): a request of nearly usize::MAX bytes wraps to an end below the commit mark and is served - a block of 2^64 bytes over live data - instead of failing" % t[-60:])
    ab = ctx.need(B + "alloc_raw_bump")
    ctx.touch(ab)
    rounded = None
    for b in sorted(ab.live):
        for st in ab.blocks[b]["s"]:
            if st["rv"]["k"] == "bin" and st["rv"]["op"] == "BitAnd":
                rounded = b
    if rounded is None:
        return
    guarded = any(op in ("Le", "Lt") and sh(x) == "end" and "capacity" in sh(y) for op, x, y, S in cmp_facts(ab, rounded)) or any("checked" in (c.callee or "") or "next_multiple_of" in (c.callee or "") for c in ab.calls() if c.block == rounded or ab.dominates(c.block, rounded))
    if guarded:
        ctx.ok("commit-rounding|after-capacity-test", ab.where(rounded), "end <= capacity before it is rounded up to the chunk size")
    else:
        ctx.bad("commit-rounding|can-wrap", ab.where(rounded), "alloc_raw_bump rounds `end` up to the chunk size before anything has compared it with the capacity: for an end within 64 KiB of usize::MAX the rounding wraps to 0, passes the capacity test and the request is served")


RULES = [("C11-R1", r1_no_out_of_bounds_block), ("C11-R2", r2_who_writes_cursor), ("C11-R3", r3_grow), ("C11-R4", r4_debug_wrapper), ("C11-R10", r10_raw_writes_end_inside_the_committed_region), ("C11-R11", r11_growth_is_reserved_before_the_raw_copy), ("C11-R12", r12_alignment_is_a_property_of_the_address), ("C11-R13", r13_the_end_of_a_request_cannot_wrap),
         ("C11-R5", r5_scoped_reset), ("C11-R6", r6_roundings), ("C11-R7", r7_typed_front_ends), ("C11-R8", r8_watermark_arithmetic),
         ("C11-R9", r9_os_failure_values)]

EXPLANATION = (
    "R1: alloc_raw's fast path returns Ok only under end <= commit and otherwise delegates (beg, end) to alloc_raw_bump, which "
    "returns Ok only under commit_new <= capacity and a successful commit of exactly [commit_old, commit_new), else "
    "Err(AllocError); the returned block starts at base + beg. R2: Arena.offset / Arena.commit are written only by the audited "
    "methods; reset is unsafe and sets offset = to. R3: grow extends in place only under `ptr + old_size == base + offset`, "
    "otherwise allocates and copies old_size bytes; grow_zeroed / allocate_zeroed zero exactly the new range; shrink moves the "
    "cursor only for the tail block. R4 (dev): every method of the debug wrapper forwards to the same-named bump method through "
    "the checked target with its parameters in order. R5: scoped reset then decommit, decommit only under keep < commit over "
    "[keep, commit). R6: the four roundings use the round-up mask idiom with a power-of-two chunk (idiom recognition, fails "
    "closed on an unrecognised form). Not decided: that blocks are disjoint over a history, behaviour at the 64 KiB and "
    "capacity boundaries, arithmetic overflow - value reasoning declined for this family."
)
EXPLANATION += (
    " R7: alloc_uninit / alloc_uninit_slice request size_of::<T>() (* count) bytes at align_of::<T>() and return `count` elements."
)
EXPLANATION += (
    ' R8: what the allocator primitives store and hand out, compared as values through a linear normal form (so the spelling is free): alloc_raw returns `bytes` bytes and leaves the watermark at beg + bytes; alloc_raw_bump returns end - beg and leaves it at end; in-place grow adds new - old; shrink of the tail block leaves offset - old + new. R9: the status of mprotect / munmap / madvise is tested so that -1 goes to the error outcome and 0 to success.'
)
ASSUMPTIONS = ["the recognised round-up idioms compute what they are known to compute", "unix virtual-memory back end"]
TRUSTED = ["rustc nightly MIR and const-eval", "nsx exporter", "nsverif relational-guard extraction"]
NONTRIVIAL = "one obligation per guarded return, cursor writer, forwarding method and rounding site"
EXPLANATION += (
    ' Round-5: R3 also states where the block ends (ptr + old_layout.size(), not the size padded to the alignment) and that the in-place path is taken only when the address fits new_layout.align(); R7 requires the slice size to be a checked product; R1/R8 compare beg and the watermark as linear forms of fully expanded expressions, so beg may be an address rounding minus the base; R10 every raw write through base + start ends at a min(.., commit mark); R11 a conditional reserve(X - Y) before raw copies is conditional on exactly X > Y; R12 the alignment rounding is applied to the address (or the alignment is tested against what the base guarantees).'
)
EXPLANATION += (
    ' Round 6: R5 a scratch borrow records the watermark itself as its mark; R3 the address test of the in-place path uses the low-bit mask align - 1, and zero fills are unconditional on the successful path; R13 the end of a request is a checked sum and the commit rounding follows the capacity test (D47 repaired).'
)
EXPLANATION += (
    " Round 7: R7 the alignment is taken of the same type parameter as the size; R11 the buffer's pointer is taken after the reserve."
)

"""C13 — string built-ins agree with their specification on every input (thin: bounds, clamps, scan shape)."""
import re

from ..guards import cmp_facts, ne, sh
from ..mir import parent_fn

FIND = "builtins::tw::find"
MS = "builtins::tw::maximal_suffix"
REPL = "builtins::replace::replace"
SLICE = "builtins::string::StringBuiltin::slice"

# indexes whose bound follows from a callee's post-condition or a loop invariant, not from a dominating test:
# one named symbol each, with the reason; they become obligations again when the named function changes shape
EXCEPTIONS = {
    (FIND, "n[crit]"): "crit < len(needle): maximal_suffix returns i with i < j <= n (post-condition of the factorisation)",
    (MS, "x[Sub(Add(i,k),1)]"): "i < j is a loop invariant of the maximal-suffix computation (i is only ever set to the old j, j to i + 1 or more), so i + k - 1 < j + k - 1 < n",
    (REPL, "haystack[pos..]"): "pos <= len(haystack): pos = index + len(from) where index is a match position returned by find on haystack[pos..] (callee post-condition)",
    (REPL, "haystack[pos..index]"): "pos <= index: index = pos + (result of find on haystack[pos..])",
}


def holds_lt(facts, idx, bound):
    """idx < bound from the dominating facts (syntactic entailment over the recognised shapes)."""
    ti, tb = sh(idx), sh(bound)
    for op, a, b, S in facts:
        for (o, x, y) in ((op, sh(a), sh(b)), ({"Lt": "Gt", "Le": "Ge", "Gt": "Lt", "Ge": "Le", "Eq": "Eq", "Ne": "Ne"}[op], sh(b), sh(a))):
            if y == tb:
                if x == ti and o == "Lt":
                    return "ok"
                # (e - 1) < n  <=  e <= n
                m = re.match(r"^Sub\((.*),1\)$", ti)
                if m and x == m.group(1) and o in ("Le", "Lt"):
                    return "ok"
                # e + k <= n with k >= 1  =>  e < n
                m2 = re.match(r"^Add\(%s,(\w+)\)$" % re.escape(ti), x)
                if m2 and o in ("Le", "Lt") and (m2.group(1).isdigit() and int(m2.group(1)) >= 1):
                    return "ok"
                if x == ti and o == "Le":
                    return "offbyone"
    return "none"


def const_index_ok(facts, c, lenvar):
    """len > c from facts about the length (Ne 0, Eq k, Gt k, Ge k)."""
    for op, a, b, S in facts:
        x, y = sh(a), sh(b)
        for (o, p, q) in ((op, x, y), ({"Lt": "Gt", "Le": "Ge", "Gt": "Lt", "Ge": "Le", "Eq": "Eq", "Ne": "Ne"}[op], y, x)):
            if p != lenvar or not q.isdigit():
                continue
            k = int(q)
            if (o == "Ne" and k == 0 and c == 0) or (o == "Eq" and k > c) or (o == "Gt" and k >= c) or (o == "Ge" and k > c):
                return True
    return False


def r1_no_failing_index(ctx):
    n = 0
    for fid in (FIND, MS, "builtins::tw::crit_period", REPL, SLICE, "builtins::array::ArrayBuiltin::join"):
        fn = ctx.need(fid)
        ctx.touch(fn)
        lens = {}
        for i, l in enumerate(fn.locals):
            pass
        for b in sorted(fn.live):
            t = fn.blocks[b]["t"]
            if t["k"] != "assert" or t["kind"] != "BoundsCheck":
                continue
            n += 1
            ln = ne(fn.expr(t["ops"][0], 6))
            ix = ne(fn.expr(t["ops"][1], 6))
            arr = sh(ln).replace("len(", "").rstrip(")")
            text = "%s[%s]" % (arr, sh(ix))
            facts = cmp_facts(fn, b)
            key = "%s|%s" % (fid.split("::")[-1], text)
            ordn = sum(1 for r in ctx.records if r["rule"] == ctx.rule and r["instance"].split("#")[0] == key)
            if (fid, text) in EXCEPTIONS:
                ctx.ok("%s#%d|exception" % (key, ordn + 1), fn.where(b), "named exception: " + EXCEPTIONS[(fid, text)])
                continue
            # the length may be known under a variable name (nlen, hlen, n)
            bounds = [ln] + [("var", v) for v in ("nlen", "hlen", "n", "len") if len_alias(fn, v, arr)]
            verdict = "none"
            if ix[0] == "const" and isinstance(ix[1], int):
                if any(const_index_ok(facts, ix[1], sh(bd)) for bd in bounds):
                    verdict = "ok"
            else:
                for bd in bounds:
                    v = holds_lt(facts, ix, bd)
                    if v == "ok":
                        verdict = "ok"
                    elif v == "offbyone" and verdict != "ok":
                        verdict = "offbyone"
            if verdict == "ok":
                ctx.ok("%s#%d" % (key, ordn + 1), fn.where(b), "index < length follows from the dominating tests")
            elif verdict == "offbyone":
                ctx.bad("index-offbyone|%s|%s" % (fid, text), fn.where(b), "`%s` is guarded by `index <= len` (%s) where `index < len` is needed: the last admitted value reads one past the end and panics" % (text, [(o, sh(a), sh(bb)) for o, a, bb, S in facts if sh(a) == sh(ix) or sh(bb) == sh(ix)]))
            else:
                ctx.bad("index-unguarded|%s|%s" % (fid, text), fn.where(b), "`%s` has no dominating guard that implies index < len (facts: %s)" % (text, [(o, sh(a)[:20], sh(bb)[:15]) for o, a, bb, S in facts][:6]))
        for c in fn.calls():
            cal = c.callee or ""
            if not (cal.endswith("::index") or "get_unchecked" in cal):
                continue
            n += 1
            rng = sh(ne(fn.expr(c.args[1], 6)))
            arr = sh(ne(fn.expr(c.args[0], 4)))
            from .c07 import split_top
            m = re.match(r"^Range::Range\{(.*)\}$", rng)
            mf = re.match(r"^RangeFrom::RangeFrom\{(.*)\}$", rng)
            lo, hi = split_top(m.group(1)) if m else ((mf.group(1) if mf else "?"), "")
            text = "%s[%s..%s]" % (arr, lo, hi)
            key = "%s|%s" % (fid.split("::")[-1], text)
            ordn = sum(1 for r in ctx.records if r["rule"] == ctx.rule and r["instance"].split("#")[0] == key)
            if (fid, text) in EXCEPTIONS:
                ctx.ok("%s#%d|exception" % (key, ordn + 1), fn.where(c.block), "named exception: " + EXCEPTIONS[(fid, text)])
                continue
            facts = cmp_facts(fn, c.block)
            ok = False
            if m:
                end = hi
                for op, a, b2, S in facts:
                    x, y = sh(a), sh(b2)
                    if x == end and y in ("hlen", "len(%s)" % arr, "n", "nlen") and op in ("Le", "Lt"):
                        ok = True
            if ok:
                ctx.ok("%s#%d" % (key, ordn + 1), fn.where(c.block), "range end <= length from a dominating test")
            else:
                ctx.bad("range-unguarded|%s|%s" % (fid, text), fn.where(c.block), "slice `%s` has no dominating `end <= len` (%s)" % (text, [(o, sh(a)[:20], sh(bb)[:15]) for o, a, bb, S in facts][:6]))
    ctx.floor("index / range sites in the string built-ins", n, 12)


def len_alias(fn, var, arr):
    """Is local `var` defined as the length of `arr` (or of the slice it was made from)?"""
    for i, l in enumerate(fn.locals):
        if l["name"] == var:
            for (bi, k, st) in fn.whole_defs(i):
                t = sh(ne(fn.deep({"copy": {"l": i, "p": []}})))
                if t.startswith("len(") or ".1" in t or ".0" in t:
                    return True
    return False


def r2_slice_clamps(ctx):
    f = ctx.need(SLICE)
    ctx.touch(f)
    calls = [(c.callee or "").split("::")[-1] for c in f.calls()]
    floors = [c for c in f.calls() if (c.callee or "").endswith("f64::floor")]
    clamps = [c for c in f.calls() if (c.callee or "").split("::")[-1] == "clamp"]
    skips = [c for c in f.calls() if (c.callee or "").split("::")[-1] in ("skip", "take")]
    count = [c for c in f.calls() if (c.callee or "").split("::")[-1] == "count" and "Chars" in " ".join(c.gargs) + (c.callee or "")] or [c for c in f.calls() if (c.callee or "").split("::")[-1] == "count"]
    if len(floors) >= 2:
        ctx.ok("slice|floor-both", f.where(floors[0].block), "both bounds floored")
    else:
        ctx.bad("slice|floor-both", f.where(), "slice floors %d of its 2 bounds" % len(floors))
    if len(clamps) >= 2 and all(any(f.dominates(cl.block, s.block) for cl in clamps) for s in skips) and skips:
        lo_hi = [(sh(ne(f.deep(c.args[1]))), sh(ne(f.deep(c.args[2])))) for c in clamps]
        if all(lo == "0" and "count(chars(" in hi for lo, hi in lo_hi):
            ctx.ok("slice|clamp-before-use", f.where(clamps[0].block), "both bounds clamped to [0, chars().count()] before skip/take")
        else:
            ctx.bad("slice|clamp-range|%s" % lo_hi[0][0], f.where(clamps[0].block), "slice clamps to %s, not to [0, character count]" % lo_hi)
    else:
        ctx.bad("slice|clamp-before-use", f.where(), "slice no longer clamps both bounds before selecting characters (clamps=%d, skip/take=%d)" % (len(clamps), len(skips)))
    # negative indexes count from the end: start += len under start < 0 (both bounds)
    adj = 0
    for b in sorted(f.live):
        for s in f.blocks[b]["s"]:
            if s["rv"]["k"] == "bin" and s["rv"]["op"] in ("Add", "AddWithOverflow"):
                t = sh(ne(f.rvalue_expr(s["rv"], 4)))
                if re.match(r"^Add(WithOverflow)?\((start|end),len\)$", t):
                    facts = cmp_facts(f, b)
                    if any(op == "Lt" and sh(x) in ("start", "end") and sh(y) == "0" for op, x, y, S in facts):
                        adj += 1
    if adj >= 2:
        ctx.ok("slice|negative-from-end", f.where(), "start/end += len under < 0")
    else:
        ctx.bad("slice|negative-from-end", f.where(), "negative indexes are adjusted on %d of 2 bounds" % adj)
    if count:
        ctx.ok("slice|code-points", f.where(count[0].block), "length is chars().count()")
    else:
        ctx.bad("slice|code-points", f.where(), "slice no longer measures the string in characters")
    ln = ctx.need("builtins::string::StringBuiltin::len")
    ctx.touch(ln)
    if any((c.callee or "").split("::")[-1] == "count" for c in ln.calls()) and any((c.callee or "").split("::")[-1] == "chars" for c in ln.calls()):
        ctx.ok("len|code-points", ln.where(), "chars().count()")
    else:
        ctx.bad("len|code-points", ln.where(), "len no longer counts characters")
    # take count = end - start, skip = start
    for c in skips:
        a = sh(ne(f.deep(c.args[1])))
        short = (c.callee or "").split("::")[-1]
        if short == "skip" and "start" in sh(ne(f.expr(c.args[1], 4))):
            ctx.ok("slice|skip-start", f.where(c.block), "skip(start)")
        elif short == "take" and (re.search(r"Sub\(.*end.*start|Sub\(end,start\)", sh(ne(f.expr(c.args[1], 6)))) or re.search(r"Sub\(.*end.*start|Sub\(end,start\)", a)):
            ctx.ok("slice|take-width", f.where(c.block), "take(end - start)")
        else:
            ctx.bad("slice|%s-arg" % short, f.where(c.block), "%s(%s)" % (short, sh(ne(f.expr(c.args[1], 6)))[:40]))


def loops_of(fn):
    heads = [h for h in sorted(fn.live) if any(fn.dominates(h, p) for p, _ in fn.pred[h] if p in fn.live)]
    out = []
    for h in heads:
        back = [p for p, _ in fn.pred[h] if p in fn.live and fn.dominates(h, p)]
        body = {h}
        st = list(back)
        while st:
            x = st.pop()
            if x in body:
                continue
            body.add(x)
            for p, _ in fn.pred[x]:
                if p in fn.live:
                    st.append(p)
        out.append((h, body, back))
    return out


def r4_scan_shape(ctx):
    f = ctx.need(FIND)
    ctx.touch(f)
    offs = [i for i, l in enumerate(f.locals) if l["name"] == "offset"]
    n_loops = 0
    for h, body, back in loops_of(f):
        # every way round the loop re-assigns the search offset to (index of the anchor just examined) + 1
        writes = [(b, sh(ne(f.rvalue_expr(s["rv"], 6)))) for b in sorted(body) for s in f.blocks[b]["s"] if s["lhs"]["l"] in offs and not s["lhs"]["p"]]
        if not writes:
            continue
        n_loops += 1
        wb = [b for b, t in writes]
        good = [b for b, t in writes if re.match(r"^Add\(index,1\)$", t)]
        other = [(b, t) for b, t in writes if not re.match(r"^Add\(index,1\)$", t)]
        # a cycle that avoids every good write?
        starts = [j for _, j in f.succ[h] if j in body]
        r = f.reach(starts, removed_nodes=good + [h]) & body
        loops_without_progress = any(p in r for p in back)
        tier = "line %d" % f.block_line(h)
        if other:
            ctx.bad("scan-step|%s" % other[0][1][:30], f.where(other[0][0]), "after a failed candidate the search resumes at `%s` instead of index + 1: a step that is not tied to the position just examined can skip an occurrence or fail to advance (the same anchor is found again forever)" % other[0][1])
        elif loops_without_progress:
            ctx.bad("scan-no-progress|bb%d" % h, f.where(h), "a path round the search loop does not advance the offset")
        else:
            ctx.ok("scan-step|loop@%s" % tier, f.where(h), "every round resumes at index + 1 (strictly increasing, every anchor occurrence examined)")
        # index is the memchr result from the current offset
        mc = [c for c in f.calls() if c.block in body and (c.callee or "").endswith("memchr")]
        if mc and sh(ne(f.expr(mc[0].args[2], 4))) == "offset":
            ctx.ok("scan-from-offset|loop@%s" % tier, f.where(mc[0].block), "memchr(.., haystack, offset)")
        else:
            ctx.bad("scan-from-offset|bb%d" % h, f.where(h), "the anchor is not searched from the current offset")
        # the loop may only stop on offset >= hlen ("offset + nlen <= hlen" as loop condition stops before anchors near the end were examined)
        conds = []
        for S in sorted(body):
            if f.blocks[S]["t"]["k"] != "switch":
                continue
            if all(j in body for _, j in f.succ[S]):
                continue  # not an exit test
            si = f.switch_info(S)
            if si["kind"] == "bin":
                a, b2 = sh(ne(f.expr(si["a"], 4))), sh(ne(f.expr(si["b"], 4)))
                if "offset" in a + b2 and "hlen" in a + b2:
                    conds.append((S, si["op"], a, b2))
        for S, op, a, b2 in conds:
            if (op, a, b2) == ("Lt", "offset", "hlen"):
                ctx.ok("scan-condition|loop@%s" % tier, f.where(S), "while offset < hlen")
            else:
                ctx.bad("scan-condition|%s(%s,%s)" % (op, a[:20], b2[:10]), f.where(S), "the search loop runs while %s(%s, %s): `offset` is where the anchor byte is looked for, so stopping before offset reaches the end of the haystack misses an occurrence whose anchor lies in the last len(needle) bytes" % (op, a, b2))
        if not conds:
            ctx.bad("scan-condition|missing|bb%d" % h, f.where(h), "the search loop has no `offset < hlen` exit test")
    ctx.floor("search loops in find", n_loops, 3)
    # success returns the candidate's own start
    for b in sorted(f.live):
        for s in f.blocks[b]["s"]:
            if s["lhs"]["l"] == 0 and s["rv"]["k"] == "agg" and s["rv"]["variant"] == "Some":
                v = sh(ne(f.expr(s["rv"]["ops"][0], 4)))
                eq_ok = any(f.switch_info(S)["kind"] == "call" and (f.switch_info(S)["callee"] or "").split("::")[-1] in ("eq",) and 0 not in al for S, al in f.constraints(b))
                if v in ("index", "start", "0") and (eq_ok or v in ("0",) or any(op == "Lt" and sh(x) == "index" for op, x, y, S2 in cmp_facts(f, b))):
                    ctx.ok("found|Some(%s)@bb%d" % (v, b), f.where(b), "returns the position whose bytes compared equal")
                else:
                    ctx.bad("found|Some(%s)" % v[:20], f.where(b), "find returns Some(%s) without a successful comparison at that position" % v)
    # every candidate the anchor position allows is compared: the window [index - crit, index - crit + nlen) lies inside the
    # haystack exactly when index >= crit and start + nlen <= hlen; a stricter test drops the first / the last possible position
    wins = [(b, s) for b in sorted(f.live) for s in f.blocks[b]["s"] if s["rv"]["k"] == "bin" and s["rv"]["op"].startswith("Sub") and sh(ne(f.expr(s["rv"]["a"], 4))) == "index"]
    for b, s in wins:
        sub = sh(ne(f.expr(s["rv"]["b"], 4)))
        rel = [(op, sh(x), sh(y)) for op, x, y, S2 in cmp_facts(f, b) if {sh(x), sh(y)} == {"index", sub}]
        norm = {("Ge", "index", sub), ("Le", sub, "index")}
        if any(r_ in norm for r_ in rel):
            ctx.ok("window|lower-bound", f.where(b), "candidate compared whenever index >= %s" % sub)
        elif rel:
            ctx.bad("window|lower-bound|%s" % "".join(rel[0][0]), f.where(b), "the candidate at anchor position `index` is compared only under %s(%s, %s); the window starts at index - %s, which is inside the text as soon as index >= %s - with the stricter test a needle that matches at the very start of the (remaining) text is never compared, so find misses it and replace skips an occurrence that directly follows the previous one" % (rel[0][0], rel[0][1], rel[0][2], sub, sub))
    for S2 in sorted(f.live):
        if f.blocks[S2]["t"]["k"] != "switch":
            continue
        si2 = f.switch_info(S2)
        if si2["kind"] == "bin":
            a_, b_ = sh(ne(f.expr(si2["a"], 4))), sh(ne(f.expr(si2["b"], 4)))
            if a_ == "Add(start,nlen)" and b_ in ("hlen", "len(h)"):
                if si2["op"] == "Le":
                    ctx.ok("window|upper-bound", f.where(S2), "start + nlen <= hlen")
                else:
                    ctx.bad("window|upper-bound|%s" % si2["op"], f.where(S2), "the window's end is tested with %s(start + nlen, hlen): `<=` is what keeps a match that ends exactly at the end of the text" % si2["op"])
    # the same window spelled `index.checked_sub(crit)`: Some(start) exactly when index >= crit
    chk = [c for c in f.calls() if (c.callee or "").endswith("::checked_sub") and c.args and sh(ne(f.expr(c.args[0], 4))) == "index"]
    for c in chk:
        ctx.ok("window|lower-bound", f.where(c.block), "candidate compared whenever index.checked_sub(%s) is Some, which is index >= %s" % (sh(ne(f.expr(c.args[1], 4))), sh(ne(f.expr(c.args[1], 4)))))
    ctx.floor("anchor windows in find", len(wins) + len(chk), 1)
    # replace: copy haystack[pos..index], then `to`, continue at index + len(from)
    r = ctx.need(REPL)
    ctx.touch(r)
    pos = [i for i, l in enumerate(r.locals) if l["name"] == "pos"]
    w = [(b, sh(ne(r.rvalue_expr(s["rv"], 6)))) for b in sorted(r.live) for s in r.blocks[b]["s"] if s["lhs"]["l"] in pos and not s["lhs"]["p"]]
    if any(re.match(r"^Add\(index,len\(from\)\)$", t) for b, t in w):
        ctx.ok("replace|cursor", r.where(), "pos = index + len(from): non-overlapping, left to right")
    else:
        ctx.bad("replace|cursor|%s" % [t for b, t in w][-1:], r.where(), "after a match the cursor continues at %s" % [t for b, t in w])
    ps = [c for c in r.calls() if (c.callee or "").endswith("push_str")]
    seq = []
    for c in ps:
        a = sh(ne(r.expr(c.args[1], 6)))
        seq.append((c, "gap" if "get_unchecked(haystack,Range::Range{pos,index}" in a.replace(" ", "") else "to" if a.replace("&", "") in ("to",) else "tail" if "RangeFrom" in a else "other"))
    gap = [c for c, k in seq if k == "gap"]
    to = [c for c, k in seq if k == "to" and r.blocks[c.block] and any(r.dominates(g.block, c.block) for g in gap)]
    if gap and to:
        ctx.ok("replace|copy-order", r.where(gap[0].block), "text before the match is copied before the replacement")
    else:
        ctx.bad("replace|copy-order", r.where(), "replace no longer copies haystack[pos..index] before the replacement text")
    emp = [S for S in r.live if r.blocks[S]["t"]["k"] == "switch" and r.switch_info(S)["kind"] == "call" and (r.switch_info(S)["callee"] or "").endswith("is_empty") and "from" in sh(ne(r.deep(r.switch_info(S)["call"]["args"][0])))]
    if emp:
        ctx.ok("replace|empty-pattern-branch", r.where(emp[0]), "empty pattern handled separately (find would return 0 forever)")
    else:
        ctx.bad("replace|empty-pattern-branch", r.where(), "replace no longer special-cases the empty pattern: the find loop never advances")


def r5_units_and_positions(ctx):
    """Two small agreements the round-trip and replace clauses rest on.
    (a) join puts a separator before every element but the first - a function of the element's *position*, never of what has
        been written so far (elements may render as empty text: `",a".split(",")` starts with one).
    (b) an offset delivered by char_indices is the byte offset of a character; the only thing added to it is that character's
        own byte width."""
    j = ctx.need("builtins::array::ArrayBuiltin::join")
    ctx.touch(j)
    seps = [c for c in j.calls() if (c.callee or "").endswith("push_str") and sh(ne(j.deep(c.args[1]))) == "sep"]
    for c in seps:
        cons_ = list(j.constraints(c.block))
        guards = [(j.switch_info(S), sh(ne(j.deep(j.blocks[S]["t"]["d"]))) + " /* " + sh(ne(j.expr(j.blocks[S]["t"]["d"], 4))) + " */", al) for S, al in cons_]
        pos = [g for g in guards if g[0]["kind"] == "bin" and re.search(r"enumerate\(.*\)@Some\.0\.0", g[1]) and re.match(r"^(Gt|Ne|Ge)\(.*,(0|1)\) /\*", g[1])]
        # position kept in a flag: `let mut first = true; for .. { if first { first = false } else { push(sep) } }` - true
        # before the loop, lowered on the very branch that finds it true, the separator on the other branch: "not the first
        # element", whatever the elements render as
        for gi_, (S, al) in enumerate(cons_):
            si = j.switch_info(S)
            L = si.get("local") if si["kind"] == "multi" else (si["place"]["l"] if si["kind"] == "place" and not si["place"]["p"] else None)
            if L is None or "bool" not in j.locals[L]["ty"] or list(al) != [0]:
                continue
            defs = j.whole_defs(L)
            const = [(b_, st["rv"]["a"].get("int")) for (b_, k, st) in defs if k != "t" and st["rv"]["k"] == "use" and isinstance(st["rv"]["a"], dict) and st["rv"]["a"].get("int") in (0, 1)]
            ones = [b_ for b_, v in const if v == 1]
            zeros = [b_ for b_, v in const if v == 0]
            true_tgts = [t_ for lab, t_ in j.succ[S] if lab != 0]
            if len(const) == len(defs) and len(ones) == 1 and zeros and ones[0] not in j.reach_from_succ(ones[0]) and j.dominates(ones[0], S) \
                    and true_tgts and all(t_ in zeros for t_ in true_tgts):
                pos.append(guards[gi_])
        other = [g for g in guards if g[0]["kind"] in ("bin", "call", "un", "multi", "place") and g not in pos]
        state = [g for g in other if "buffer" in g[1] or "len(" in g[1] and "sep" not in g[1] and "array" not in g[1]]
        if pos and not other:
            ctx.ok("join|separator-by-position", j.where(c.block), "separator pushed when the element index is > 0")
        elif state:
            ctx.bad("join|separator-by-output", j.where(c.block), "join decides whether to write the separator from what has been written so far (`%s`), not from the element's position: leading elements that render as empty text lose their separator, so `s.split(sep).join(sep)` is not s when s starts with the separator" % state[0][1].split("/* ")[-1].rstrip(" */")[:50])
        elif not pos:
            ctx.bad("join|separator-guard|%s" % (other[0][1][:30] if other else "none"), j.where(c.block), "join's separator is not guarded by `index > 0` (guards: %s)" % [g[1][:40] for g in guards][:3])
        else:
            ctx.bad("join|separator-extra-guard|%s" % other[0][1][:30], j.where(c.block), "join writes the separator only under the additional condition `%s`" % other[0][1][:50])
    ctx.floor("separator pushes in join", len(seps), 1)
    n = 0
    for fn in [f for f in ctx.lib.fns.values() if f.file in ("src/builtins/replace.rs", "src/builtins/string.rs", "src/builtins/tw.rs", "src/builtins/array.rs")]:
        for b in sorted(fn.live):
            for st in fn.blocks[b]["s"]:
                rv = st["rv"]
                if rv["k"] != "bin" or not rv["op"].startswith(("Add", "Sub")):
                    continue
                a, bb = sh(ne(fn.deep(rv["a"]))), sh(ne(fn.deep(rv["b"])))
                for off, other in ((a, bb), (bb, a)):
                    m = re.match(r"^(next\(into_iter\(char_indices\(.*\)\)\)@Some\.0)\.0$", off)
                    if not m:
                        continue
                    n += 1
                    ctx.touch(fn)
                    if other == "len_utf8(%s.1)" % m.group(1):
                        ctx.ok("units|%s|offset+width" % fn.id.split("::")[-1], fn.where(b), "byte offset + len_utf8 of the same character")
                    else:
                        ctx.bad("units|%s|offset+%s" % (fn.id.split("::")[-1], other[:20]), fn.where(b), "%s adds `%s` to a byte offset delivered by char_indices: the next character starts len_utf8(ch) bytes further, so the result is wrong whenever that character is wider than one byte" % (fn.id.split("::")[-1], other[:40]))
    ctx.floor("arithmetic on char_indices offsets", n, 1)


def r6_no_arithmetic_panic(ctx):
    """A string built-in that panics does not agree with its specification: no integer division by a value that can be zero
    (shared with C06-R12; `split` sizes its result with len / separator length), and every buffer a character is encoded into
    holds the longest encoding (4 bytes) - `encode_utf8` panics on a shorter one, but only for the characters that need it."""
    from .c06 import r12_no_division_by_zero
    r12_no_division_by_zero(ctx)
    encode_buffers(ctx)


def encode_buffers(ctx):
    """Every buffer a character is encoded into holds the longest encoding (shared with C06-R11)."""
    n = 0
    for fid, fn in sorted(ctx.lib.fns.items()):
        if not fn.file.startswith("src/"):
            continue
        for c in fn.calls():
            if not (c.callee or "").endswith("::encode_utf8") or len(c.args) < 2:
                continue
            n += 1
            ctx.touch(fn)
            pl = c.args[1].get("move") or c.args[1].get("copy") if isinstance(c.args[1], dict) else None
            size = None
            hops = 0
            while pl is not None and hops < 6:
                ty = fn.locals[pl["l"]]["ty"] if not pl["p"] or pl["p"] == ["*"] else ""
                m = re.search(r"\[u8; (\d+)\]", ty)
                if m:
                    size = int(m.group(1))
                    break
                dd = fn.whole_defs(pl["l"])
                if len(dd) != 1 or dd[0][1] == "t":
                    break
                rv = dd[0][2]["rv"]
                nx = rv.get("a") if rv["k"] in ("cast", "use") else (None if rv["k"] not in ("ref", "rawptr") else {"copy": rv["of"]})
                pl = (nx.get("move") or nx.get("copy")) if isinstance(nx, dict) else None
                hops += 1
            ordn = sum(1 for r in ctx.records if r["rule"] == ctx.rule and r["instance"].startswith("encode|%s#" % parent_fn(fid)))
            key = "encode|%s#%d" % (parent_fn(fid), ordn + 1)
            if size is not None and size >= 4:
                ctx.ok(key, fn.where(c.block), "encodes into a [u8; %d]" % size)
            elif size is not None:
                ctx.bad("encode|%s|buffer-%d" % (parent_fn(fid), size), fn.where(c.block), "a character is encoded into a [u8; %d]: encode_utf8 panics for every character whose encoding is longer (4 bytes: U+10000 and above - emoji, flags), so the string built-ins that copy characters through this routine abort on such text" % size)
            else:
                facts = [(o, sh(a), sh(b)) for o, a, b, S in cmp_facts(fn, c.block)]
                if any("len_utf8" in a + b for o, a, b in facts):
                    ctx.ok(key, fn.where(c.block), "destination length compared with len_utf8")
                else:
                    ctx.bad("encode|%s|buffer-unknown" % parent_fn(fid), fn.where(c.block), "cannot see that the buffer a character is encoded into holds 4 bytes (no fixed-size array, no comparison with len_utf8)")
    ctx.floor("characters encoded into a buffer", n, 2)


WRAPPERS = {
    # wrapper: (the primitive that defines its result, how it is named in MIR)
    "len": ("Iterator>::count", "chars().count()"),
    "to_uppercase": ("<impl char>::to_uppercase", "char::to_uppercase of every character"),
    # lowercasing is the one case mapping with a context rule (a sigma at the end of a word): str::to_lowercase applies it,
    # a per-character char::to_lowercase cannot
    "to_lowercase": ("str::to_lowercase", "str::to_lowercase (with the final-sigma rule)"),
    "trim": ("core::str::trim", "str::trim"),
    "to_number": ("core::str::parse", "str::parse::<f64>"),
    "split": ("core::str::split", "str::split"),
    "replace": ("builtins::replace::replace", "builtins::replace"),
    "find": ("builtins::tw::find", "builtins::find"),
}
NARROWING = {"next", "nth", "take", "skip", "take_while", "skip_while", "step_by", "filter", "filter_map", "split_terminator", "splitn", "rsplit", "rsplitn",
             "split_inclusive", "split_once", "rsplit_once", "trim_start", "trim_end", "trim_matches", "trim_start_matches", "trim_end_matches",
             "strip_prefix", "strip_suffix", "first", "last", "truncate", "pop", "next_back", "rev", "to_ascii_uppercase", "to_ascii_lowercase",
             "make_ascii_uppercase", "make_ascii_lowercase", "trim_ascii", "split_whitespace", "split_ascii_whitespace", "lines", "dedup"}


def r7_thin_wrappers_apply_their_primitive_to_everything(ctx):
    """The built-ins whose specification is `what the Unicode / IEEE / library primitive says` are thin wrappers: each applies
    its one primitive to the whole receiver and passes the result on.  Decided per wrapper (and its closures): the primitive
    is there and takes the wrapper's own parameters; no selecting or narrowing adaptor (first item only, a terminator-dropping
    split, a one-sided trim, ASCII-only case mapping, ...) sits beside it; and the wrapper has no condition of its own other
    than iterating - a shortcut that skips the primitive for some inputs is a second specification."""
    n = 0
    for name, (prim, text) in sorted(WRAPPERS.items()):
        fn = ctx.lib.fns.get("builtins::string::StringBuiltin::" + name)
        if fn is None:
            ctx.bad("wrapper|%s|missing" % name, "", "StringBuiltin::%s not found" % name)
            continue
        ctx.touch(fn)
        bodies = [fn] + list(ctx.lib.closures_of(fn.id))
        n += 1
        uses = False

        def is_prim(path):
            # the same method is spelled `std::char::methods::<impl char>::to_uppercase` as a function item and
            # `std::char::methods::to_uppercase` as a resolved callee
            q = str(path).replace("<impl char>::", "").replace("<impl str>::", "")
            pr = prim.replace("<impl char>::", "char::methods::").replace("<impl str>::", "")
            return q.endswith(prim) or q.endswith(pr) or (pr.startswith("char::methods::") and q.endswith(pr))
        for b in bodies:
            for c in b.calls():
                if is_prim(c.callee or ""):
                    uses = True
                for a in c.args:
                    if isinstance(a, dict) and "const" in a and is_prim(a["const"]):
                        uses = True
            for blk in (b.blocks[i] for i in b.live):
                for st in blk["s"]:
                    if prim in str(st["rv"]):
                        uses = True
        from .c03 import natural_loop

        def drives_a_loop(b, c):
            """`next()` whose Option decides whether a loop containing the call goes round again: the `for` loop's own driver."""
            if (c.callee or "").split("::")[-1] != "next" or c.target is None:
                return False
            loops = [natural_loop(b, H) for H in sorted(b.live)]
            loops = [l for l in loops if l and c.block in l]
            if not loops:
                return False
            blk = c.target
            for _ in range(3):
                t = b.blocks[blk]["t"]
                if t["k"] == "switch":
                    return any(any(j not in l for _lab, j in b.succ[blk]) for l in loops)
                if t["k"] != "goto":
                    return False
                blk = t["t"]
            return False
        narrowing = sorted({(c.callee or "").split("::")[-1] for b in bodies for c in b.calls() if (c.callee or "").split("::")[-1] in NARROWING and not (c.callee or "").startswith(("arena::", "builtins::")) and not drives_a_loop(b, c)})
        own = []
        for b in bodies:
            for S in sorted(b.live):
                if b.blocks[S]["t"]["k"] != "switch":
                    continue
                d = sh(ne(b.deep(b.blocks[S]["t"]["d"])))
                if "next(" in d:
                    continue        # the loop over an iterator
                own.append(d[:50])
        if uses and not narrowing and not own:
            ctx.ok("wrapper|%s" % name, fn.where(), text)
        elif not uses:
            ctx.bad("wrapper|%s|primitive-missing" % name, fn.where(), "StringBuiltin::%s no longer applies %s%s" % (name, text, (" (it uses %s)" % ", ".join(narrowing)) if narrowing else ""))
        elif narrowing:
            ctx.bad("wrapper|%s|narrowed|%s" % (name, ",".join(narrowing)), fn.where(), "StringBuiltin::%s puts %s beside %s: only a part of what the primitive yields reaches the result (multi-character case mappings cut to their first character, a trailing empty piece dropped, ...)" % (name, ", ".join(narrowing), text))
        else:
            ctx.bad("wrapper|%s|own-condition" % name, fn.where(), "StringBuiltin::%s decides `%s` itself before/instead of applying %s: for the inputs on the other side of that condition the result is not what the primitive defines" % (name, own[0], text))
    ctx.floor("thin string wrappers", n, 8)


RULES = [("C13-R1", r1_no_failing_index), ("C13-R2", r2_slice_clamps), ("C13-R4", r4_scan_shape), ("C13-R5", r5_units_and_positions), ("C13-R6", r6_no_arithmetic_panic), ("C13-R7", r7_thin_wrappers_apply_their_primitive_to_everything)]

EXPLANATION = (
    "Thin by design: functional correctness of a hand-written matcher over all string pairs is not decidable here (a "
    "bounded-exhaustive comparison with str::find would be testing). Decided: R1 every index, slice range and unchecked range "
    "in tw.rs / replace.rs / string.rs / array.rs is discharged by a dominating relational guard (`<=` where `<` is needed is "
    "reported as off-by-one) or is a named exception resting on a callee post-condition / loop invariant; R2 slice floors both "
    "bounds, counts negative indexes from the end, clamps to [0, character count] before skip/take(end - start), len counts "
    "characters; R4 scan shape of every search loop in find (anchor searched from the current offset, every round resumes at "
    "index + 1, loop runs while offset < hlen, success returns the compared position) and of replace (gap then replacement, "
    "cursor at index + len(from), empty pattern special-cased); R5 join writes its separator as a function of the element position only (never of the text written so far), and an offset delivered by char_indices is only ever advanced by len_utf8 of the same character. Not decided: first-occurrence correctness as such, the "
    "critical factorisation, split/join round trip, Unicode case mapping."
)
EXPLANATION += (
    ' R6: no string built-in can end in an arithmetic panic - the zero-divisor rule of C06-R12, and every buffer a character is encoded into (`char::encode_utf8`) is a fixed array of at least 4 bytes or has its length compared with len_utf8.'
)
ASSUMPTIONS = ["memchr returns the first index >= offset of the byte, or the haystack length", "named exceptions in rules/c13.py"]
TRUSTED = ["rustc nightly MIR", "nsx exporter", "nsverif relational-guard extraction"]
NONTRIVIAL = "one obligation per index/range site, per clamp clause and per search loop clause"
EXPLANATION += (
    ' R7: the built-ins specified as `what the primitive says` are thin wrappers - each applies its one primitive (chars().count(), char::to_uppercase per character, str::to_lowercase with its final-sigma rule, str::trim, str::parse, str::split, builtins::replace, builtins::find) to its own parameters, with no selecting/narrowing adaptor beside it and no condition of its own other than iterating.'
)

"""C09 — static rules enforced exactly: ill-formed rejected, well-formed accepted."""
from ..guards import ne, sh
from ..mir import parent_fn
from ..panics import label_names
from ..tables import first_arm, peval, span_inside
from .c02 import matches_true_set
from .c06 import ob_loop_context

TYPES = ["Number", "String", "Bool", "Array", "Null", "ProcessCommand", "ProcessResult", "Dynamic"]
VT2VAL = {"Number": "Number", "String": "Str", "Bool": "Bool", "Array": "Array", "Null": "Null", "ProcessCommand": "Host", "ProcessResult": "Host"}
CE = "resolver::Resolver::check_expr"
EMIT = "resolver::Resolver::emit_error"


# --- the documented typing rules, stated as predicates over the static types of the operands -------------------
def ref_add(l, r):
    return l in ("String", "Dynamic") or r in ("String", "Dynamic") or (l, r) == ("Number", "Number")


def ref_arith(l, r):
    return l in ("Number", "Dynamic") and r in ("Number", "Dynamic")


def ref_cmp(l, r):
    return (l == r and l in ("Number", "String", "Bool")) or l in ("Null", "Dynamic") or r in ("Null", "Dynamic")


def ref_logic(l, r):
    return (l, r) == ("Bool", "Bool") or l in ("Null", "Dynamic") or r in ("Null", "Dynamic")


REF_BIN = {"Add": ref_add, "Minus": ref_arith, "Times": ref_arith, "Divide": ref_arith, "Mod": ref_arith,
           "Eq": ref_cmp, "Gt": ref_cmp, "Lt": ref_cmp, "And": ref_logic, "Or": ref_logic}

REF_SETS = {
    "unary-not": {"Bool", "Null", "Dynamic"}, "unary-minus": {"Number", "Dynamic"},
    "index-base": {"Array", "Dynamic"}, "index-index": {"Number", "Dynamic"},
    "condition": {"Bool", "Null", "Dynamic"},
    "member-string-arg": {"String", "Dynamic"}, "member-number-arg": {"Number", "Dynamic"}, "command-arg": {"String", "Dynamic"},
}


def some(t):
    return ("V", "Some", [("V", t, [])])


def binary_tables(ctx):
    """{op: {(l, r): accepted?}} by evaluating the HIR match arms of check_expr over Option<ValueType>^2."""
    ce = ctx.need(CE)
    ctx.touch(ce)
    opm = [m for m in ce.matches if m["scrut_ty"].endswith("BinaryOp") or m["scrut_ty"].endswith("BinaryOp>")]
    opm = [m for m in ce.matches if "BinaryOp" in m["scrut_ty"]]
    if not opm:
        return None
    opm = opm[0]
    inner = [m for m in ce.matches if m["scrut"].replace(" ", "") == "(l,r)"]
    out = {}
    ops = ctx.lib.variants("syntax::parser::BinaryOp")
    for op in ops:
        arms = first_arm(opm, ("V", op, []))
        if len(arms) != 1:
            out[op] = None
            continue
        arm = opm["arms"][arms[0]]
        ms = [m for m in inner if span_inside(m["span"], arm["body_span"])]
        if len(ms) != 1:
            out[op] = None
            continue
        m = ms[0]
        tab = {}
        for l in TYPES + [None]:
            for r in TYPES + [None]:
                v = ("T", [some(l) if l else ("V", "None", []), some(r) if r else ("V", "None", [])])
                a = first_arm(m, v)
                if len(a) != 1:
                    tab[(l, r)] = None
                else:
                    calls = m["arms"][a[0]]["calls"]
                    tab[(l, r)] = not any(c.endswith("emit_error") for c in calls)
        out[op] = tab
    return out


def runtime_binary_capability(ctx):
    ev = ctx.need("runtime::Runtime::eval_expr")
    ctx.touch(ev)
    vals = ["Str", "Number", "Bool", "Array", "Host", "Null"]
    cap = {}
    for op in ctx.lib.variants("syntax::parser::BinaryOp"):
        for a in vals:
            for b in vals:
                known = {"expr": "Binary", "op": op}
                if op in ("And", "Or"):
                    known.update({"l": a, "r": b})
                else:
                    known.update({"_.0": a, "_.1": b})
                paths = peval(ev, 0, known)
                full = [p for p in paths if sum(1 for e in p["events"] if e[0] == "call" and e[1].endswith("eval_expr")) >= 2]
                if op in ("And", "Or") and not full:
                    full = [p for p in paths if any(e[0] == "call" and e[1].endswith("eval_expr") for e in p["events"])]
                cap[(op, a, b)] = not any(p["end"] == "panic" for p in full)
    return cap


def r1a_typing_tables(ctx):
    tabs = binary_tables(ctx)
    ce = ctx.need(CE)
    if not tabs:
        ctx.bad("binary|no-table", ce.where(), "check_expr no longer matches on the binary operator")
        return
    n = 0
    for op, ref in REF_BIN.items():
        tab = tabs.get(op)
        if tab is None:
            ctx.bad("binary|%s|no-table" % op, ce.where(), "cannot extract the typing rule of `%s` (no arm / no inner match on (l, r))" % op)
            continue
        for l in TYPES:
            for r in TYPES:
                n += 1
                got = tab[(l, r)]
                want = ref(l, r)
                if got is None:
                    ctx.bad("binary|%s|%s,%s|undecided" % (op, l, r), ce.where(), "typing cell (%s, %s %s) cannot be evaluated (guards?)" % (l, op, r))
                elif got != want:
                    ctx.bad("binary|%s|%s,%s|%s" % (op, l, r, "accepts" if got else "rejects"), ce.where(),
                            "`%s %s %s` is %s but the documented rule %s it" % (l, op.lower(), r, "accepted" if got else "rejected", "accepts" if want else "rejects"))
                else:
                    ctx.ok("binary|%s|%s,%s" % (op, l, r), ce.where(), "accept" if got else "reject")
    ctx.floor("binary typing cells evaluated", n, 640)
    # accept-sets of the single-operand rules, read off the constraints of their emit_error sites
    sets = single_operand_sets(ctx)
    for rule, want in REF_SETS.items():
        got = sets.get(rule)
        if got is None:
            ctx.bad("rule|%s|missing" % rule, "src/resolver.rs", "the static check for %s was not found (no emit_error guarded by a type test of that operand)" % rule)
        elif got != want:
            extra, missing = got - want, want - got
            ctx.bad("rule|%s|%s" % (rule, "+".join(sorted(extra)) + "-" + "+".join(sorted(missing))), "src/resolver.rs",
                    "the static check for %s accepts %s; the documented rule accepts %s" % (rule, sorted(got), sorted(want)))
        else:
            ctx.ok("rule|%s" % rule, "src/resolver.rs", "accepts exactly %s" % sorted(got))


def single_operand_sets(ctx):
    out = {}
    for fid in (CE, "resolver::Resolver::check_boolean_expr", "resolver::Resolver::expect_member_string_arg", "resolver::Resolver::expect_member_number_arg"):
        fn = ctx.need(fid)
        ctx.touch(fn)
        for c in fn.calls_to(EMIT):
            kind = sh(ne(fn.deep(c.args[2])))
            if "TypeMismatch" not in kind:
                continue
            acc = set()
            subject = None
            region = []
            for S, al in fn.constraints(c.block):
                si = fn.switch_info(S)
                d = ne(fn.deep(fn.blocks[S]["t"]["d"]))
                names = label_names(fn, S, al, si)
                txt = sh(d)
                if si["kind"] == "discr" and ("parser::Expr" in si["ty"] or "UnaryOp" in si["ty"]):
                    region += sorted(names)
                if d[0] == "call" and d[1].endswith("::ne") and names == {"true"}:
                    a, b = sh(d[2][0]), sh(d[2][1])
                    if "infer_expr_type" in a:
                        subject = a
                        acc.add(b.replace("Option::Some{", "").replace("ValueType::", "").replace("{}", "").replace("}", ""))
                if si["kind"] == "multi" and names == {"false"}:
                    ts = matches_true_set(fn, si)
                    if ts & set(TYPES):
                        acc |= ts
                        subject = subject or "matches"
            if not acc:
                continue
            short = fid.split("::")[-1]
            if short == "check_expr":
                if "Unary" in region and "Not" in region:
                    out["unary-not"] = acc
                elif "Unary" in region and "Minus" in region:
                    out["unary-minus"] = acc
                elif "Index" in region and subject and "Index.array" in subject:
                    out["index-base"] = acc
                elif "Index" in region and subject and "Index.index" in subject:
                    out["index-index"] = acc
                elif "Call" in region and subject and "args" in subject:
                    out["command-arg"] = acc
            elif short == "check_boolean_expr":
                out["condition"] = acc
            elif short == "expect_member_string_arg":
                out["member-string-arg"] = acc
            elif short == "expect_member_number_arg":
                out["member-number-arg"] = acc
    return out


def r1b_accepted_is_evaluable(ctx):
    """What the checker accepts on fully static types the runtime must be able to evaluate."""
    tabs = binary_tables(ctx)
    cap = runtime_binary_capability(ctx)
    ce = ctx.need(CE)
    n = 0
    for op, tab in (tabs or {}).items():
        if tab is None:
            continue
        for l in TYPES:
            for r in TYPES:
                if l == "Dynamic" or r == "Dynamic" or not tab[(l, r)]:
                    continue
                n += 1
                if cap[(op, VT2VAL[l], VT2VAL[r])]:
                    ctx.ok("evaluable|%s|%s,%s" % (op, l, r), ce.where(), "accepted and evaluable")
                else:
                    ctx.bad("evaluable|%s|%s,%s" % (op, l, r), ce.where(),
                            "`%s %s %s` is accepted with fully static operand types, but the runtime has no case for (%s, %s) under `%s` and panics" % (l, op.lower(), r, VT2VAL[l], VT2VAL[r], op.lower()))
    ctx.floor("statically accepted concrete cells", n, 60)
    # method arguments: where the runtime arm panics on an argument's type, the checker must test that argument
    from ..panics import collect_sites
    need = {}
    for fid in ("runtime::Runtime::eval_string_member_call", "runtime::Runtime::eval_array_member_call"):
        fn = ctx.need(fid)
        for st in collect_sites(fn, ctx.lib, include_expect=False):
            if st.kind != "diverge":
                continue
            m = None
            rt = False
            for cls, subj, names, S, dom in st.cons:
                if cls == "OP" and "Builtin(" in subj and len(names) == 1:
                    m = (subj.split("(")[0], sorted(names)[0])
                if cls == "RT":
                    rt = True
            if m and rt:
                need[m] = fn.where(st.block)
    mb = [m for m in ce.matches if "MemberBuiltin" in m["scrut_ty"] and any("expect_member" in c for a in m["arms"] for c in a["calls"])]
    for (enum, variant), where in sorted(need.items()):
        outer = {"StringBuiltin": "String", "ArrayBuiltin": "Array", "NumberBuiltin": "Number"}.get(enum, enum)
        checked = False
        for m in mb:
            for i in first_arm(m, ("V", outer, [("V", variant, [])])):
                if any("expect_member" in c for c in m["arms"][i]["calls"]):
                    checked = True
        key = "member-arg|%s::%s" % (enum, variant)
        if checked:
            ctx.ok(key, where, "argument type tested by expect_member_*_arg")
        else:
            ctx.bad(key, where, "the runtime arm of %s::%s panics on an argument of the wrong type, but the checker never tests the argument's static type: `\"abc\".%s(<wrong literal>)` is accepted and crashes" % (enum, variant, variant.lower()))


# --- rule-presence table: (id, function, diagnostic category, condition fragments that must guard the emit_error)
ROWS = [
    ("undeclared-variable", "check_expr", "UndeclaredIdentifier", ["discr(expr)∈Var", "lookup_var_info", "∈None"]),
    ("undeclared-in-interpolation", "check_expr", "UndeclaredIdentifier", ["discr(expr)∈String", "Variable", "lookup_var_info", "∈None"]),
    ("assign-undeclared", "check_stmt", "AssignmentToUndeclared", ["discr(stmt)∈AssignExisting", "lookup_var_info", "∈None"]),
    ("undeclared-function", "check_expr", "UndeclaredIdentifier", ["discr(expr)∈Call", "∈Var", "lookup_func", "∈None"]),
    ("arity-builtin", "check_expr", "FunctionCallArity", ["discr(expr)∈Call", "∈Var", "from_name", "Ne(len(", "arity(", "∈true"]),
    ("arity-user", "check_expr", "FunctionCallArity", ["discr(expr)∈Call", "∈Var", "lookup_func", "Ne(len(", "∈true"]),
    ("arity-member", "check_expr", "FunctionCallArity", ["discr(expr)∈Call", "∈Member", "Ne(len(", "arity(", "∈true"]),
    ("unknown-method", "check_expr", "UndeclaredIdentifier", ["discr(expr)∈Call", "∈Member", "discr(builtin)∈None"]),
    ("break-outside-loop", "check_stmt", "UnreachableCode", ["discr(stmt)∈Break", "Eq(self.in_loop,0)∈true"]),
    ("continue-outside-loop", "check_stmt", "UnreachableCode", ["discr(stmt)∈Continue", "Eq(self.in_loop,0)∈true"]),
    ("return-outside-function", "check_return_stmt", "UnreachableCode", ["is_none(self.current_function)∈true"]),
    ("duplicate-function", "predeclare_block_functions", "DuplicateIdentifier", ["FunctionDef", "find(", "function_scopes", "∈Some"]),
    ("duplicate-parameter", "predeclare_block_functions", "DuplicateIdentifier", ["FunctionDef", "insert(", "∈false"]),
    ("reserved-variable", "check_stmt", "ReservedKeyword", ["discr(stmt)∈Assign", "is_some(from_name(", "∈true"]),
    ("reserved-function", "predeclare_block_functions", "ReservedKeyword", ["FunctionDef", "is_some(from_name(", ".name", "∈true"]),
    ("reserved-parameter", "predeclare_block_functions", "ReservedKeyword", ["FunctionDef", "is_some(from_name(", "params", "∈true"]),
]


def emit_sites(ctx):
    out = []
    for fn in sorted(ctx.lib.in_file("src/resolver.rs"), key=lambda f: f.line):
        for c in fn.calls_to(EMIT):
            kind = sh(ne(fn.deep(c.args[2]))).replace("SemanticError::", "").replace("{}", "")
            cons = []
            for S, al in fn.constraints(c.block):
                si = fn.switch_info(S)
                d = sh(ne(fn.deep(fn.blocks[S]["t"]["d"])))
                for nm in sorted(label_names(fn, S, al, si)):
                    cons.append("%s∈%s" % (d, nm))
            out.append((parent_fn(fn.id).split("::")[-1], kind, cons, fn, c))
    return out


def r2_rule_presence(ctx):
    sites = emit_sites(ctx)
    for rid, fshort, kind, frags in ROWS:
        hit = None
        for (f, k, cons, fn, c) in sites:
            if f != fshort or k != kind:
                continue
            blob = " ∧ ".join(cons)
            if all(fr in blob for fr in frags):
                hit = (fn, c)
                break
        if hit:
            ctx.ok("row|%s" % rid, hit[0].where(hit[1].block), "%s emitted under %s" % (kind, frags))
        else:
            ctx.bad("row|%s" % rid, "src/resolver.rs (%s)" % fshort,
                    "no emit_error(%s) in %s guarded by %s: the static rule '%s' is not enforced (or its condition changed)" % (kind, fshort, frags, rid))
    ctx.floor("emit_error sites in the resolver", len(sites), 29)
    # emit_error reports with error severity; warnings with warning severity
    for fid, want in (("resolver::Resolver::emit_error", "Severity::Error"), ("resolver::Resolver::emit_warning", "Severity::Warning")):
        fn = ctx.need(fid)
        ctx.touch(fn)
        em = fn.calls_to("diagnostics::Diagnostics::emit")
        if em and want in sh(ne(fn.deep(em[0].args[2]))):
            ctx.ok("severity|%s" % fid.split("::")[-1], fn.where(), want)
        else:
            ctx.bad("severity|%s" % fid.split("::")[-1], fn.where(), "%s no longer emits with %s" % (fid, want))
    he = ctx.need("diagnostics::Diagnostics::has_errors")
    ctx.touch(he)
    txt = " ".join(sh(ne(g.deep_rvalue(s["rv"]))) for g in ctx.lib.family("diagnostics::Diagnostics::has_errors") for b in g.live for s in g.blocks[b]["s"]) + \
        " ".join(sh(ne(g.deep(a))) for g in ctx.lib.family("diagnostics::Diagnostics::has_errors") for c in g.calls() for a in c.args)
    if "Severity::Error" in txt:
        ctx.ok("has_errors|counts-errors", he.where(), "has_errors tests Severity::Error")
    else:
        ctx.bad("has_errors|counts-errors", he.where(), "has_errors no longer tests for Severity::Error")


def r3_context_per_function(ctx):
    ok, why = ob_loop_context(ctx)
    if ok:
        ctx.ok("in_loop-per-function", "src/resolver.rs", why)
    else:
        ctx.bad("in_loop-not-reset", "src/resolver.rs", "`comot`/`next` inside a function defined in a loop are accepted: " + why)
    f = ctx.need("resolver::Resolver::check_function_body")
    ctx.touch(f)
    cb = f.calls_to("resolver::Resolver::check_block")
    for field in ("current_function", "current_owner"):
        writes = [b for b in sorted(f.live) for s in f.blocks[b]["s"] if any(isinstance(e, dict) and e.get("f") == field for e in s["lhs"]["p"])]
        before = [b for b in writes if cb and f.dominates(b, cb[0].block)]
        after = [b for b in writes if cb and b in f.reach_from_succ(cb[0].block)]
        if before and after:
            ctx.ok("%s-set-and-restored" % field, f.where(), "written before and after the body")
        else:
            ctx.bad("%s-set-and-restored" % field, f.where(), "%s is not set before / restored after the function body (before=%d after=%d)" % (field, len(before), len(after)))
    # loop depth is incremented and decremented around the loop body
    cs = ctx.need("resolver::Resolver::check_stmt")
    ctx.touch(cs)
    inc = dec = None
    for b in sorted(cs.live):
        for s in cs.blocks[b]["s"]:
            if any(isinstance(e, dict) and e.get("f") == "in_loop" for e in s["lhs"]["p"]):
                t = sh(ne(cs.deep_rvalue(s["rv"])))
                if "Add" in t:
                    inc = b
                if "Sub" in t:
                    dec = b
    body = [c for c in cs.calls_to("resolver::Resolver::check_block") if inc is not None and cs.dominates(inc, c.block)]
    if inc is not None and dec is not None and body and any(dec in cs.reach_from_succ(c.block) for c in body) and not any(inc in cs.reach_from_succ(c.block) for c in body):
        ctx.ok("in_loop-paired", cs.where(inc), "in_loop += 1 before and -= 1 after the loop body")
    else:
        ctx.bad("in_loop-paired", cs.where(), "the loop depth is not incremented before and decremented after the loop body")


def r4_declared_type_follows_latest_declaration(ctx):
    """`make x get A ... make x get B` in one block: the type recorded for x must become B's."""
    cs = ctx.need("resolver::Resolver::check_stmt")
    ctx.touch(cs)
    vt = [i for i, l in enumerate(cs.locals) if l["name"] == "var_type"]
    if not vt:
        # fall back: the local that holds unwrap_or(infer_expr_type(..), Dynamic) in the Assign arm
        for c in cs.calls():
            if (c.callee or "").endswith("Option::unwrap_or") and "infer_expr_type" in sh(ne(cs.deep(c.args[0]))) and not c.dest["p"]:
                vt.append(c.dest["l"])
    if not vt:
        ctx.bad("redeclare|no-type-local", cs.where(), "check_stmt's `make` arm no longer computes the declared type from the initialiser")
        return
    from ..mir import read_places
    uses = sorted({b for b, pl in read_places(cs) if pl["l"] in vt and not pl["p"]})
    # the Option switch that separates "name already declared in this scope" from "new name"
    sw = None
    for S in sorted(cs.live):
        if cs.blocks[S]["t"]["k"] != "switch":
            continue
        si = cs.switch_info(S)
        if si["kind"] == "discr" and si["ty"].endswith("Option"):
            d = sh(ne(cs.deep(cs.blocks[S]["t"]["d"])))
            if ("rposition" in d or "position" in d or "find" in d) and "variable_scopes" in d:
                sw = (S, si)
                break
    if sw is None:
        ctx.bad("redeclare|no-lookup", cs.where(), "the `make` arm no longer looks the name up in the current scope")
        return
    S, si = sw
    some_use = [b for b in uses for lab, _ in cs.succ[S] if label_names(cs, S, [lab], si) == {"Some"} and cs.edge_dominated(b, S, [lab])]
    none_use = [b for b in uses for lab, _ in cs.succ[S] if label_names(cs, S, [lab], si) == {"None"} and cs.edge_dominated(b, S, [lab])]
    if none_use:
        ctx.ok("declare|type-recorded", cs.where(none_use[0]), "a new variable is recorded with the initialiser's type")
    else:
        ctx.bad("declare|type-recorded", cs.where(S), "a new variable is not recorded with its initialiser's type")
    if some_use:
        ctx.ok("redeclare|type-refreshed", cs.where(some_use[0]), "a redeclaration in the same block stores the new initialiser's type")
    else:
        ctx.bad("redeclare|type-refreshed", cs.where(S), "on the redeclaration path (`make x` when x already exists in this block) the new static type is never stored: later uses of x are checked against the old type")


RULES = [("C09-R1", r1a_typing_tables), ("C09-R1b", r1b_accepted_is_evaluable), ("C09-R2", r2_rule_presence), ("C09-R3", r3_context_per_function), ("C09-R4", r4_declared_type_follows_latest_declaration)]

EXPLANATION = (
    "R1: the accept/reject arms of check_expr are evaluated arm-by-arm (first-match semantics over name-resolved HIR patterns) "
    "for every binary operator over the full 8x8 domain of static operand types and compared cell by cell with the documented "
    "rules written as predicates; the single-operand rules (not, unary minus, index base/index, conditions, method/command "
    "argument types) are read off the constraints of their emit_error sites and compared with the documented accept sets. "
    "R1b: every cell accepted on fully static types must be evaluable by the runtime, whose capability table is obtained by "
    "finite-domain partial evaluation of eval_expr's decision tree (discriminants fixed, all other branches forked); method "
    "arguments on which a runtime arm panics must be type-tested by the checker. R2: a 16-row table of documented rules, each "
    "needing an emit_error of the right category guarded by the right condition on the node kind it governs, with Error "
    "severity. R3: loop/function context is saved, reset and restored per function body and paired around loop bodies. "
    "Decides the finite core of the typing judgement and the presence/condition of each rule; does not decide the iff over "
    "all programs (the inferred types feeding the tables are themselves computed by infer_expr_type, which is not evaluated)."
)
ASSUMPTIONS = ["the reference predicates in rules/c09.py state the documented typing rules (docs/*.md plus the rule comments in resolver.rs)", "infer_expr_type yields the operand's static type"]
TRUSTED = ["rustc nightly HIR name resolution and MIR", "nsx exporter", "nsverif pattern evaluator / partial evaluator"]
NONTRIVIAL = "one obligation per typing cell (640), per accepted concrete cell, per single-operand rule and per rule-presence row; distinct = distinct cell/row"

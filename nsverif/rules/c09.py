"""C09 — static rules enforced exactly: ill-formed rejected, well-formed accepted."""
import re
from ..guards import ne, sh
from ..mir import parent_fn
from ..panics import label_names
from ..tables import first_arm, peval, span_inside
from .c02 import matches_true_set
from .c06 import ob_loop_context

TYPES = ["Number", "String", "Bool", "Array", "Null", "ProcessCommand", "ProcessResult", "Dynamic"]
VT2VAL = {"Number": "Number", "String": "Str", "Bool": "Bool", "Array": "Array", "Null": "Null", "ProcessCommand": "Host", "ProcessResult": "Host"}
CE = "resolver::Resolver::check_expr"
EMIT = "resolver::Resolver::emit_error"


# --- the documented typing rules, stated as predicates over the static types of the operands -------------------
def ref_add(l, r):
    return l in ("String", "Dynamic") or r in ("String", "Dynamic") or (l, r) == ("Number", "Number")


def ref_arith(l, r):
    return l in ("Number", "Dynamic") and r in ("Number", "Dynamic")


def ref_cmp(l, r):
    return (l == r and l in ("Number", "String", "Bool")) or l in ("Null", "Dynamic") or r in ("Null", "Dynamic")


def ref_logic(l, r):
    return (l, r) == ("Bool", "Bool") or l in ("Null", "Dynamic") or r in ("Null", "Dynamic")


REF_BIN = {"Add": ref_add, "Minus": ref_arith, "Times": ref_arith, "Divide": ref_arith, "Mod": ref_arith,
           "Eq": ref_cmp, "Gt": ref_cmp, "Lt": ref_cmp, "And": ref_logic, "Or": ref_logic}

REF_SETS = {
    "unary-not": {"Bool", "Null", "Dynamic"}, "unary-minus": {"Number", "Dynamic"},
    "index-base": {"Array", "Dynamic"}, "index-index": {"Number", "Dynamic"},
    "condition": {"Bool", "Null", "Dynamic"},
    "member-string-arg": {"String", "Dynamic"}, "member-number-arg": {"Number", "Dynamic"}, "command-arg": {"String", "Dynamic"},
}


def some(t):
    return ("V", "Some", [("V", t, [])])


def binary_tables(ctx):
    """{op: {(l, r): accepted?}} by evaluating the HIR match arms of check_expr over Option<ValueType>^2."""
    ce = ctx.need(CE)
    ctx.touch(ce)
    opm = [m for m in ce.matches if m["scrut_ty"].endswith("BinaryOp") or m["scrut_ty"].endswith("BinaryOp>")]
    opm = [m for m in ce.matches if "BinaryOp" in m["scrut_ty"]]
    if not opm:
        return None
    opm = opm[0]
    inner = [m for m in ce.matches if m["scrut"].replace(" ", "") == "(l,r)"] or \
        [m for m in ce.matches if m["scrut"].strip().startswith("(") and m["scrut_ty"].count("ValueType") == 2]
    out = {}
    ops = ctx.lib.variants("syntax::parser::BinaryOp")
    for op in ops:
        arms = first_arm(opm, ("V", op, []))
        if len(arms) != 1:
            out[op] = None
            continue
        arm = opm["arms"][arms[0]]
        ms = [m for m in inner if span_inside(m["span"], arm["body_span"])]
        if len(ms) != 1:
            out[op] = None
            continue
        m = ms[0]
        tab = {}
        for l in TYPES + [None]:
            for r in TYPES + [None]:
                v = ("T", [some(l) if l else ("V", "None", []), some(r) if r else ("V", "None", [])])
                a = first_arm(m, v)
                if len(a) != 1:
                    tab[(l, r)] = None
                else:
                    calls = m["arms"][a[0]]["calls"]
                    tab[(l, r)] = not any(c.endswith("emit_error") for c in calls)
        out[op] = tab
    for op in ops:
        if out.get(op) is None:
            out[op] = binary_table_by_evaluation(ce, op)
    return out


def binary_table_by_evaluation(ce, op):
    """The typing rule of one operator read from the compiled body instead of from the shape of a `match (l, r)`: the
    checker is walked with the node kind, the operator and the two inferred types fixed; a cell is accepted when no walk
    reports an error and rejected when every walk does.  (Used where the rule is not spelled as a match: named `matches!`
    booleans, if-chains.)"""
    tab = {}
    for l in TYPES + [None]:
        for r in TYPES + [None]:
            known = {"expr": "Binary", "op": op}
            for nm, v in (("l", l), ("r", r), ("_.0", l), ("_.1", r)):
                known[nm] = "Some" if v else "None"
                if v:
                    known[nm + "@Some.0"] = v
            paths = peval(ce, 0, known)
            if not paths or any(p["end"] != "return" for p in paths):
                return None
            e = [any(ev[0] == "call" and ev[1].endswith("emit_error") for ev in p["events"]) for p in paths]
            if all(e):
                tab[(l, r)] = False
            elif not any(e):
                tab[(l, r)] = True
            else:
                return None
    return tab


def runtime_binary_capability(ctx):
    ev = ctx.need("runtime::Runtime::eval_expr")
    ctx.touch(ev)
    vals = ["Str", "Number", "Bool", "Array", "Host", "Null"]
    cap = {}
    for op in ctx.lib.variants("syntax::parser::BinaryOp"):
        for a in vals:
            for b in vals:
                known = {"expr": "Binary", "op": op}
                if op in ("And", "Or"):
                    known.update({"l": a, "r": b})
                else:
                    known.update({"_.0": a, "_.1": b})
                paths = peval(ev, 0, known)
                full = [p for p in paths if sum(1 for e in p["events"] if e[0] == "call" and e[1].endswith("eval_expr")) >= 2]
                if op in ("And", "Or") and not full:
                    full = [p for p in paths if any(e[0] == "call" and e[1].endswith("eval_expr") for e in p["events"])]
                cap[(op, a, b)] = not any(p["end"] == "panic" for p in full)
    return cap


def r1a_typing_tables(ctx):
    tabs = binary_tables(ctx)
    ce = ctx.need(CE)
    if not tabs:
        ctx.bad("binary|no-table", ce.where(), "check_expr no longer matches on the binary operator")
        return
    n = 0
    for op, ref in REF_BIN.items():
        tab = tabs.get(op)
        if tab is None:
            ctx.bad("binary|%s|no-table" % op, ce.where(), "cannot extract the typing rule of `%s` (no arm / no inner match on (l, r))" % op)
            continue
        for l in TYPES:
            for r in TYPES:
                n += 1
                got = tab[(l, r)]
                want = ref(l, r)
                if got is None:
                    ctx.bad("binary|%s|%s,%s|undecided" % (op, l, r), ce.where(), "typing cell (%s, %s %s) cannot be evaluated (guards?)" % (l, op, r))
                elif got != want:
                    ctx.bad("binary|%s|%s,%s|%s" % (op, l, r, "accepts" if got else "rejects"), ce.where(),
                            "`%s %s %s` is %s but the documented rule %s it" % (l, op.lower(), r, "accepted" if got else "rejected", "accepts" if want else "rejects"))
                else:
                    ctx.ok("binary|%s|%s,%s" % (op, l, r), ce.where(), "accept" if got else "reject")
    ctx.floor("binary typing cells evaluated", n, 640)
    # accept-sets of the single-operand rules, read off the constraints of their emit_error sites
    sets = single_operand_sets(ctx)
    for rule, want in REF_SETS.items():
        got = sets.get(rule)
        if got is None:
            ctx.bad("rule|%s|missing" % rule, "src/resolver.rs", "the static check for %s was not found (no emit_error guarded by a type test of that operand)" % rule)
        elif got != want:
            extra, missing = got - want, want - got
            ctx.bad("rule|%s|%s" % (rule, "+".join(sorted(extra)) + "-" + "+".join(sorted(missing))), "src/resolver.rs",
                    "the static check for %s accepts %s; the documented rule accepts %s" % (rule, sorted(got), sorted(want)))
        else:
            ctx.ok("rule|%s" % rule, "src/resolver.rs", "accepts exactly %s" % sorted(got))


def infer_table(ctx):
    """{(op, l, r): result} of infer_expr_type on a binary node whose operand types are l and r: 'None' or the ValueType
    name (finite-domain partial evaluation of the MIR decision tree; derived `==` on ValueType is evaluated)."""
    f = ctx.need("resolver::Resolver::infer_expr_type")
    ctx.touch(f)
    out = {}
    for op in ctx.lib.variants("syntax::parser::BinaryOp"):
        for l in TYPES:
            for r in TYPES:
                ps = peval(f, 0, {"expr": "Binary", "op": op, "l": l, "r": r, "_.0": l, "_.1": r})
                res = set()
                for p_ in ps:
                    if p_["end"] != "return":
                        res.add("!" + p_["end"])
                        continue
                    if sum(1 for e in p_["events"] if e[0] == "call" and e[1].endswith("infer_expr_type")) < 2:
                        continue
                    aggs = [e for e in p_["events"] if e[0] == "agg"]
                    vt = [e[2] for e in aggs if e[1].endswith("ValueType")]
                    opt = [e[2] for e in aggs if e[1].endswith("Option")]
                    if not opt:
                        continue
                    res.add("None" if opt[-1] == "None" else (vt[-1] if vt else "?"))
                out[(op, l, r)] = res
    return out


def r1c_inferred_types(ctx):
    """The type the checker assigns to `a op b` feeds every rule further up the tree.  It must not depend on the order of the
    operands (no operator of the language is typed asymmetrically), it must be a single answer per cell, and it is defined
    exactly for the cells check_expr accepts."""
    tab = infer_table(ctx)
    acc = binary_tables(ctx) or {}
    n = 0
    for (op, l, r), res in sorted(tab.items()):
        n += 1
        if len(res) != 1 or any(x.startswith("!") or x == "?" for x in res):
            ctx.bad("infer|undecided|%s|%s,%s" % (op, l, r), "src/resolver.rs", "cannot evaluate infer_expr_type for %s %s %s (%s)" % (l, op, r, sorted(res)))
            continue
        if (l, r) > (r, l):
            continue
        mirror = tab.get((op, r, l))
        if mirror == res:
            ctx.ok("infer|symmetric|%s|%s,%s" % (op, l, r), "src/resolver.rs", "%s" % sorted(res)[0])
        else:
            ctx.bad("infer|asymmetric|%s|%s,%s" % (op, l, r), "src/resolver.rs", "`%s %s %s` is typed %s but `%s %s %s` is typed %s: the static type of an expression changes when its operands are swapped, so a use that type-checks for one order (arithmetic on the sum, indexing with it) is rejected - or a wrong use accepted - for the other" % (l.lower(), op.lower(), r.lower(), sorted(res)[0], r.lower(), op.lower(), l.lower(), sorted(mirror or ["?"])[0]))
    ctx.floor("binary result-type cells", n, 600)
    # defined exactly where accepted (reported as a note when today's tree already disagrees somewhere; not a verdict)
    dis = []
    for (op, l, r), res in sorted(tab.items()):
        a = (acc.get(op) or {}).get((l, r))
        if a is None or len(res) != 1:
            continue
        if a != (next(iter(res)) != "None"):
            dis.append("%s(%s,%s): accepted=%s inferred=%s" % (op, l, r, a, next(iter(res))))
    if dis:
        ctx.note("accepted/inferred disagreement in %d cells, e.g. %s" % (len(dis), dis[:4]))


GAMMA = {"Number": {"Number"}, "String": {"Str"}, "Bool": {"Bool"}, "Array": {"Array"}, "Null": {"Null"},
         "ProcessCommand": {"Host"}, "ProcessResult": {"Host"}, "Dynamic": {"Str", "Number", "Bool", "Array", "Host", "Null"}}
KIND_TO_STATIC = {"Number": "Number", "Str": "String", "Bool": "Bool", "Array": "Array", "Null": "Null"}


def runtime_result_kinds(ctx):
    """{(op, a, b): set of Value kinds eval_expr can return for operand kinds a, b} (finite-domain partial evaluation)."""
    ev = ctx.need("runtime::Runtime::eval_expr")
    vals = ["Str", "Number", "Bool", "Array", "Host", "Null"]
    out = {}
    for op in ctx.lib.variants("syntax::parser::BinaryOp"):
        for a in vals:
            for b in vals:
                known = {"expr": "Binary", "op": op}
                if op in ("And", "Or"):
                    known.update({"l": a, "r": b})
                else:
                    known.update({"_.0": a, "_.1": b})
                res = set()
                for p_ in peval(ev, 0, known):
                    n_ = sum(1 for e in p_["events"] if e[0] == "call" and e[1].endswith("eval_expr"))
                    if n_ < 2 and not (op in ("And", "Or") and n_ >= 1):
                        continue
                    if p_["end"] != "return":
                        continue
                    aggs = [e for e in p_["events"] if e[0] == "agg"]
                    rs = [e[2] for e in aggs if e[1].endswith("Result")]
                    vv = [e[2] for e in aggs if e[1].endswith("runtime::Value")]
                    if rs and rs[-1] == "Ok" and vv:
                        res.add(vv[-1])
                out[(op, a, b)] = res
    return out


def unary_infer_table(ctx):
    f = ctx.need("resolver::Resolver::infer_expr_type")
    out = {}
    for op in ("Not", "Minus"):
        for t in TYPES:
            res = set()
            for p_ in peval(f, 0, {"expr": "Unary", "op": op, "t": t}):
                if p_["end"] != "return":
                    continue
                if not any(e[0] == "call" and e[1].endswith("infer_expr_type") for e in p_["events"]):
                    continue
                aggs = [e for e in p_["events"] if e[0] == "agg"]
                vt = [e[2] for e in aggs if e[1].endswith("ValueType")]
                opt = [e[2] for e in aggs if e[1].endswith("Option")]
                if opt:
                    res.add("None" if opt[-1] == "None" else (vt[-1] if vt else "?"))
            out[(op, t)] = res
    return out


def r1d_inferred_type_is_sound(ctx):
    """Two ways the inferred type of an *accepted* operator expression makes the checker reject valid programs:
     - no type at all (None): whatever encloses the expression then reports a mismatch;
     - a type narrower than what the runtime can produce for operands of the accepted static types (`dynamic add 1` typed
       number although `"a" add 1` is the string "a1"): a use that is right for the other result is rejected.
    The inferred type must be defined for every accepted cell and be either dynamic or the one kind the runtime yields."""
    acc = binary_tables(ctx) or {}
    inf = infer_table(ctx)
    rt = runtime_result_kinds(ctx)
    n = 0
    for (op, l, r), res in sorted(inf.items()):
        if not (acc.get(op) or {}).get((l, r)) or len(res) != 1:
            continue
        t = next(iter(res))
        n += 1
        if t == "None":
            ctx.bad("infer|accepted-untyped|%s|%s,%s" % (op, l, r), "src/resolver.rs", "`%s %s %s` is accepted but has no inferred type: an enclosing operator, condition or method call then rejects a valid program" % (l.lower(), op.lower(), r.lower()))
            continue
        kinds = set()
        for a in GAMMA[l]:
            for b in GAMMA[r]:
                kinds |= rt.get((op, a, b), set())
        statics = {KIND_TO_STATIC.get(k, "Host") for k in kinds}
        if not kinds or t == "Dynamic" or statics == {t}:
            ctx.ok("infer|sound|%s|%s,%s" % (op, l, r), "src/resolver.rs", "%s covers %s" % (t, sorted(kinds)))
        else:
            ctx.bad("infer|too-narrow|%s|%s,%s|%s" % (op, l, r, t), "src/resolver.rs", "`%s %s %s` is typed %s, but for operands of these static types the runtime can return %s: a later use that is valid for the other result (arithmetic on a sum of numbers, a string method on a concatenation) is rejected" % (l.lower(), op.lower(), r.lower(), t.lower(), sorted(statics)))
    sets = single_operand_sets(ctx)
    ut = unary_infer_table(ctx)
    for op, rule in (("Not", "unary-not"), ("Minus", "unary-minus")):
        for t in sorted(sets.get(rule, ())):
            res = ut.get((op, t), set())
            n += 1
            if res and "None" not in res and len(res) == 1:
                ctx.ok("infer|unary|%s|%s" % (op, t), "src/resolver.rs", "%s %s : %s" % (op.lower(), t.lower(), sorted(res)[0]))
            else:
                ctx.bad("infer|accepted-untyped|%s|%s" % (op, t), "src/resolver.rs", "`%s <%s>` is accepted but infer_expr_type gives it no type (%s): `(%s a) %s ..` inside a function whose parameter a is dynamic is rejected although it is valid" % (op.lower(), t.lower(), sorted(res) or "no result", op.lower(), "and true" if op == "Not" else "times 2"))
    ctx.floor("accepted operator cells with an inferred type", n, 100)


def single_operand_sets(ctx):
    out = {}
    for fid in (CE, "resolver::Resolver::check_boolean_expr", "resolver::Resolver::expect_member_string_arg", "resolver::Resolver::expect_member_number_arg"):
        fn = ctx.need(fid)
        ctx.touch(fn)
        for c in fn.calls_to(EMIT):
            kind = sh(ne(fn.deep(c.args[2])))
            if "TypeMismatch" not in kind:
                continue
            acc = set()
            subject = None
            region = []
            for S, al in fn.constraints(c.block):
                si = fn.switch_info(S)
                d = ne(fn.deep(fn.blocks[S]["t"]["d"]))
                names = label_names(fn, S, al, si)
                txt = sh(d)
                if si["kind"] == "discr" and ("parser::Expr" in si["ty"] or "UnaryOp" in si["ty"]):
                    region += sorted(names)
                if d[0] == "call" and d[1].endswith("::ne") and names == {"true"}:
                    a, b = sh(d[2][0]), sh(d[2][1])
                    if "infer_expr_type" in a:
                        subject = a
                        acc.add(b.replace("Option::Some{", "").replace("ValueType::", "").replace("{}", "").replace("}", ""))
                if si["kind"] == "multi" and names == {"false"}:
                    ts = matches_true_set(fn, si)
                    if ts & set(TYPES):
                        acc |= ts
                        if subject is None:
                            # what the `matches!` looks at: the scrutinee of the switches that decide its arms
                            for (bi, _kk, _st) in si.get("defs", []):
                                for S4, _lab in fn.deciding(bi):
                                    d4 = sh(ne(fn.deep(fn.blocks[S4]["t"]["d"])))
                                    if "infer_expr_type" in d4 and subject is None:
                                        subject = d4
                        subject = subject or "matches"
            if not acc:
                continue
            short = fid.split("::")[-1]
            if short == "check_expr":
                if "Unary" in region and "Not" in region:
                    out["unary-not"] = acc
                elif "Unary" in region and "Minus" in region:
                    out["unary-minus"] = acc
                elif "Index" in region and subject and "Index.array" in subject:
                    out["index-base"] = acc
                elif "Index" in region and subject and "Index.index" in subject:
                    out["index-index"] = acc
                elif "Call" in region and subject and "args" in subject:
                    out["command-arg"] = acc
            elif short == "check_boolean_expr":
                out["condition"] = acc
            elif short == "expect_member_string_arg":
                out["member-string-arg"] = acc
            elif short == "expect_member_number_arg":
                out["member-number-arg"] = acc
    return out


def r1b_accepted_is_evaluable(ctx):
    """What the checker accepts on fully static types the runtime must be able to evaluate."""
    tabs = binary_tables(ctx)
    cap = runtime_binary_capability(ctx)
    ce = ctx.need(CE)
    n = 0
    for op, tab in (tabs or {}).items():
        if tab is None:
            continue
        for l in TYPES:
            for r in TYPES:
                if l == "Dynamic" or r == "Dynamic" or not tab[(l, r)]:
                    continue
                n += 1
                if cap[(op, VT2VAL[l], VT2VAL[r])]:
                    ctx.ok("evaluable|%s|%s,%s" % (op, l, r), ce.where(), "accepted and evaluable")
                else:
                    ctx.bad("evaluable|%s|%s,%s" % (op, l, r), ce.where(),
                            "`%s %s %s` is accepted with fully static operand types, but the runtime has no case for (%s, %s) under `%s` and panics" % (l, op.lower(), r, VT2VAL[l], VT2VAL[r], op.lower()))
    ctx.floor("statically accepted concrete cells", n, 60)
    # method arguments: where the runtime arm panics on an argument's type, the checker must test that argument
    from ..panics import collect_sites
    need = {}
    for fid in ("runtime::Runtime::eval_string_member_call", "runtime::Runtime::eval_array_member_call"):
        fn = ctx.need(fid)
        for st in collect_sites(fn, ctx.lib, include_expect=False):
            if st.kind != "diverge":
                continue
            m = None
            rt = False
            for cls, subj, names, S, dom in st.cons:
                if cls == "OP" and "Builtin(" in subj and len(names) == 1:
                    m = (subj.split("(")[0], sorted(names)[0])
                if cls == "RT":
                    rt = True
            if m and rt:
                need[m] = fn.where(st.block)
    mb = [m for m in ce.matches if "MemberBuiltin" in m["scrut_ty"] and any("expect_member" in c for a in m["arms"] for c in a["calls"])]
    for (enum, variant), where in sorted(need.items()):
        outer = {"StringBuiltin": "String", "ArrayBuiltin": "Array", "NumberBuiltin": "Number"}.get(enum, enum)
        checked = False
        for m in mb:
            for i in first_arm(m, ("V", outer, [("V", variant, [])])):
                if any("expect_member" in c for c in m["arms"][i]["calls"]):
                    checked = True
        key = "member-arg|%s::%s" % (enum, variant)
        if checked:
            ctx.ok(key, where, "argument type tested by expect_member_*_arg")
        else:
            ctx.bad(key, where, "the runtime arm of %s::%s panics on an argument of the wrong type, but the checker never tests the argument's static type: `\"abc\".%s(<wrong literal>)` is accepted and crashes" % (enum, variant, variant.lower()))


# --- rule-presence table: (id, function, diagnostic category, condition fragments that must guard the emit_error)
ROWS = [
    ("undeclared-variable", "check_expr", "UndeclaredIdentifier", ["discr(expr)∈Var", "lookup_var_info", "∈None"]),
    ("undeclared-in-interpolation", "check_expr", "UndeclaredIdentifier", ["discr(expr)∈String", "Variable", "lookup_var_info", "∈None"]),
    ("assign-undeclared", "check_stmt", "AssignmentToUndeclared", ["discr(stmt)∈AssignExisting", "lookup_var_info", "∈None"]),
    ("undeclared-function", "check_expr", "UndeclaredIdentifier", ["discr(expr)∈Call", "∈Var", "lookup_func", "∈None"]),
    ("arity-builtin", "check_expr", "FunctionCallArity", ["discr(expr)∈Call", "∈Var", "from_name", "Ne(len(", "arity(", "∈true"]),
    ("arity-user", "check_expr", "FunctionCallArity", ["discr(expr)∈Call", "∈Var", "lookup_func", "Ne(len(", "∈true"]),
    ("arity-member", "check_expr", "FunctionCallArity", ["discr(expr)∈Call", "∈Member", "Ne(len(", "arity(", "∈true"]),
    ("unknown-method", "check_expr", "UndeclaredIdentifier", ["discr(expr)∈Call", "∈Member", "discr(builtin)∈None"]),
    ("break-outside-loop", "check_stmt", "UnreachableCode", ["discr(stmt)∈Break", "Eq(self.in_loop,0)∈true"]),
    ("continue-outside-loop", "check_stmt", "UnreachableCode", ["discr(stmt)∈Continue", "Eq(self.in_loop,0)∈true"]),
    ("return-outside-function", "check_return_stmt", "UnreachableCode", ["is_none(self.current_function)∈true"]),
    ("duplicate-function", "predeclare_block_functions", "DuplicateIdentifier", ["FunctionDef", "find(", "function_scopes", "∈Some"]),
    ("duplicate-parameter", "predeclare_block_functions", "DuplicateIdentifier", ["FunctionDef", "insert(", "∈false"]),
    ("reserved-variable", "check_stmt", "ReservedKeyword", ["discr(stmt)∈Assign", "is_some(from_name(", "∈true"]),
    ("reserved-function", "predeclare_block_functions", "ReservedKeyword", ["FunctionDef", "is_some(from_name(", ".name", "∈true"]),
    ("reserved-parameter", "predeclare_block_functions", "ReservedKeyword", ["FunctionDef", "is_some(from_name(", "params", "∈true"]),
]


def emit_sites(ctx):
    out = []
    for fn in sorted(ctx.lib.in_file("src/resolver.rs"), key=lambda f: f.line):
        for c in fn.calls_to(EMIT):
            kind = sh(ne(fn.deep(c.args[2]))).replace("SemanticError::", "").replace("{}", "")
            cons = []
            for S, al in fn.constraints(c.block):
                si = fn.switch_info(S)
                d = sh(ne(fn.deep(fn.blocks[S]["t"]["d"])))
                for nm in sorted(label_names(fn, S, al, si)):
                    cons.append("%s∈%s" % (d, nm))
            out.append((parent_fn(fn.id).split("::")[-1], kind, cons, fn, c))
    return out


def r2_rule_presence(ctx):
    sites = emit_sites(ctx)
    for rid, fshort, kind, frags in ROWS:
        hit = None
        for (f, k, cons, fn, c) in sites:
            if f != fshort or k != kind:
                continue
            blob = " ∧ ".join(cons)
            if all(fr in blob for fr in frags):
                hit = (fn, c)
                break
        if hit:
            ctx.ok("row|%s" % rid, hit[0].where(hit[1].block), "%s emitted under %s" % (kind, frags))
        else:
            ctx.bad("row|%s" % rid, "src/resolver.rs (%s)" % fshort,
                    "no emit_error(%s) in %s guarded by %s: the static rule '%s' is not enforced (or its condition changed)" % (kind, fshort, frags, rid))
    ctx.floor("emit_error sites in the resolver", len(sites), 29)
    # a rule that lives in a helper taking the node as a parameter applies to *every* kind of node: a test of the node's
    # kind on the way to the emit_error may choose the wording, it must not exempt kinds
    expr_kinds = {v["name"] for v in ctx.lib.adt("syntax::parser::Expr")["variants"]}
    for helper in ("check_boolean_expr", "expect_member_string_arg", "expect_member_number_arg"):
        fn = ctx.need("resolver::Resolver::" + helper)
        ctx.touch(fn)
        param = fn.locals[2]["name"] or "arg2"
        for c in fn.calls_to(EMIT):
            kinds = None
            for S, al in fn.constraints(c.block):
                si = fn.switch_info(S)
                if si["kind"] == "discr" and "parser::Expr" in si["ty"] and sh(ne(fn.deep(fn.blocks[S]["t"]["d"]))) == "discr(%s)" % param:
                    nm = label_names(fn, S, al, si)
                    kinds = nm if kinds is None else (kinds & nm)
                if si["kind"] == "multi":
                    # matches!(param, A | B): a bool set under a switch on the node's kind
                    true_set = set()
                    for (bi, kk, st) in si["defs"]:
                        if kk != "t" and st["rv"]["k"] == "use" and isinstance(st["rv"]["a"], dict) and st["rv"]["a"].get("int") == 1:
                            for S2, lab in fn.deciding(bi):
                                si2 = fn.switch_info(S2)
                                if si2["kind"] == "discr" and "parser::Expr" in si2["ty"] and sh(ne(fn.deep(fn.blocks[S2]["t"]["d"]))) == "discr(%s)" % param:
                                    true_set |= label_names(fn, S2, [lab], si2)
                    if true_set:
                        nm = label_names(fn, S, al, si)
                        here = true_set if nm == {"true"} else (expr_kinds - true_set if nm == {"false"} else expr_kinds)
                        kinds = here if kinds is None else (kinds & here)
            missing = set() if kinds is None else expr_kinds - kinds
            if missing:
                ctx.bad("helper-kinds|%s|%s" % (helper, ",".join(sorted(missing))), fn.where(c.block), "%s reports its type rule only for some kinds of expression: %s nodes never reach the emit_error, so an operand of that shape with the wrong static type is accepted" % (helper, "/".join(sorted(missing))))
            else:
                ctx.ok("helper-kinds|%s" % helper, fn.where(c.block), "applies to every expression kind")
    # every statement kind that carries a condition hands it to check_boolean_expr, unconditionally within its arm
    cs = ctx.need("resolver::Resolver::check_stmt")
    stmt = ctx.lib.adt("syntax::parser::Stmt")
    with_cond = sorted(v["name"] for v in stmt["variants"] if any(f[0] == "cond" for f in v.get("fields", [])))
    for vname in with_cond:
        hit = None
        for c in cs.calls_to("resolver::Resolver::check_boolean_expr"):
            if sh(ne(cs.deep(c.args[1]))) != "stmt@%s.cond" % vname:
                continue
            cons = [(sh(ne(cs.deep(cs.blocks[S]["t"]["d"]))), label_names(cs, S, al, cs.switch_info(S))) for S, al in cs.constraints(c.block) if cs.switch_info(S)["kind"] in ("discr", "bin", "call", "multi", "place")]
            extra = [(d, n) for d, n in cons if not (d == "discr(stmt)" and n == {vname})]
            hit = (c, extra)
        if hit and not hit[1]:
            ctx.ok("condition-checked|%s" % vname, cs.where(hit[0].block), "check_boolean_expr(stmt@%s.cond) in the %s arm, unconditionally" % (vname, vname))
        elif hit:
            ctx.bad("condition-checked|%s|conditional" % vname, cs.where(hit[0].block), "the condition of a `%s` statement is type-checked only under %s" % (vname, [d for d, n in hit[1]][:3]))
        else:
            ctx.bad("condition-checked|%s" % vname, cs.where(), "the condition of a `%s` statement is never handed to check_boolean_expr: a non-boolean condition is accepted" % vname)
    ctx.floor("statement kinds with a condition", len(with_cond), 2)
    # emit_error reports with error severity; warnings with warning severity
    for fid, want in (("resolver::Resolver::emit_error", "Severity::Error"), ("resolver::Resolver::emit_warning", "Severity::Warning")):
        fn = ctx.need(fid)
        ctx.touch(fn)
        em = fn.calls_to("diagnostics::Diagnostics::emit")
        if em and want in sh(ne(fn.deep(em[0].args[2]))):
            ctx.ok("severity|%s" % fid.split("::")[-1], fn.where(), want)
        else:
            ctx.bad("severity|%s" % fid.split("::")[-1], fn.where(), "%s no longer emits with %s" % (fid, want))
    he = ctx.need("diagnostics::Diagnostics::has_errors")
    ctx.touch(he)
    txt = " ".join(sh(ne(g.deep_rvalue(s["rv"]))) for g in ctx.lib.family("diagnostics::Diagnostics::has_errors") for b in g.live for s in g.blocks[b]["s"]) + \
        " ".join(sh(ne(g.deep(a))) for g in ctx.lib.family("diagnostics::Diagnostics::has_errors") for c in g.calls() for a in c.args)
    if "Severity::Error" in txt:
        ctx.ok("has_errors|counts-errors", he.where(), "has_errors tests Severity::Error")
    else:
        ctx.bad("has_errors|counts-errors", he.where(), "has_errors no longer tests for Severity::Error")


def r3_context_per_function(ctx):
    ok, why = ob_loop_context(ctx)
    if ok:
        ctx.ok("in_loop-per-function", "src/resolver.rs", why)
    else:
        ctx.bad("in_loop-not-reset", "src/resolver.rs", "`comot`/`next` inside a function defined in a loop are accepted: " + why)
    f = ctx.need("resolver::Resolver::check_function_body")
    ctx.touch(f)
    cb = f.calls_to("resolver::Resolver::check_block")
    for field in ("current_function", "current_owner"):
        writes = [b for b in sorted(f.live) for s in f.blocks[b]["s"] if any(isinstance(e, dict) and e.get("f") == field for e in s["lhs"]["p"])]
        before = [b for b in writes if cb and f.dominates(b, cb[0].block)]
        after = [b for b in writes if cb and b in f.reach_from_succ(cb[0].block)]
        if before and after:
            ctx.ok("%s-set-and-restored" % field, f.where(), "written before and after the body")
        else:
            ctx.bad("%s-set-and-restored" % field, f.where(), "%s is not set before / restored after the function body (before=%d after=%d)" % (field, len(before), len(after)))
    # loop depth is incremented and decremented around the loop body
    cs = ctx.need("resolver::Resolver::check_stmt")
    ctx.touch(cs)
    inc = dec = None
    for b in sorted(cs.live):
        for s in cs.blocks[b]["s"]:
            if any(isinstance(e, dict) and e.get("f") == "in_loop" for e in s["lhs"]["p"]):
                t = sh(ne(cs.deep_rvalue(s["rv"])))
                if "Add" in t:
                    inc = b
                if "Sub" in t:
                    dec = b
    body = [c for c in cs.calls_to("resolver::Resolver::check_block") if inc is not None and cs.dominates(inc, c.block)]
    if inc is not None and dec is not None and body and any(dec in cs.reach_from_succ(c.block) for c in body) and not any(inc in cs.reach_from_succ(c.block) for c in body):
        ctx.ok("in_loop-paired", cs.where(inc), "in_loop += 1 before and -= 1 after the loop body")
    else:
        ctx.bad("in_loop-paired", cs.where(), "the loop depth is not incremented before and decremented after the loop body")


def r4_declared_type_follows_latest_declaration(ctx):
    """`make x get A ... make x get B` in one block: the type recorded for x must become B's."""
    cs = ctx.need("resolver::Resolver::check_stmt")
    fam = ctx.lib.family(cs.id)
    for g in fam:
        ctx.touch(g)
    ENTRY = "(&str, helpers::ValueType, "
    # (1) a new declaration pushes an entry whose type component is the initialiser's inferred type
    # (2) a redeclaration stores the initialiser's inferred type into component 1 of the existing entry
    # Both are looked for in check_stmt and its closures, so that `match`, `if let` and combinator spellings are all seen.
    stores, pushes = [], []
    for g in fam:
        for b in sorted(g.live):
            for st in g.blocks[b]["s"]:
                lp = st["lhs"]["p"]
                if lp and isinstance(lp[-1], dict) and str(lp[-1].get("f")) == "1" and str(lp[-1].get("of", "")).startswith(ENTRY):
                    stores.append((g, b, st))
                rv = st["rv"]
                if rv["k"] == "agg" and rv.get("adt") in (None, "", "(tuple)") or (rv["k"] == "agg" and "tuple" in str(rv.get("adt", ""))):
                    if len(rv.get("ops", [])) == 4:
                        pushes.append((g, b, st))

    def captured(g, idx):
        """The parent's expression captured as upvar #idx of closure g."""
        import re as _re
        m = _re.search(r"(\{closure#\d+\})$", g.id)
        par = ctx.lib.fns.get(g.id[:g.id.rindex("::{closure")])
        if not m or par is None:
            return None
        for b in sorted(par.live):
            for st in par.blocks[b]["s"]:
                rv = st["rv"]
                if rv["k"] == "agg" and str(rv.get("adt", "")).endswith(m.group(1)) and idx < len(rv.get("ops", [])):
                    return sh(ne(par.deep(rv["ops"][idx])))
        return None

    def from_inference(g, operand):
        import re as _re
        t = sh(ne(g.deep(operand)))
        m = _re.match(r"^\*?arg1\.(\d+)$", t)
        if m and "{closure" in g.id:
            t = captured(g, int(m.group(1))) or t
        return "infer_expr_type" in t or _re.search(r"(^|[.*&])var_type$", t) is not None
    typed_push = [(g, b, st) for g, b, st in pushes if from_inference(g, st["rv"]["ops"][1])]
    typed_store = [(g, b, st) for g, b, st in stores if st["rv"]["k"] == "use" and from_inference(g, st["rv"]["a"])]
    if typed_push:
        ctx.ok("declare|type-recorded", typed_push[0][0].where(typed_push[0][1]), "a new variable is recorded with the initialiser's type")
    else:
        ctx.bad("declare|type-recorded", cs.where(), "a new variable is not recorded with its initialiser's type")
    if not typed_store:
        ctx.bad("redeclare|type-refreshed", cs.where(), "on the redeclaration path (`make x` when x already exists in this block) the new static type is never stored into the existing entry: later uses of x are checked against the old type (valid programs rejected, invalid ones accepted)")
        return
    # where the lookup is a visible Option switch in the body, the store must sit on its Some side
    sw = None
    for S in sorted(cs.live):
        if cs.blocks[S]["t"]["k"] != "switch":
            continue
        si = cs.switch_info(S)
        if si["kind"] == "discr" and si["ty"].endswith("Option"):
            d = sh(ne(cs.deep(cs.blocks[S]["t"]["d"])))
            if ("rposition" in d or "position" in d or "find" in d) and "variable_scopes" in d:
                sw = (S, si)
                break
    g, b, st = typed_store[0]
    if sw is not None and g is cs:
        S, si = sw
        on_some = any(label_names(cs, S, [lab], si) == {"Some"} and cs.edge_dominated(b, S, [lab]) for lab, _ in cs.succ[S])
        if on_some:
            ctx.ok("redeclare|type-refreshed", cs.where(b), "a redeclaration in the same block stores the new initialiser's type (Some side of the scope lookup)")
        else:
            ctx.bad("redeclare|type-refreshed", cs.where(b), "the store of the new static type is not on the path where the name was found in the current scope")
    else:
        ctx.ok("redeclare|type-refreshed", g.where(b), "the existing entry's type component is overwritten with the initialiser's type (%s)" % g.id.split("::")[-1])


# A path on which a child is legitimately not visited, one named query each.
TRAVERSAL_SKIP_OK = {
    ("resolver::Resolver::check_function_body", "predeclared_function_id"):
        "a function definition that predeclare_block_functions did not register was rejected there (duplicate / reserved name): the program is already in error",
}


def r5_every_child_is_checked(ctx):
    """The checker visits every sub-expression of every node on every path (an early return that skips a child - whatever the
    reason - exempts everything inside that child from all static rules)."""
    from ..tables import entry_discr_switch
    n = [0]
    expr_variants = {v["name"]: v for v in ctx.lib.adt("syntax::parser::Expr")["variants"]}

    def child_kind(fty):
        opt = fty.startswith("std::option::Option<")
        inner = fty[len("std::option::Option<"):-1] if opt else fty
        if "ArgList" in inner or ("[&" in inner and "parser::Expr<" in inner):
            return "list", opt
        if inner.startswith("&") and "parser::Expr<" in inner:
            return "expr", opt
        if inner.startswith("&") and "parser::Block<" in inner:
            return "block", opt
        return None, opt

    _hv = {}

    def helper_visits(callee, lidx, visitors):
        """In the helper, the parameter in MIR local `lidx` reaches a visitor on every path (its None side excepted)."""
        if (callee, lidx) in _hv:
            return _hv[(callee, lidx)]
        h = ctx.lib.fns.get(callee)
        ok = False
        if h is not None and lidx < len(h.locals):
            ctx.touch(h)
            pname = h.locals[lidx]["name"] or "arg%d" % lidx
            via, removed_edges = set(), []
            for c in h.calls():
                short = (c.callee or "").split("::")[-1]
                if short in visitors and len(c.args) > 1:
                    t = [sh(ne(h.deep(a))) for a in c.args[1:]]
                    if pname in t or pname + "@Some.0" in t:
                        via.add(c.block)
            for S2 in sorted(h.live):
                if h.blocks[S2]["t"]["k"] == "switch":
                    si2 = h.switch_info(S2)
                    dtxt = sh(ne(h.deep(h.blocks[S2]["t"]["d"])))
                    if si2["kind"] == "discr" and dtxt == "discr(%s)" % pname:
                        for lab2, t2 in h.succ[S2]:
                            if label_names(h, S2, [lab2], si2) == {"None"}:
                                removed_edges.append((S2, lab2))
                    for (hfn, q), why in TRAVERSAL_SKIP_OK.items():
                        if callee == hfn and si2["kind"] == "discr" and dtxt.startswith("discr(%s(" % q):
                            for lab2, t2 in h.succ[S2]:
                                if label_names(h, S2, [lab2], si2) == {"None"}:
                                    removed_edges.append((S2, lab2))
                                    ctx.ok("traversal|exception|%s|%s" % (hfn.split("::")[-1], q), h.where(S2), "named exception: " + why)
            if via:
                r = h.reach([0], removed_nodes=via, removed_edges=removed_edges)
                ok = not (r & set(h.exits()))
        _hv[(callee, lidx)] = ok
        return ok

    def check_children(fn, fid, S, lab, tgt, owner_text, vname, v, visitors, param, depth):
        exits = set(fn.exits())
        arm_only = {b for b in fn.live if fn.edge_dominated(b, S, [lab])} | {tgt}
        outside = set(fn.live) - arm_only - exits
        for fname, fty, _vis in v["fields"]:
            kind, opt = child_kind(fty)
            if kind is None:
                continue
            base = "%s@%s.%s" % (owner_text, vname, fname)
            target_text = base + "@Some.0" if opt else base
            key = "traversal|%s|%s" % (fid.split("::")[-1], base.replace(param + "@", ""))
            n[0] += 1
            via, how = set(), None
            none_side = set()
            if opt:
                for S2 in sorted(arm_only):
                    if fn.blocks[S2]["t"]["k"] == "switch":
                        si2 = fn.switch_info(S2)
                        if si2["kind"] == "discr" and sh(ne(fn.deep(fn.blocks[S2]["t"]["d"]))) == "discr(%s)" % base:
                            for lab2, t2 in fn.succ[S2]:
                                if label_names(fn, S2, [lab2], si2) == {"None"}:
                                    none_side |= {b for b in arm_only if fn.edge_dominated(b, S2, [lab2])} | {("edge", S2, lab2)}
            for c in fn.calls():
                if c.block not in arm_only:
                    continue
                short = (c.callee or "").split("::")[-1]
                if short in visitors and len(c.args) > 1 and kind != "list":
                    if sh(ne(fn.deep(c.args[1]))) == target_text and short in ("check_expr", "check_boolean_expr", "check_block"):
                        via.add(c.block)
                        how = short
                    elif short not in ("check_expr", "check_boolean_expr", "check_block"):
                        # a helper that is handed the child (whole, or its Some payload) answers for it
                        for k, a in enumerate(c.args[1:]):
                            if sh(ne(fn.deep(a))) in (target_text, base) and helper_visits(c.callee, k + 2, visitors):
                                via.add(c.block)
                                how = short
                if kind == "list" and short == "next":
                    t = sh(ne(fn.deep(c.args[0])))
                    if ("(%s" % base) in t:
                        body_ok = any((c2.callee or "").split("::")[-1] in visitors and len(c2.args) > 1 and base in sh(ne(fn.deep(c2.args[1]))) and "next(" in sh(ne(fn.deep(c2.args[1]))) and c2.block in fn.reach_from_succ(c.block) and c.block in fn.reach_from_succ(c2.block) for c2 in fn.calls())
                        if body_ok:
                            via.add(c.block)
                            how = "loop"
                # a helper that takes the whole node is responsible for its children
                if short in visitors and short not in ("check_expr", "check_boolean_expr", "check_block") and any(sh(ne(fn.deep(a))) == owner_text for a in c.args[1:]):
                    via.add(c.block)
                    how = how or short
            removed_edges = [(x[1], x[2]) for x in none_side if isinstance(x, tuple)]
            if via:
                r2 = fn.reach([tgt], removed_nodes=via | outside, removed_edges=removed_edges)
                if not (r2 & exits):
                    ctx.ok(key, fn.where(sorted(via)[0]), "visited on every path through the arm (%s%s)" % (how, ", when present" if opt else ""))
                    continue
            # destructured in place: a switch on the child's own kind inside the arm; every nested kind then answers for itself
            nested = None
            if kind == "expr" and depth < 2:
                for S2 in sorted(arm_only):
                    if fn.blocks[S2]["t"]["k"] == "switch":
                        si2 = fn.switch_info(S2)
                        if si2["kind"] == "discr" and "parser::Expr" in si2["ty"] and sh(ne(fn.deep(fn.blocks[S2]["t"]["d"]))) == "discr(%s)" % target_text:
                            nested = (S2, si2)
                            break
            if nested is not None:
                S2, si2 = nested
                n[0] -= 1
                for lab2, t2 in fn.succ[S2]:
                    names = label_names(fn, S2, [lab2], si2)
                    region2 = {b for b in fn.live if fn.edge_dominated(b, S2, [lab2])} | {t2}
                    direct = {c.block for c in fn.calls() if c.block in region2 and (c.callee or "").split("::")[-1] in visitors and len(c.args) > 1 and sh(ne(fn.deep(c.args[1]))) == target_text}
                    if direct:
                        r3 = fn.reach([t2], removed_nodes=direct | (set(fn.live) - region2 - exits))
                        n[0] += 1
                        if r3 & exits:
                            ctx.bad("%s|%s|skippable" % (key, "/".join(sorted(names))[:30]), fn.where(sorted(direct)[0]), "a %s whose `%s` is a %s node can reach the end of %s without that node being checked" % (vname, fname, "/".join(sorted(names))[:40], fid.split("::")[-1]))
                        else:
                            ctx.ok("%s|%s" % (key, "/".join(sorted(names))[:30]), fn.where(sorted(direct)[0]), "checked as a whole")
                        continue
                    for nv in sorted(names):
                        vv = expr_variants.get(nv)
                        if vv is not None and any(child_kind(f[1])[0] for f in vv["fields"]):
                            if len(names) == 1:
                                check_children(fn, fid, S2, lab2, t2, target_text, nv, vv, visitors, param, depth + 1)
                            else:
                                n[0] += 1
                                ctx.bad("%s|%s|unvisited" % (key, nv), fn.where(t2), "a %s whose `%s` is a %s node is accepted without looking inside that node" % (vname, fname, nv))
                continue
            if not via:
                ctx.bad(key + "|never", fn.where(tgt), "the `%s` of a %s node is never handed to the checker: nothing inside it is subject to the static rules" % (fname, vname))
            else:
                ctx.bad(key + "|skippable", fn.where(sorted(via)[0]), "in the %s arm of %s there is a path to the end of the function that does not visit `%s`: on that path an undeclared name, a wrong argument count or a type error inside it is accepted" % (vname, fid.split("::")[-1], fname))

    for fid, adt, pidx, visitors in ((CE, "syntax::parser::Expr", 2, ("check_expr", "check_boolean_expr")),
                                     ("resolver::Resolver::check_stmt", "syntax::parser::Stmt", 2, ("check_expr", "check_boolean_expr", "check_block", "check_function_body", "check_return_stmt", "check_assign_index"))):
        fn = ctx.need(fid)
        ctx.touch(fn)
        S, si = entry_discr_switch(fn, pidx)
        if S is None:
            ctx.bad("traversal|%s|no-dispatch" % fid.split("::")[-1], fn.where(), "%s does not dispatch on the node kind" % fid.split("::")[-1])
            continue
        param = fn.locals[pidx]["name"] or "arg%d" % pidx
        variants = {v["name"]: v for v in ctx.lib.adt(adt)["variants"]}
        for lab, tgt in fn.succ[S]:
            names = label_names(fn, S, [lab], si)
            for vname in sorted(names):
                v = variants.get(vname)
                if v is None:
                    continue
                if len(names) > 1 and any(child_kind(f[1])[0] for f in v["fields"]):
                    n[0] += 1
                    ctx.bad("traversal|%s|%s|shared-arm" % (fid.split("::")[-1], vname), fn.where(tgt), "%s nodes share an arm with other kinds: their children are not visited" % vname)
                    continue
                check_children(fn, fid, S, lab, tgt, param, vname, v, visitors, param, 0)
    ctx.floor("child fields of expression/statement nodes", n[0], 18)
    # the fact the named exception rests on: a function definition that is not registered has been reported
    pb = ctx.need("resolver::Resolver::predeclare_block_functions")
    ctx.touch(pb)
    reg = {c.block for c in pb.calls() if (c.callee or "").endswith("ProgramFacts::push_function")}
    err = {c.block for c in pb.calls() if c.callee == EMIT}
    arm = None
    for S2 in sorted(pb.live):
        if pb.blocks[S2]["t"]["k"] == "switch":
            si2 = pb.switch_info(S2)
            if si2["kind"] == "discr" and "parser::Stmt" in si2["ty"]:
                for lab2, t2 in pb.succ[S2]:
                    if label_names(pb, S2, [lab2], si2) == {"FunctionDef"}:
                        arm = (S2, lab2, t2)
    heads = {c.block for c in pb.calls() if (c.callee or "").split("::")[-1] == "next" and arm is not None and pb.dominates(c.block, arm[0])}
    if arm is None or not reg:
        ctx.bad("predeclare|shape", pb.where(), "cannot see the FunctionDef arm / the registration in predeclare_block_functions")
    else:
        r = pb.reach([arm[2]], removed_nodes=reg | err)
        if r & (heads | set(pb.exits())):
            ctx.bad("predeclare|silent-skip", pb.where(arm[2]), "predeclare_block_functions can skip the registration of a function definition without reporting an error: check_function_body then returns early and the body of that function is never checked")
        else:
            ctx.ok("predeclare|skip-implies-error", pb.where(arm[2]), "every path that does not register a function definition passes an emit_error")


def r6_scope_of_a_declaration(ctx):
    """'Use of an undeclared name is rejected' includes the initialiser of the declaration itself (shared with C04-R4c)."""
    from .c04 import r4c_initialiser_sees_the_old_scope
    r4c_initialiser_sees_the_old_scope(ctx)


def r7_fixpoints_run_to_the_end(ctx):
    """Return types of functions that call each other are inferred by iterating until nothing changes.  The "changed" flag of
    such a loop is sticky within a round: it is reset once, raised by constant assignments, and never overwritten with a
    computed value (which would let the last element of a round decide whether the iteration continues).  Checked for every
    fixpoint flag in the resolver."""
    from ..flow import fixpoint_flags
    n = 0
    for fn in [f for f in ctx.lib.fns.values() if f.file == "src/resolver.rs"]:
        for l, info in fixpoint_flags(fn):
            n += 1
            ctx.touch(fn)
            name = fn.locals[l]["name"] or "_%d" % l
            computed = [(b, k) for (b, k, c, v) in info if not c]
            short = parent_fn(fn.id).split("::")[-1]
            if computed:
                ctx.bad("fixpoint-flag|%s|overwritten" % short, fn.where(computed[0][0]), "the fixpoint flag `%s` of %s is assigned a computed value inside the loop: a later element that did not change resets what an earlier one raised, so the iteration stops before the inferred types are stable (a function whose type depends on a chain of later-defined functions stays `dynamic`, and uses that contradict its real type are accepted)" % (name, short))
            else:
                ctx.ok("fixpoint-flag|%s|sticky" % short, fn.where(info[0][0]), "`%s` is only reset to false and raised to true" % name)
    ctx.floor("fixpoint flags in the resolver", n, 1)


def r8_static_tables_are_the_documented_ones(ctx):
    """The checker types method calls from the built-ins' name / arity / return-type tables: a wrong entry rejects valid
    programs and accepts invalid ones (shared with C01-R5, which compares the tables with the documented signatures)."""
    from .c01 import r5_builtin_tables
    r5_builtin_tables(ctx)


def r9_return_types_are_inferred_in_the_function_s_own_scope(ctx):
    """A call is typed with the callee's inferred return type, which is computed ahead of the body, when the enclosing block is
    entered.  Two things must hold for that type to be the type of what the function returns:
    (a) names that belong to the function - its parameters and the variables it declares - are not looked up in the scopes
        that happen to be open at that moment (`make x get "s"` outside, `do f(x) start return x end` inside: f(5) is a number);
        the pre-inference is preceded by something that makes the function's parameter list known to the resolver;
    (b) a function that can fall off its end returns null on that path: unless every path ends in `return`, Null takes part in
        the inferred type (otherwise `make r get f(false)  r minus 1` is accepted and the runtime meets a null it was promised
        could not occur)."""
    pre = ctx.need("resolver::Resolver::predeclare_block_functions")
    ctx.touch(pre)
    infs = [c for c in pre.calls() if (c.callee or "").endswith("Resolver::infer_function_return_type")]
    if not infs:
        ctx.note("predeclare_block_functions no longer pre-infers return types: clause (a) has nothing to check")
    for c in infs:
        # anything before the call, inside the same loop iteration, that hands the parameter list to the resolver:
        # a call taking `<pending>.params` (or the pending definition itself besides `.body`) with &mut self, or a store of it
        handed = False
        from .c03 import common_loop_head
        for c2 in pre.calls():
            if c2 is c or not pre.dominates(c2.block, c.block):
                continue
            if not common_loop_head(pre, c2.block, c.block):
                continue        # the registration loop in front also sees the parameters; it runs before, not per inference
            args = [sh(ne(pre.deep(a))) for a in c2.args]
            if any(re.search(r"\.params\b|param_names", a) for a in args) and "self" in args:
                handed = True
        # the inference routine itself may take the parameters
        if len(c.args) > 2 or any(re.search(r"\.params\b", sh(ne(pre.deep(a)))) for a in c.args[1:]):
            handed = True
        if handed:
            ctx.ok("return-type|own-names-known", pre.where(c.block), "the function's parameter list reaches the resolver before its return type is pre-inferred")
        else:
            ctx.bad("return-type|own-names-looked-up-outside", pre.where(c.block), "the return type of a function is pre-inferred from its body while nothing tells the resolver which names are the function's own: `return x` is typed with whatever variable x is visible where the function is *defined*, so a parameter or local that shadows an outer variable of another type gives the function the wrong return type and valid calls are rejected (`make x get \"hello\"  start do f(x) start return x end  shout(f(5) minus 1) end`)")
    inf = ctx.need("resolver::Resolver::infer_function_return_type")
    ctx.touch(inf)
    fam = [inf] + list(ctx.lib.closures_of(inf.id))
    # (b) a predicate over the body that says "every path returns", and Null joining the types when it does not
    preds = []
    for g in fam:
        for c in g.calls():
            cal = c.callee or ""
            f2 = ctx.lib.fns.get(cal)
            if f2 is not None and f2.locals and f2.locals[0]["ty"] == "bool" and any("Block" in l["ty"] for l in f2.locals[1:f2.argc + 1]):
                preds.append(c)
    nulls = [st for g in fam for b in sorted(g.live) for st in g.blocks[b]["s"] if st["rv"]["k"] == "agg" and str(st["rv"].get("adt", "")).endswith("ValueType") and st["rv"].get("variant") == "Null"]
    # (c) the inferred type is the common type of *all* returns, else dynamic
    fam_calls = [(g, c) for g in fam for c in g.calls()]
    alls = [c for g, c in fam_calls if (c.callee or "").split("::")[-1] == "all"]
    weaker = [c for g, c in fam_calls if (c.callee or "").split("::")[-1] in ("any", "contains", "find", "position")]
    # the same test spelled from the other side: `any(|t| t != first)` with Dynamic on its true outcome is `all(|t| t == first)`
    # with Dynamic on its false outcome.  Decided from the quantifier, the polarity of its closure and the outcome that
    # builds Dynamic.
    def _polarity(c):
        e = inf.deep(c.args[1]) if len(c.args) > 1 else None
        m = re.search(r"(\{closure#\d+\})", str(e[1])) if isinstance(e, tuple) and e[0] == "agg" else None
        clo = next((g for g in fam if m and g.id.endswith(m.group(1))), None)
        if clo is None:
            return None
        cc = [x for x in clo.calls() if (x.callee or "").split("::")[-1] in ("eq", "ne")]
        if len(cc) != 1 or len(list(clo.calls())) != 1 or any(clo.blocks[b]["t"]["k"] == "switch" for b in clo.live):
            return None
        pol = (cc[0].callee or "").split("::")[-1]
        if cc[0].dest["l"] != 0:
            # negated once before it is returned
            nots = [st for b in sorted(clo.live) for st in clo.blocks[b]["s"] if st["lhs"]["l"] == 0 and st["rv"]["k"] == "un" and st["rv"].get("op") == "Not"]
            if len(nots) != 1:
                return None
            pol = "ne" if pol == "eq" else "eq"
        return pol
    dyn_true = None
    for b in sorted(inf.live):
        for st in inf.blocks[b]["s"]:
            if st["rv"]["k"] == "agg" and st["rv"].get("variant") == "Dynamic" and st["lhs"]["l"] == 0:
                for S, al in inf.constraints(b):
                    d = sh(ne(inf.deep(inf.blocks[S]["t"]["d"])))
                    if d.startswith("any(") or d.startswith("all("):
                        dyn_true = 0 not in al
    quant = [c for g, c in fam_calls if g is inf and (c.callee or "").split("::")[-1] in ("all", "any")]
    sound = False
    if len(quant) == 1 and len(alls) + len(weaker) == 1 and dyn_true is not None:
        q, pol = (quant[0].callee or "").split("::")[-1], _polarity(quant[0])
        sound = (q == "all" and pol == "eq" and dyn_true is False) or (q == "any" and pol == "ne" and dyn_true is True)
    if sound:
        ctx.ok("return-type|all-agree", inf.where(quant[0].block), "a concrete type only when all return types agree (%s over `%s`, dynamic on its %s outcome)" % ((quant[0].callee or "").split("::")[-1], _polarity(quant[0]), "true" if dyn_true else "false"))
    elif alls and not weaker:
        ctx.ok("return-type|all-agree", inf.where(alls[0].block), "a concrete type only when all return types agree")
    else:
        ctx.bad("return-type|not-all-agree|%s" % (weaker[0].callee.split("::")[-1] if weaker else "none"), inf.where((weaker or alls or [None])[0].block if (weaker or alls) else None), "the inferred return type is the first return's type as soon as %s return agrees with it, not when all do: a function that returns a number on one path and a string on another is typed by its first `return`, and uses that are right for the other type are rejected (`describe(5).len()`)" % ("some" if weaker else "no test says every"))
    if preds and len(nulls) >= 1:
        ctx.ok("return-type|implicit-null", inf.where(preds[0].block), "%s decides whether the body can fall off its end; Null joins the inferred type when it can" % preds[0].callee.split("::")[-1])
    else:
        ctx.bad("return-type|implicit-null-ignored", inf.where(), "the inferred return type is built from the explicit `return` statements only: a function with `return 1` on one path and no return on another is typed number although it returns null there, so arithmetic on its result is accepted and the runtime panics on the null (`do f(a) start if to say (a) start return 1 end end  make r get f(false)  shout(r minus 1)`)")


def r10_static_types_stay_true_under_assignment(ctx):
    """The checker types every later use of a variable with the type recorded for it.  `x get e` can store a value of another
    type, so the statement has to do one of two things with the type of e: reject the assignment, or stop trusting the
    recorded type (make the variable dynamic).  If it does neither, the documented `make foo` / `foo get 5` leaves foo typed
    null for good - `foo add 1` is rejected - and `make x get "abc"  x get 5` leaves x a string, on which the effect
    classifier bases 'cannot trap'."""
    arm = arm_region(ctx, "resolver::Resolver::check_stmt", "AssignExisting")
    if arm is None:
        ctx.bad("assign-type|anchor", "src/resolver.rs", "cannot find the AssignExisting arm of check_stmt")
        return
    fn, blocks = arm
    ctx.touch(fn)
    infers = [c for c in fn.calls() if c.block in blocks and (c.callee or "").endswith("Resolver::infer_expr_type")]
    reacts = []
    for c in fn.calls():
        if c.block not in blocks:
            continue
        cal = c.callee or ""
        g = ctx.lib.fns.get(cal)
        if cal.endswith("Resolver::emit_error"):
            reacts.append(("reject", c))
        elif g is not None and g.file == "src/resolver.rs" and writes_value_type(ctx, g):
            reacts.append(("widen", c))
    inline = [b for b in blocks for st in fn.blocks[b]["s"] if st["lhs"]["p"] and ((st["rv"]["k"] == "agg" and str(st["rv"].get("adt", "")).endswith("ValueType")) or ("ValueType" in fn.locals[st["lhs"]["l"]]["ty"] and "mut" in fn.locals[st["lhs"]["l"]]["ty"]))]
    guarded = [r for r in reacts if any(fn.dominates(i.block, r[1].block) for i in infers)] + ([("widen-inline", None)] if inline and infers else [])
    kinds = {k for k, _c in guarded if k != "reject"} | ({"reject"} if any(k == "reject" and "TypeMismatch" in sh(ne(fn.deep(c.args[2]))) for k, c in guarded if c is not None) else set())
    if kinds:
        ctx.ok("assign-type|%s" % "+".join(sorted(kinds)), fn.where(min(blocks)), "the type of the assigned expression is inferred and the variable's recorded type %s" % ("is widened when it differs" if "reject" not in kinds else "is enforced"))
    else:
        ctx.bad("assign-type|neither-checked-nor-widened", fn.where(min(blocks)), "an assignment to an existing variable neither compares the type of the assigned expression with the variable's recorded type nor updates that type: after `make foo` (typed null) `foo get 5` the checker still rejects `foo add 1`, and after `make x get \"abc\"  x get 5` it still believes `x.len()` cannot trap")


def arm_region(ctx, fid, variant):
    """Blocks of the match arm of `fid` taken for statement kind `variant` (edge-dominated by that outcome of the dispatch)."""
    fn = ctx.lib.fns.get(fid)
    if fn is None:
        return None
    for S in sorted(fn.live):
        if fn.blocks[S]["t"]["k"] != "switch":
            continue
        si = fn.switch_info(S)
        if si["kind"] == "discr" and si["ty"].endswith("parser::Stmt"):
            for lab, tgt in fn.succ[S]:
                if label_names(fn, S, [lab], si) == {variant}:
                    region = {x for x in fn.reach([tgt], removed_nodes=[S]) if fn.edge_dominated(x, S, [lab])} | {tgt}
                    return fn, region
    return None


def writes_value_type(ctx, g, depth=0):
    """Does body g (or a closure of it) store a ValueType through a projection (an entry of the scope tables)?"""
    for h in [g] + list(ctx.lib.closures_of(g.id)):
        for b in sorted(h.live):
            for st in h.blocks[b]["s"]:
                if st["lhs"]["p"] and st["rv"]["k"] == "agg" and str(st["rv"].get("adt", "")).endswith("ValueType"):
                    return True
                if st["lhs"]["p"] and "ValueType" in h.locals[st["lhs"]["l"]]["ty"] and "mut" in h.locals[st["lhs"]["l"]]["ty"]:
                    return True     # `*slot_type = <ValueType>` through a &mut ValueType
    return False


def r11_always_returns_is_a_must_analysis(ctx):
    """The implicit null of C09-R9(b) is left out only when *every* path through the body ends in `return`.  The routine that
    says so has to be a must-analysis, kind by kind: `return` yes; an `if` only when both branches do, and an `if` without an
    else never; a loop never (its body may not run); a nested block what its statements say; every other statement no; and a
    sequence when some statement of it does.  With `no else` counted as returning, `if (c) start return "text" end` types the
    function as a string, and a caller that treats the missing value as falsy (`not f(x)`) is rejected although it is valid."""
    from ..tables import mir_enum_table
    from .c02 import _dispatch_arm
    f = ctx.lib.fns.get("resolver::Resolver::collect_return_types_from_stmt")
    if f is None:
        ctx.bad("always-returns|anchor", "", "collect_return_types_from_stmt not found")
        return
    ctx.touch(f)
    tab = mir_enum_table(f, 2) or {}
    want_false = {"FunctionDef", "Assign", "AssignExisting", "AssignIndex", "Loop", "Break", "Continue", "Expression"}
    for kind in sorted(tab):
        # `?unreachable` is the evaluator's mark for the impossible `otherwise` edge of an exhaustive match: not an outcome
        vals = [str(x) for x in tab[kind] if not str(x).startswith("?")]
        key = "always-returns|%s" % kind
        if kind in want_false:
            if vals == ["false"]:
                ctx.ok(key, f.where(), "never counts as returning")
            else:
                ctx.bad(key + "|" + ",".join(vals)[:30], f.where(), "a %s statement is taken to return on every path (%s): the implicit null of falling off the end is dropped from the inferred return type" % (kind, vals))
        elif kind == "Return":
            if vals == ["true"]:
                ctx.ok(key, f.where(), "returns")
            else:
                ctx.bad(key + "|" + ",".join(vals)[:30], f.where(), "`return` does not count as returning (%s): every function is typed as possibly null" % vals)
        elif kind == "Block":
            if len(vals) == 1 and vals[0].startswith("call:collect_return_types"):
                ctx.ok(key, f.where(), "what the block's statements say")
            else:
                ctx.bad(key + "|" + ",".join(vals)[:30], f.where(), "a nested block's verdict is %s, not that of its statements" % vals)
        elif kind == "If":
            arm = _dispatch_arm(f, "parser::Stmt", "If") or set()
            calls = [c for c in f.calls() if c.block in arm]
            optimistic = [c for c in calls if (c.callee or "").split("::")[-1] in ("is_none_or", "unwrap_or_default") or ((c.callee or "").split("::")[-1] in ("map_or", "unwrap_or") and len(c.args) > 1 and c.args[1].get("const") in ("true", True))]
            missing_else_false = any((c.callee or "").split("::")[-1] == "is_some_and" or ((c.callee or "").split("::")[-1] in ("map_or", "unwrap_or") and len(c.args) > 1 and str(c.args[1].get("const")) == "false") for c in calls) or "false" in vals
            both = sum(1 for c in calls if (c.callee or "").endswith("Resolver::collect_return_types")) + sum(1 for g in ctx.lib.closures_of(f.id) for c in g.calls() if (c.callee or "").endswith("Resolver::collect_return_types"))
            if optimistic or not missing_else_false:
                ctx.bad(key + "|missing-else-returns", f.where(), "an `if` without an else is taken to return whenever its then-branch does (%s): a function whose only returns sit in else-less ifs loses the null of falling off its end, so `not f(x)` on its result is rejected (and `f(x) minus 1` accepted)" % sorted({(c.callee or "").split("::")[-1] for c in optimistic} or {"no false default"}))
            elif both >= 2 and "true" not in vals:
                ctx.ok(key, f.where(), "both branches, a missing else is false")
            else:
                ctx.bad(key + "|shape|" + ",".join(vals)[:30], f.where(), "the verdict for an `if` does not combine both branches (%s)" % vals)
    missing = (want_false | {"Return", "Block", "If"}) - set(tab)
    if missing:
        ctx.bad("always-returns|kinds-missing|%s" % ",".join(sorted(missing)), f.where(), "no verdict for %s" % sorted(missing))
    g = ctx.need("resolver::Resolver::collect_return_types")
    ctx.touch(g)
    ors = [st for b in g.live for st in g.blocks[b]["s"] if st["rv"]["k"] == "bin" and st["rv"]["op"] in ("BitOr", "BitAnd")]
    inits = [str(st["rv"]["a"].get("const")) for b in g.live for st in g.blocks[b]["s"] if st["rv"]["k"] == "use" and isinstance(st["rv"]["a"], dict) and "const" in st["rv"]["a"] and g.locals[st["lhs"]["l"]]["ty"] == "bool" and not st["lhs"]["p"]]
    if ors and all(st["rv"]["op"] == "BitOr" for st in ors) and "true" not in inits:
        ctx.ok("always-returns|sequence", g.where(), "a sequence returns when some statement of it does; starts from false")
    else:
        ctx.bad("always-returns|sequence|%s" % ",".join(sorted({st["rv"]["op"] for st in ors}) or ["none"]), g.where(), "the verdict for a sequence of statements is not `some statement always returns, starting from false` (%s, initial %s)" % ([st["rv"]["op"] for st in ors], inits))


def r12_static_scope_searches_go_innermost_first(ctx):
    """Shared with C04-R11: a checker routine that walks the variable scopes outermost-first (type widening after `x get ..`)
    touches the shadowed outer variable; the visible inner one keeps its stale type and a valid use of the new type is
    rejected."""
    from .c04 import r11_static_scope_searches_go_innermost_first
    r11_static_scope_searches_go_innermost_first(ctx)


def r13_placeholder_names_use_the_identifier_alphabet(ctx):
    """A `{name}` placeholder is a variable use and is checked like one - if the parser recognises it.  The parser reads the
    name with byte tests of its own; they have to accept what the scanner accepts in an identifier (a letter or underscore
    first, then letters, digits, underscores), or a placeholder such as `{row2}` falls through to literal text: an undeclared
    name inside it is never diagnosed, and a declared one is printed as `{row2}`."""
    fn = ctx.lib.fns.get("syntax::parser::Parser::parse_template_segments")
    if fn is None:
        ctx.bad("placeholder|anchor", "", "parse_template_segments not found")
        return
    ctx.touch(fn)
    bodies = [fn] + list(ctx.lib.closures_of(fn.id))
    first, rest = set(), set()
    seen_tests = []
    for b in bodies:
        for c in b.calls():
            short = (c.callee or "").split("::")[-1]
            if short in ("is_ascii_alphabetic", "is_ascii_alphanumeric", "is_ascii_digit"):
                seen_tests.append((b, c, short))
    # the first-character test comes first in the text, the continuation test is the one inside the scanning loop
    seen_tests.sort(key=lambda t: (t[0].blocks[t[1].block]["at"]["line"]))
    if len(seen_tests) < 2:
        ctx.bad("placeholder|tests|%d" % len(seen_tests), fn.where(), "expected a first-character test and a continuation test for placeholder names, found %d" % len(seen_tests))
        return
    cont = seen_tests[1:]
    classes = set()
    for b, c, short in cont:
        classes |= {"alpha", "digit"} if short == "is_ascii_alphanumeric" else ({"alpha"} if short == "is_ascii_alphabetic" else {"digit"})
    under = any(st["rv"]["k"] == "bin" and st["rv"]["op"] in ("Eq", "Ne") and 95 in ((st["rv"]["a"].get("int") if isinstance(st["rv"]["a"], dict) else None), (st["rv"]["b"].get("int") if isinstance(st["rv"]["b"], dict) else None)) for b in bodies for blk in b.live for st in b.blocks[blk]["s"]) or any(b.blocks[S]["t"]["k"] == "switch" and b.switch_info(S)["kind"] == "bin" and 95 in ((b.switch_info(S)["a"].get("int") if isinstance(b.switch_info(S)["a"], dict) else None), (b.switch_info(S)["b"].get("int") if isinstance(b.switch_info(S)["b"], dict) else None)) for b in bodies for S in b.live)
    if under:
        classes.add("underscore")
    missing = {"alpha", "digit", "underscore"} - classes
    if not missing:
        ctx.ok("placeholder|continuation-alphabet", fn.where(cont[0][1].block) if cont[0][0] is fn else fn.where(), "letters, digits and underscore continue a placeholder name")
    else:
        ctx.bad("placeholder|continuation-alphabet|%s-missing" % "+".join(sorted(missing)), fn.where(), "a placeholder name stops at a %s although the scanner accepts it in an identifier: `{row2}` is taken for literal text, so the variable use inside it is neither resolved nor checked" % "/".join(sorted(missing)))


def r14_every_keyword_is_reserved(ctx):
    """`Reserved ... name used as a name` is diagnosed under its own category only for the tokens Token::is_reserved_keyword
    answers true for.  The table must contain every keyword of the language (the single-word keywords of
    reference/language.json and the multi-word ones): a keyword that is missing is still refused as a name - the parser finds
    no identifier - but under the category of a syntax error, not of the broken rule."""
    from ..tables import mir_enum_table
    import json
    import os
    ref = json.load(open(os.path.join(os.path.dirname(os.path.dirname(os.path.dirname(os.path.abspath(__file__)))), "reference", "language.json")))
    fn = ctx.lib.fns.get("syntax::token::Token::is_reserved_keyword")
    if fn is None:
        ctx.bad("reserved|anchor", "", "Token::is_reserved_keyword not found")
        return
    ctx.touch(fn)
    tab = mir_enum_table(fn, 1) or {}
    want = set(ref["keywords"].values()) | {"SmallPass", "IfToSay", "IfNotSo"}
    for v in sorted(want):
        vals = [str(x) for x in tab.get(v, ["?"])]
        if vals == ["true"]:
            ctx.ok("reserved|%s" % v, fn.where(), "reserved")
        else:
            ctx.bad("reserved|%s|not-reserved" % v, fn.where(), "the keyword token %s is not in the reserved-word table: `make %s get 5` is refused as a syntax error (missing identifier) instead of `use of reserved keyword`" % (v, v.lower()))
    extra = sorted(v for v, r in tab.items() if [str(x) for x in r] == ["true"] and v not in want)
    if extra:
        ctx.bad("reserved|extra|%s" % ",".join(extra), fn.where(), "tokens %s are reserved although they are not keywords" % extra)


def r15_method_argument_checks_look_at_the_argument_they_name(ctx):
    """Where the checker tests the static type of a method's argument, it tests the argument the runtime is strict about: the
    *name* of `env(name, value)` (position 0; the value is converted with to_string and may be anything), the path of `cwd`,
    the separator of `join`, the duration of `timeout_ms` - all position 0.  Both arguments are expressions, so testing the
    other one type-checks, rejects `c.env("RETRIES", 3)` and accepts `c.env(404, "x")`."""
    fn = ctx.need("resolver::Resolver::check_expr")
    ctx.touch(fn)
    n = 0
    for c in fn.calls():
        short = (c.callee or "").split("::")[-1]
        if short not in ("expect_member_string_arg", "expect_member_number_arg", "expect_member_timeout_arg") and not short.startswith("expect_member_"):
            continue
        argtxt = [sh(ne(fn.deep(a, 10))).replace(" ", "") for a in c.args]
        idx = None
        for t in argtxt:
            m = re.search(r"\.args\[(\d+)\]|index\([^)]*\.args[^,]*,(\d+)\)", t)
            if m:
                idx = int(m.group(1) or m.group(2))
        if idx is None:
            continue
        n += 1
        ordn = sum(1 for r in ctx.records if r["rule"] == ctx.rule and r["instance"].startswith("member-arg-check#"))
        if idx == 0:
            ctx.ok("member-arg-check#%d" % (ordn + 1), fn.where(c.block), "%s looks at argument 0" % short)
        else:
            ctx.bad("member-arg-check|%s|argument-%d" % (short, idx), fn.where(c.block), "%s is applied to argument %d of a method call; the argument the runtime is strict about is argument 0 (for `env`: the name - the value may be of any type): well-formed calls are rejected and ill-formed ones accepted" % (short, idx))
    ctx.floor("static type tests of method arguments", n, 3)


RULES = [("C09-R1", r1a_typing_tables), ("C09-R1b", r1b_accepted_is_evaluable), ("C09-R1c", r1c_inferred_types), ("C09-R1d", r1d_inferred_type_is_sound), ("C09-R2", r2_rule_presence), ("C09-R3", r3_context_per_function), ("C09-R4", r4_declared_type_follows_latest_declaration), ("C09-R5", r5_every_child_is_checked), ("C09-R6", r6_scope_of_a_declaration), ("C09-R7", r7_fixpoints_run_to_the_end), ("C09-R8", r8_static_tables_are_the_documented_ones), ("C09-R9", r9_return_types_are_inferred_in_the_function_s_own_scope), ("C09-R10", r10_static_types_stay_true_under_assignment), ("C09-R11", r11_always_returns_is_a_must_analysis), ("C09-R12", r12_static_scope_searches_go_innermost_first), ("C09-R13", r13_placeholder_names_use_the_identifier_alphabet), ("C09-R14", r14_every_keyword_is_reserved), ("C09-R15", r15_method_argument_checks_look_at_the_argument_they_name)]

EXPLANATION = (
    "R1: the accept/reject arms of check_expr are evaluated arm-by-arm (first-match semantics over name-resolved HIR patterns) "
    "for every binary operator over the full 8x8 domain of static operand types and compared cell by cell with the documented "
    "rules written as predicates; the single-operand rules (not, unary minus, index base/index, conditions, method/command "
    "argument types) are read off the constraints of their emit_error sites and compared with the documented accept sets. "
    "R1b: every cell accepted on fully static types must be evaluable by the runtime, whose capability table is obtained by "
    "finite-domain partial evaluation of eval_expr's decision tree (discriminants fixed, all other branches forked); method "
    "arguments on which a runtime arm panics must be type-tested by the checker. R2: a 16-row table of documented rules, each "
    "needing an emit_error of the right category guarded by the right condition on the node kind it governs, with Error "
    "severity. R3: loop/function context is saved, reset and restored per function body and paired around loop bodies. "
    "Decides the finite core of the typing judgement and the presence/condition of each rule; does not decide the iff over "
    "all programs (the inferred types feeding the tables are themselves computed by infer_expr_type, which is not evaluated)."
)
EXPLANATION += (
    " Added after seeded changes were missed: R2 a rule living in a helper that takes the node as a parameter applies to every kind of node (no kind is exempted on the way to its emit_error), and every statement kind with a condition hands it to check_boolean_expr unconditionally; R4 a redeclaration stores the initialiser's type into the existing scope entry and a new declaration pushes it (found in check_stmt and its closures, whatever the spelling); R5 traversal completeness - in check_expr and check_stmt every child field of every node kind (expressions, argument/element lists, blocks, optional ones on their Some side, callee expressions destructured in place) is handed to a visitor on every path through its arm, directly, through the loop over the list, or through a helper that itself visits its parameter on every path; the one named exception (a function definition that predeclaration did not register) rests on the checked fact that every non-registering path of predeclare_block_functions passes an emit_error."
)
EXPLANATION += (
    " R1c: the result-type table of infer_expr_type (640 cells, finite-domain partial evaluation) is single-valued and symmetric in its operands. R6 (= C04-R4c): the initialiser of a declaration is checked before the variable is declared."
)
EXPLANATION += (
    " R1d: the inferred type of every operator cell the checker accepts is defined and is either dynamic or contains every kind the run-time routine can yield for operands of those static types (both tables read out of the code by partial evaluation; two genuine defects, D27/D28, were found and repaired). R7: every fixpoint flag in the resolver (return-type inference of mutually calling functions) is reset once per round and only raised with a constant. R8 (= C01-R5): the built-ins' name / arity / return-type tables the checker types method calls from equal the documented signatures."
)
EXPLANATION += (
    " R9: a function's return type is pre-inferred (a) only after its parameter list has reached the resolver inside the inference loop, so that its own names are not looked up among the outer variables, and (b) with Null joining the type unless a predicate over the body says every path returns. R10: the AssignExisting arm infers the type of the assigned expression and either rejects a mismatch or widens the variable's recorded type (a store of a ValueType into the scope table, inline or through a helper). Four genuine defects (D32-D34, and D31 in the scanner) were found through these and repaired."
)
ASSUMPTIONS = ["the reference predicates in rules/c09.py state the documented typing rules (docs/*.md plus the rule comments in resolver.rs)", "infer_expr_type yields the operand's static type"]
TRUSTED = ["rustc nightly HIR name resolution and MIR", "nsx exporter", "nsverif pattern evaluator / partial evaluator"]
NONTRIVIAL = "one obligation per typing cell (640), per accepted concrete cell, per single-operand rule and per rule-presence row; distinct = distinct cell/row"
EXPLANATION += (
    ' Round 6: R11 `always returns` is a must-analysis, kind by kind (return yes; if only with both branches, a missing else never; loop never; block its statements; everything else no; a sequence when some statement does, starting from false). R12 shares C04-R11. R13: the parser reads placeholder names with the identifier alphabet (letters, digits, underscore after the first character).'
)
EXPLANATION += (
    ' Round 7: R14 every keyword token (reference/language.json plus the multi-word ones) is in the reserved-word table and nothing else is; R15 the static type tests of method arguments look at argument 0 (the name of env, the path of cwd, the separator of join, the duration of timeout_ms).'
)

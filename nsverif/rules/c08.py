"""C08 — running out of depth is reported, not a native crash."""
import json
import os
import re
import subprocess
import sys

from .. import facts as factsmod
from ..mir import parent_fn

PROBE = "runtime::Runtime::check_stack"
ENTRY = [
    "syntax::scanner::Lexer::next_token", "<syntax::scanner::Lexer as std::iter::Iterator>::next",
    "syntax::parser::Parser::parse_program", "resolver::Resolver::resolve",
    "runtime::Runtime::run", "runtime::Runtime::run_with_analysis", "diagnostics::Diagnostics::render_ansi",
]
# Recursion over the nesting depth of *run-time data*, not of the program text: each nesting step of a value
# is built by a deep copy into the 256 MiB arena, which is exhausted after a few thousand levels, long before
# these small frames fill the stack (triage: a script nesting an array once per iteration ends in arena
# exhaustion).  One named symbol each, with this reason.
DATA_DEPTH = {
    "runtime::Value::clone_into": "recursion over array nesting depth of a run-time value",
    "runtime::Value::promote": "recursion over array nesting depth of a run-time value",
    "<runtime::Value as std::fmt::Display>::fmt": "recursion over array nesting depth of a run-time value",
    "builtins::array::ArrayBuiltin::join": "recursion over array nesting depth of a run-time value",
    "runtime::Value::detach": "recursion over array nesting depth of a run-time value",
}


def local_calls(ctx, fn):
    return [c for c in fn.calls() if c.callee and parent_fn(c.callee) in ctx._nodes]


def propagated(fn, c):
    """Is the Result of call c propagated with `?` (its Err outcome returns from the function)?"""
    if c.dest is None or c.target is None:
        return False
    dl = c.dest["l"]
    # find Try::branch on the destination
    for c2 in fn.calls():
        if (c2.declared or "").endswith("::branch") and c2.args:
            pl = c2.args[0].get("move") or c2.args[0].get("copy")
            if pl is not None and pl["l"] == dl and fn.dominates(c.block, c2.block):
                # the switch on the branch result: Break edge must lead to a return without local calls
                S = c2.target
                while S is not None and fn.blocks[S]["t"]["k"] == "goto":
                    S = fn.blocks[S]["t"]["t"]
                if S is None or fn.blocks[S]["t"]["k"] != "switch":
                    continue
                si = fn.switch_info(S)
                if si["kind"] != "discr":
                    continue
                for lab, tgt in fn.succ[S]:
                    if si["vars"].get(lab) == "Break":
                        r = fn.reach([tgt])
                        if r & set(fn.exits()):
                            return True
    # or returned directly as the function's value
    if dl == 0:
        return True
    return False


def self_guarding(ctx, fn):
    """A body whose stack probe dominates every other call into the crate and whose failure is propagated."""
    probes = [c for c in fn.calls() if c.callee == PROBE]
    if not probes:
        return False
    p = probes[0]
    if not propagated(fn, p):
        return False
    me = ctx._scc_of.get(parent_fn(fn.id))
    for c in local_calls(ctx, fn):
        if c is p or c.callee == PROBE:
            continue
        if ctx._scc_of.get(parent_fn(c.callee)) != me:
            continue  # a call that cannot lead back here (e.g. expr.span()) may precede the probe
        if not fn.dominates(p.block, c.block) or c.block == p.block:
            return False
    return True


def build_graph(ctx):
    prog = ctx.lib
    ctx._nodes = {parent_fn(k) for k in prog.fns}
    full_adj = {}
    for src, d in prog.callgraph().items():
        for cal in d:
            if parent_fn(cal) in ctx._nodes:
                full_adj.setdefault(src, set()).add(parent_fn(cal))
    ctx._scc_of = {}
    for i, comp in enumerate(sccs(ctx._nodes, full_adj)):
        for v in comp:
            ctx._scc_of[v] = i
    sg = set()
    for fid in sorted(ctx._nodes):
        fn = prog.fns.get(fid)
        if fn and self_guarding(ctx, fn):
            sg.add(fid)
    edges = {}   # (src, dst) -> list of unguarded Call sites
    guarded_sites = 0
    for k, fn in prog.fns.items():
        src = parent_fn(fn.id)
        guards = []
        for c in fn.calls():
            if c.callee == PROBE or (c.callee and parent_fn(c.callee) in sg):
                if propagated(fn, c):
                    guards.append(c)
        for c in local_calls(ctx, fn):
            dst = parent_fn(c.callee)
            if dst in sg or dst == PROBE:
                continue  # the callee probes the stack itself before doing anything else
            if any(g.block != c.block and fn.dominates(g.block, c.block) for g in guards):
                guarded_sites += 1
                continue
            edges.setdefault((src, dst), []).append(c)
        # Display edges
    cg = prog.callgraph()
    for src, d in cg.items():
        for cal, sites in d.items():
            if cal.endswith("::fmt") and cal in ctx._nodes and (src, cal) not in edges:
                if any(s.callee in ("core::fmt::rt::Argument::new_display", "core::fmt::rt::Argument::new_debug") for s in sites):
                    edges.setdefault((src, cal), []).extend(sites)
    return sg, edges, guarded_sites


def sccs(nodes, adj):
    idx, low, st, on, out = {}, {}, [], set(), []
    counter = [0]
    for root in sorted(nodes):
        if root in idx:
            continue
        work = [(root, iter(sorted(adj.get(root, ()))))]
        idx[root] = low[root] = counter[0]
        counter[0] += 1
        st.append(root)
        on.add(root)
        while work:
            v, it = work[-1]
            adv = False
            for w in it:
                if w not in idx:
                    idx[w] = low[w] = counter[0]
                    counter[0] += 1
                    st.append(w)
                    on.add(w)
                    work.append((w, iter(sorted(adj.get(w, ())))))
                    adv = True
                    break
                elif w in on:
                    low[v] = min(low[v], idx[w])
            if adv:
                continue
            work.pop()
            if work:
                low[work[-1][0]] = min(low[work[-1][0]], low[v])
            if low[v] == idx[v]:
                comp = []
                while True:
                    w = st.pop()
                    on.discard(w)
                    comp.append(w)
                    if w == v:
                        break
                out.append(comp)
    return out


def r1_guard_on_every_cycle(ctx):
    prog = ctx.lib
    probe = ctx.need(PROBE)
    ctx.touch(probe)
    sg, edges, guarded_sites = build_graph(ctx)
    for k in prog.fns.values():
        ctx.touch(k)
    if "runtime::Runtime::eval_expr" not in sg:
        ctx.bad("probe-missing|runtime::Runtime::eval_expr", ctx.need("runtime::Runtime::eval_expr").where(),
                "eval_expr no longer starts with a propagated stack probe that dominates all its calls: every evaluation cycle through it is unguarded")
    else:
        ctx.ok("self-guarding|runtime::Runtime::eval_expr", ctx.need("runtime::Runtime::eval_expr").where(), "check_stack(..)? dominates every call in the body")
    # the probe itself compares against the budget and returns StackOverflow
    probe_ok = any(s.get("rv", {}).get("k") == "bin" and s["rv"]["op"] == "Gt" for b in probe.blocks for s in b["s"]) and \
        "StackOverflow" in json.dumps(probe.m["blocks"])
    if probe_ok:
        ctx.ok("probe-shape", probe.where(), "distance > STACK_BUDGET -> Err(StackOverflow)")
    else:
        ctx.bad("probe-shape", probe.where(), "check_stack no longer compares the stack distance with `>` against the budget and returns StackOverflow")
    adj = {}
    for (a, b) in edges:
        adj.setdefault(a, set()).add(b)
    reach = set()
    stack = [e for e in ENTRY if e in ctx._nodes]
    full_adj = {}
    cg = prog.callgraph()
    for src, d in cg.items():
        for cal in d:
            if parent_fn(cal) in ctx._nodes:
                full_adj.setdefault(src, set()).add(parent_fn(cal))
    while stack:
        x = stack.pop()
        if x in reach:
            continue
        reach.add(x)
        stack.extend(full_adj.get(x, ()))
    n_cycles = 0
    for comp in sccs(set(adj) | {b for v in adj.values() for b in v}, adj):
        cyc = len(comp) > 1 or comp[0] in adj.get(comp[0], ())
        if not cyc:
            continue
        comp_s = set(comp)
        if not (comp_s & reach):
            ctx.note("unguarded cycle not reachable from the pipeline entry points: %s" % sorted(comp))
            continue
        n_cycles += 1
        for a in sorted(comp):
            for b in sorted(adj.get(a, ())):
                if b not in comp_s:
                    continue
                sites = edges[(a, b)]
                where = sites[0].fn.where(sites[0].block)
                if a == b and a in DATA_DEPTH:
                    ctx.ok("data-depth|%s" % a, where, "named exception: " + DATA_DEPTH[a])
                    continue
                ctx.bad("unguarded-edge|%s -> %s" % (a, b), where,
                        "recursive call edge with no dominating stack probe, inside the cycle {%s}: nesting the construct that drives it overflows the native stack" % ", ".join(sorted(x.split("::")[-1] for x in comp)))
    ctx.floor("recursive cycles examined (guarded or not)", n_cycles + (1 if "runtime::Runtime::eval_expr" in sg else 0), 10)
    ctx.note("self-guarding bodies: %s; call sites guarded by a dominating propagated probe: %d" % (sorted(sg), guarded_sites))


RULES = [("C08-R1", r1_guard_on_every_cycle)]

EXPLANATION = (
    "R1: resolved call graph of the whole library (closures merged into their parents, Display::fmt edges added), every "
    "call edge classified as guarded (callee starts with a propagated check_stack probe that dominates all its calls, or "
    "the call site is dominated by such a probe/guarded call whose Err is propagated with `?`) or unguarded; strongly "
    "connected components of the unguarded graph that are reachable from the pipeline entry points are native-stack "
    "recursion with no depth check. Decides: presence of a guard on every recursive cycle. Does not decide the native depth "
    "at which a known cycle overflows, nor std-internal frames."
)
ASSUMPTIONS = [
    "recursion over run-time data depth (clone_into, promote, Display, join) is bounded by arena exhaustion - named exceptions",
    "indirect calls through function pointers do not exist in the crate (none exported); drop glue is not modelled",
]
TRUSTED = ["rustc nightly callee resolution (Instance::try_resolve)", "nsx exporter", "nsverif dominators and Tarjan SCC"]
NONTRIVIAL = "one obligation per call edge inside a recursive cycle of the unguarded call graph plus the probe-shape and self-guarding obligations; distinct = distinct edge"

"""C08 — running out of depth is reported, not a native crash."""
import json
import os
import re
import subprocess
import sys

from .. import facts as factsmod
from ..guards import ne, sh
from ..mir import parent_fn

PROBE = "runtime::Runtime::check_stack"
ENTRY = [
    "syntax::scanner::Lexer::next_token", "<syntax::scanner::Lexer as std::iter::Iterator>::next",
    "syntax::parser::Parser::parse_program", "resolver::Resolver::resolve",
    "runtime::Runtime::run", "runtime::Runtime::run_with_analysis", "diagnostics::Diagnostics::render_ansi",
]
# Recursion over the nesting depth of *run-time data*, not of the program text: each nesting step of a value
# is built by a deep copy into the 256 MiB arena, which is exhausted after a few thousand levels, long before
# these small frames fill the stack (triage: a script nesting an array once per iteration ends in arena
# exhaustion).  One named symbol each, with this reason.
DATA_DEPTH = {
    "runtime::Value::clone_into": "recursion over array nesting depth of a run-time value",
    "runtime::Value::promote": "recursion over array nesting depth of a run-time value",
    "<runtime::Value as std::fmt::Display>::fmt": "recursion over array nesting depth of a run-time value",
    "builtins::array::ArrayBuiltin::join": "recursion over array nesting depth of a run-time value",
    "runtime::Value::detach": "recursion over array nesting depth of a run-time value",
}


def local_calls(ctx, fn):
    return [c for c in fn.calls() if c.callee and parent_fn(c.callee) in ctx._nodes]


def propagated(fn, c):
    """Is the Result of call c propagated with `?` (its Err outcome returns from the function)?"""
    if c.dest is None or c.target is None:
        return False
    return propagated_local(fn, c.dest["l"], c.block, strict=True)


def propagated_local(fn, dl, from_block, strict=False):
    """Is the Result held in local dl (defined in from_block) propagated with `?` or returned?  strict: the definition has to
    dominate the `?` (a call result); otherwise it only has to reach it (one arm of a spliced helper's return)."""
    alias = {dl}
    for _ in range(0 if strict else 3):      # plain copies of the result (`dest = move ret` of a spliced helper)
        for b in fn.live:
            for st in fn.blocks[b]["s"]:
                a = st["rv"].get("a") if st["rv"]["k"] == "use" else None
                pl = (a.get("move") or a.get("copy")) if isinstance(a, dict) else None
                if pl is not None and not pl["p"] and pl["l"] in alias and not st["lhs"]["p"]:
                    alias.add(st["lhs"]["l"])
    if 0 in alias:
        return True
    # find Try::branch on the destination
    for c2 in fn.calls():
        if (c2.declared or "").endswith("::branch") and c2.args:
            pl = c2.args[0].get("move") or c2.args[0].get("copy")
            if pl is not None and pl["l"] in alias and (fn.dominates(from_block, c2.block) or (not strict and c2.block in fn.reach([from_block]))):
                # the switch on the branch result: Break edge must lead to a return without local calls
                S = c2.target
                while S is not None and fn.blocks[S]["t"]["k"] == "goto":
                    S = fn.blocks[S]["t"]["t"]
                if S is None or fn.blocks[S]["t"]["k"] != "switch":
                    continue
                si = fn.switch_info(S)
                if si["kind"] != "discr":
                    continue
                for lab, tgt in fn.succ[S]:
                    if si["vars"].get(lab) == "Break":
                        r = fn.reach([tgt])
                        if r & set(fn.exits()):
                            return True
    # or returned directly as the function's value
    if dl == 0:
        return True
    return False


def self_guarding(ctx, fn):
    """A body whose stack probe dominates every other call into the crate and whose failure is propagated."""
    probes = [c for c in fn.calls() if c.callee == PROBE]
    if not probes:
        return False
    p = probes[0]
    if not propagated(fn, p):
        return False
    me = ctx._scc_of.get(parent_fn(fn.id))
    for c in local_calls(ctx, fn):
        if c is p or c.callee == PROBE:
            continue
        if ctx._scc_of.get(parent_fn(c.callee)) != me:
            continue  # a call that cannot lead back here (e.g. expr.span()) may precede the probe
        if not fn.dominates(p.block, c.block) or c.block == p.block:
            return False
    return True


def build_graph(ctx):
    prog = ctx.lib
    ctx._nodes = {parent_fn(k) for k in prog.fns}
    full_adj = {}
    for src, d in prog.callgraph().items():
        for cal in d:
            if parent_fn(cal) in ctx._nodes:
                full_adj.setdefault(src, set()).add(parent_fn(cal))
    ctx._scc_of = {}
    for i, comp in enumerate(sccs(ctx._nodes, full_adj)):
        for v in comp:
            ctx._scc_of[v] = i
    sg = set()
    for fid in sorted(ctx._nodes):
        fn = prog.fns.get(fid)
        if fn and self_guarding(ctx, fn):
            sg.add(fid)
    edges = {}   # (src, dst) -> list of unguarded Call sites
    guarded_sites = 0
    for k, fn in prog.fns.items():
        src = parent_fn(fn.id)
        guards = []
        for c in fn.calls():
            if c.callee == PROBE or (c.callee and parent_fn(c.callee) in sg):
                if propagated(fn, c):
                    guards.append(c)
        for c in local_calls(ctx, fn):
            dst = parent_fn(c.callee)
            if dst in sg or dst == PROBE:
                continue  # the callee probes the stack itself before doing anything else
            if any(g.block != c.block and fn.dominates(g.block, c.block) for g in guards):
                guarded_sites += 1
                continue
            edges.setdefault((src, dst), []).append(c)
        # Display edges
    cg = prog.callgraph()
    for src, d in cg.items():
        for cal, sites in d.items():
            if cal.endswith("::fmt") and cal in ctx._nodes and (src, cal) not in edges:
                if any(s.callee in ("core::fmt::rt::Argument::new_display", "core::fmt::rt::Argument::new_debug") for s in sites):
                    edges.setdefault((src, cal), []).extend(sites)
    return sg, edges, guarded_sites


def sccs(nodes, adj):
    idx, low, st, on, out = {}, {}, [], set(), []
    counter = [0]
    for root in sorted(nodes):
        if root in idx:
            continue
        work = [(root, iter(sorted(adj.get(root, ()))))]
        idx[root] = low[root] = counter[0]
        counter[0] += 1
        st.append(root)
        on.add(root)
        while work:
            v, it = work[-1]
            adv = False
            for w in it:
                if w not in idx:
                    idx[w] = low[w] = counter[0]
                    counter[0] += 1
                    st.append(w)
                    on.add(w)
                    work.append((w, iter(sorted(adj.get(w, ())))))
                    adv = True
                    break
                elif w in on:
                    low[v] = min(low[v], idx[w])
            if adv:
                continue
            work.pop()
            if work:
                low[work[-1][0]] = min(low[work[-1][0]], low[v])
            if low[v] == idx[v]:
                comp = []
                while True:
                    w = st.pop()
                    on.discard(w)
                    comp.append(w)
                    if w == v:
                        break
                out.append(comp)
    return out


def r1_guard_on_every_cycle(ctx):
    prog = ctx.lib
    probe = ctx.need(PROBE)
    ctx.touch(probe)
    sg, edges, guarded_sites = build_graph(ctx)
    for k in prog.fns.values():
        ctx.touch(k)
    if "runtime::Runtime::eval_expr" not in sg:
        ctx.bad("probe-missing|runtime::Runtime::eval_expr", ctx.need("runtime::Runtime::eval_expr").where(),
                "eval_expr no longer starts with a propagated stack probe that dominates all its calls: every evaluation cycle through it is unguarded")
    else:
        ctx.ok("self-guarding|runtime::Runtime::eval_expr", ctx.need("runtime::Runtime::eval_expr").where(), "check_stack(..)? dominates every call in the body")
    # the probe itself compares against the budget and returns StackOverflow
    probe_ok = any(s.get("rv", {}).get("k") == "bin" and s["rv"]["op"] in ("Gt", "Ge", "Lt", "Le") for b in probe.blocks for s in b["s"]) and \
        "StackOverflow" in json.dumps(probe.m["blocks"])
    if probe_ok:
        ctx.ok("probe-shape", probe.where(), "distance > STACK_BUDGET -> Err(StackOverflow)")
    else:
        ctx.bad("probe-shape", probe.where(), "check_stack no longer compares the stack distance with `>` against the budget and returns StackOverflow")
    adj = {}
    for (a, b) in edges:
        adj.setdefault(a, set()).add(b)
    reach = set()
    stack = [e for e in ENTRY if e in ctx._nodes]
    full_adj = {}
    cg = prog.callgraph()
    for src, d in cg.items():
        for cal in d:
            if parent_fn(cal) in ctx._nodes:
                full_adj.setdefault(src, set()).add(parent_fn(cal))
    while stack:
        x = stack.pop()
        if x in reach:
            continue
        reach.add(x)
        stack.extend(full_adj.get(x, ()))
    n_cycles = 0
    for comp in sccs(set(adj) | {b for v in adj.values() for b in v}, adj):
        cyc = len(comp) > 1 or comp[0] in adj.get(comp[0], ())
        if not cyc:
            continue
        comp_s = set(comp)
        if not (comp_s & reach):
            ctx.note("unguarded cycle not reachable from the pipeline entry points: %s" % sorted(comp))
            continue
        n_cycles += 1
        for a in sorted(comp):
            for b in sorted(adj.get(a, ())):
                if b not in comp_s:
                    continue
                sites = edges[(a, b)]
                where = sites[0].fn.where(sites[0].block)
                nb = nesting_bound(ctx)
                if a == b and a == nb["P"]:
                    # the nesting predicate itself: it hands itself a budget one smaller and stops at zero
                    pf = prog.fns[a]
                    zero = False
                    for S in sorted(pf.live):
                        if pf.blocks[S]["t"]["k"] != "switch":
                            continue
                        si = pf.switch_info(S)
                        if si["kind"] == "bin" and si["op"] in ("Eq", "Ne") and any(isinstance(o, dict) and o.get("int") == 0 for o in (si["a"], si["b"])):
                            stop = [j for lab, j in pf.succ[S] if (lab != 0) == (si["op"] == "Eq")]
                            rec_blocks = {c.block for c in pf.calls() if c.callee == a or any("{closure" in str(pf.locals[(x.get("move") or x.get("copy") or {"l": 0})["l"]]["ty"]) for x in c.args if isinstance(x, dict) and (x.get("move") or x.get("copy")))}
                            if stop and not (pf.reach(stop) & rec_blocks):
                                zero = True
                    if zero:
                        ctx.ok("depth-limited|%s" % a, where, "recursion on a budget that is decremented on every call and stops at zero (at most %s levels)" % nb["L"])
                        continue
                if a == b and a in DATA_DEPTH:
                    # the recursion goes *down*: what it is called on again is an element of what it was called on (an item
                    # obtained by iterating the parameter), never the parameter itself - or the depth of the data bounds nothing
                    pf = prog.fns[a]
                    flat = []
                    for g in [pf] + list(prog.closures_of(a)):
                        for c in g.calls():
                            if c.callee == a and c.args:
                                t = sh(ne(g.deep(c.args[0], 12)))
                                # inside a closure, the closure's own parameter is what the iterator adaptor hands it: an item
                                pl0 = (c.args[0].get("move") or c.args[0].get("copy")) if isinstance(c.args[0], dict) else None
                                item_param = g is not pf and pl0 is not None and not pl0["p"] and 1 < pl0["l"] <= g.argc
                                if g is not pf and not item_param and pl0 is not None:
                                    # ... or a plain copy / reborrow of it
                                    ds = g.whole_defs(pl0["l"])
                                    if len(ds) == 1 and ds[0][1] != "t" and ds[0][2]["rv"]["k"] in ("use", "ref"):
                                        src = ds[0][2]["rv"].get("a") or {"copy": ds[0][2]["rv"].get("of")}
                                        p1 = (src.get("move") or src.get("copy")) if isinstance(src, dict) else None
                                        item_param = p1 is not None and 1 < p1["l"] <= g.argc
                                if not re.search(r"next\(|index\(|\[", t) and not item_param:
                                    flat.append((g, c, t))
                    if flat:
                        g, c, t = flat[0]
                        ctx.bad("data-recursion-does-not-descend|%s" % a, g.where(c.block), "%s calls itself on `%s`, which is not an element of the value it was called on: the recursion never reaches a leaf and overflows the native stack on the first nested array it meets, whatever the nesting limit" % (a.split("::")[-1], t[:50]))
                        continue
                    if nb["P"] is not None and nb["L"] is not None and all(ok for _f, _b, _k, ok, _w in nb["sites"]) and len(nb["sites"]) >= 3:
                        ctx.ok("data-depth|%s" % a, where, "%s: at most %d levels (every place where nesting grows is checked against the limit - R3; the levels are priced into the stack budget - R2)" % (DATA_DEPTH[a], nb["L"]))
                    else:
                        ctx.bad("unguarded-data-recursion|%s" % a, where, "%s, with no stack probe, and nothing bounds the depth of the data (R3): a value nested a few thousand levels deep overflows the native stack when it is copied, relocated or printed" % DATA_DEPTH[a])
                    continue
                ctx.bad("unguarded-edge|%s -> %s" % (a, b), where,
                        "recursive call edge with no dominating stack probe, inside the cycle {%s}: nesting the construct that drives it overflows the native stack" % ", ".join(sorted(x.split("::")[-1] for x in comp)))
    ctx.floor("recursive cycles examined (guarded or not)", n_cycles + (1 if "runtime::Runtime::eval_expr" in sg else 0), 10)
    ctx.note("self-guarding bodies: %s; call sites guarded by a dominating propagated probe: %d" % (sorted(sg), guarded_sites))


# ---------------------------------------------------------------------------------------------------------------------
# R2: the probe measures what it has to measure, against a budget that fits the thread's stack
THREAD_STACK = 8 * 1024 * 1024      # assumption: default main-thread stack of the hosts the CLI targets (ulimit -s 8192)
EXTERNAL_ALLOWANCE = 128 * 1024     # frames of std / libc below the interpreter's own (formatting, I/O, process spawning)
UNKNOWN_FRAME = 512                 # a body for which the code generator emitted no size (inlined away / not instantiated)
MAX_SINGLE_FRAME = 64 * 1024


def _addr_of_own_local(fn, operand):
    """operand is (a copy chain of) `&raw const <local> as usize` for a plain local of fn."""
    pl = (operand.get("move") or operand.get("copy")) if isinstance(operand, dict) else None
    seen = 0
    while pl is not None and not pl["p"] and seen < 6:
        defs = fn.whole_defs(pl["l"])
        if len(defs) != 1 or defs[0][1] == "t":
            return False
        rv = defs[0][2]["rv"]
        if rv["k"] == "use" or rv["k"] == "cast":
            a = rv["a"]
            pl = (a.get("move") or a.get("copy")) if isinstance(a, dict) else None
            seen += 1
            continue
        if rv["k"] in ("rawptr", "ref"):
            of = rv["of"]
            return not of["p"] and of["l"] > fn.argc
        return False
    return False


SPAWNED_DEFAULT_STACK = 2 * 1024 * 1024     # std::thread's default for spawned threads (RUST_MIN_STACK unset)


def interpreter_thread(ctx):
    """On which thread does the CLI run the program?  -> (stack bytes, description).  The main thread unless a body from
    which Runtime::run* is reachable is a closure handed to a thread-spawning call; then the stack is what
    Builder::stack_size was given (evaluated constant), or std's default for spawned threads."""
    binp = ctx.bin
    if binp is None:
        return THREAD_STACK, "main thread (assumed %d bytes)" % THREAD_STACK
    cg = binp.callgraph()
    runs = {k for k, g in binp.fns.items() for c in g.calls() if (c.callee or "").startswith("naijascript::runtime::Runtime::run")}

    def reaches_run(start):
        # (the call graph files a closure's calls under its parent: begin with the closure's own call sites)
        seen, st = set(), [parent_fn(c.callee) for c in binp.fns[start].calls() if c.callee and parent_fn(c.callee) in {parent_fn(k) for k in binp.fns}] if start in binp.fns and "{closure" in start else [start]
        if start in runs:
            return True
        while st:
            x = st.pop()
            if x in seen:
                continue
            seen.add(x)
            if x in runs:
                return True
            for cal in cg.get(x, {}):
                if cal in binp.fns:
                    st.append(cal)
                st.extend(g.id for g in binp.closures_of(cal)) if cal in binp.fns else None
            st.extend(g.id for g in binp.closures_of(x))
        return False
    for fid, fn in sorted(binp.fns.items()):
        for c in fn.calls():
            cal = c.callee or ""
            if not re.search(r"std::thread::(Builder::)?(spawn|spawn_unchecked|spawn_scoped)$|std::thread::(scoped::)?Scope::spawn$", cal):
                continue
            txt = " ".join(sh(ne(fn.deep(a))) for a in c.args)
            for m in re.finditer(r"\{closure#(\d+)\}", txt):
                clo = "%s::{closure#%s}" % (parent_fn(fid), m.group(1))
                if clo in binp.fns and reaches_run(clo):
                    size = None
                    for g in [binp.fns[k] for k in binp.fns if parent_fn(k) == parent_fn(fid)]:
                        for c2 in g.calls():
                            if (c2.callee or "").endswith("thread::Builder::stack_size") and len(c2.args) > 1:
                                e = g.deep(c2.args[1])
                                if e[0] == "const" and isinstance(e[2], int):
                                    size = e[2]
                                else:
                                    cc = binp.consts.get(sh(ne(e))) or binp.consts.get(sh(ne(e)).split("::")[-1])
                                    if isinstance(cc, dict):
                                        size = cc.get("int") if cc.get("int") is not None else (int.from_bytes(bytes.fromhex(cc["bytes"]), "little") if cc.get("bytes") else None)
                    if size is None:
                        return SPAWNED_DEFAULT_STACK, "a thread spawned in %s with std's default stack (%d bytes)" % (parent_fn(fid), SPAWNED_DEFAULT_STACK)
                    return size, "a thread spawned in %s with stack_size(%d)" % (parent_fn(fid), size)
    return THREAD_STACK, "main thread (assumed %d bytes)" % THREAD_STACK


def r2_probe_and_budget(ctx):
    prog = ctx.lib
    probe = ctx.need(PROBE)
    ctx.touch(probe)
    budget = None
    c = prog.consts.get("runtime::STACK_BUDGET")
    if c is not None:
        budget = c.get("int") if isinstance(c, dict) else None
        if budget is None and isinstance(c, dict) and c.get("bytes") is not None:
            budget = int.from_bytes(bytes.fromhex(c["bytes"]), "little")
    # (a) the comparison: stack_base.wrapping_sub(address of a local of the probe) > K  ->  Err(StackOverflow)
    K = None
    shape = False
    for b in sorted(probe.live):
        t = probe.blocks[b]["t"]
        if t["k"] != "switch":
            continue
        si = probe.switch_info(b)
        if si["kind"] != "bin" or si["op"] not in ("Gt", "Ge", "Lt", "Le"):
            continue
        # normalise to  distance <op> K : the constant may stand on either side
        dist_op, k_op, op = si["a"], si["b"], si["op"]
        if isinstance(dist_op, dict) and dist_op.get("int") is not None:
            dist_op, k_op = k_op, dist_op
            op = {"Gt": "Lt", "Ge": "Le", "Lt": "Gt", "Le": "Ge"}[op]
        K = k_op.get("int") if isinstance(k_op, dict) else None
        over_is_nonzero = op in ("Gt", "Ge")      # which outcome of the switch means "deeper than the budget"
        # left operand: result of wrapping_sub(self.stack_base, addr-of-local)
        la = (dist_op.get("move") or dist_op.get("copy")) if isinstance(dist_op, dict) else None
        seen_hops = 0
        while la is not None and not la["p"] and seen_hops < 4:
            dd = probe.whole_defs(la["l"])
            if len(dd) == 1 and dd[0][1] != "t" and dd[0][2]["rv"]["k"] == "use" and isinstance(dd[0][2]["rv"]["a"], dict):
                la = dd[0][2]["rv"]["a"].get("move") or dd[0][2]["rv"]["a"].get("copy")
                seen_hops += 1
            else:
                break
        sub = None
        if la is not None:
            for (bi, k, st) in probe.whole_defs(la["l"]):
                if k == "t" and (st.get("res") or st.get("callee") or "").endswith("wrapping_sub"):
                    sub = st
        if sub is not None:
            a0 = sh(ne(probe.deep(sub["args"][0])))
            if a0 == "self.stack_base" and _addr_of_own_local(probe, sub["args"][1]):
                # the "deeper than the budget" edge builds Err(StackOverflow)
                tgt = [j for lab, j in probe.succ[b] if (lab != 0) == over_is_nonzero]
                txt = json.dumps([probe.blocks[x]["s"] for x in probe.reach(tgt)])
                if "StackOverflow" in txt and '"variant": "Err"' in txt:
                    shape = True
    cmp_blocks = [b for b in sorted(probe.live) if probe.blocks[b]["t"]["k"] == "switch" and probe.switch_info(b)["kind"] == "bin" and probe.switch_info(b)["op"] in ("Gt", "Ge", "Lt", "Le")]
    if shape and cmp_blocks:
        # the comparison is made on every call: no path from entry to a return goes round it (sampling the probe - every
        # n-th call, only for some callers - lets the stack grow unmeasured in between)
        r = probe.reach([0], removed_nodes=cmp_blocks)
        if r & set(probe.exits()):
            ctx.bad("probe|conditional", probe.where(cmp_blocks[0]), "check_stack can return without comparing the stack distance with the budget (the probe is sampled / skipped on some path): between two real probes the native stack grows unmeasured, by more than the margin above the budget when the program nests blocks or calls in between")
        else:
            ctx.ok("probe|unconditional", probe.where(cmp_blocks[0]), "every call of check_stack makes the comparison")
        own_state = sorted({e.get("f") for b in sorted(probe.live) for st in probe.blocks[b]["s"] for e in st["lhs"]["p"] if isinstance(e, dict) and "f" in e})
        if own_state:
            ctx.bad("probe|writes-state|%s" % ",".join(own_state), probe.where(), "check_stack updates interpreter state (%s): its verdict depends on the history of calls, not only on the current depth" % own_state)
    if shape:
        ctx.ok("probe|distance-from-base", probe.where(), "stack_base - &local > %s -> Err(StackOverflow)" % K)
    else:
        ctx.bad("probe|distance-from-base", probe.where(), "check_stack no longer compares (stack_base - address of one of its own locals) with the budget and returns Err(StackOverflow) on the exceeding side: depth is not measured, or not reported")
    if K is not None and budget is not None and K != budget:
        ctx.bad("probe|constant|%s" % K, probe.where(), "check_stack compares against %s, not STACK_BUDGET (%s)" % (K, budget))
    elif K is not None:
        ctx.ok("probe|constant", probe.where(), "compared with STACK_BUDGET = %s" % K)
    # (b) stack_base is set once, in run_inner, from the address of a local, before anything is executed; nobody else writes it
    ri = ctx.need("runtime::Runtime::run_inner")
    ctx.touch(ri)
    writers = []
    for fn in prog.fns.values():
        for b in sorted(fn.live):
            for st in fn.blocks[b]["s"]:
                if any(isinstance(e, dict) and e.get("f") == "stack_base" for e in st["lhs"]["p"]):
                    writers.append((fn, b, st))
    others = sorted({parent_fn(fn.id) for fn, b, st in writers} - {ri.id})
    if others:
        ctx.bad("stack_base|other-writer|%s" % others[0], prog.fns[others[0]].where(), "Runtime.stack_base is also written in %s: re-anchoring the base during a run makes the measured distance restart from 0, so depth is never reached" % others)
    mine = [(b, st) for fn, b, st in writers if fn.id == ri.id]
    execs = [c for c in ri.calls() if c.callee and c.callee.startswith("runtime::Runtime::exec_")]
    if len(mine) == 1 and mine[0][1]["rv"]["k"] == "cast" and _addr_of_own_local(ri, mine[0][1]["rv"]["a"]) and execs and all(ri.dominates(mine[0][0], c.block) for c in execs):
        ctx.ok("stack_base|anchored-before-run", ri.where(mine[0][0]), "set from the address of a local of run_inner, dominating %d exec call(s)" % len(execs))
    else:
        ctx.bad("stack_base|anchored-before-run", ri.where(), "run_inner does not set stack_base from the address of one of its own locals before executing the program")
    for entry in ("runtime::Runtime::run", "runtime::Runtime::run_with_analysis"):
        e = ctx.need(entry)
        if any(c.callee == ri.id for c in e.calls()):
            ctx.ok("entry|%s" % entry.split("::")[-1], e.where(), "goes through run_inner")
        else:
            ctx.bad("entry|%s" % entry.split("::")[-1], e.where(), "%s no longer runs the program through run_inner (the stack base is not anchored)" % entry.split("::")[-1])
    # (c) budget + what can be stacked after the last successful probe + what is above the anchor fits the thread stack
    if budget is None:
        ctx.bad("budget|const-missing", "src/runtime.rs", "cannot evaluate runtime::STACK_BUDGET")
        return
    ext = None
    sizes = None
    detail = "measured only in the thorough tier"
    from .. import frames
    if ctx.tier == "thorough" and ctx.cfg != "dev":
        ctx.note("frame sizes are measured on the dev configuration only (the release profile uses LTO: frames are fixed at link time); default extension allowance used here")
    if ctx.tier == "thorough" and ctx.cfg == "dev":
        sizes, raw, meta = _frames(ctx)
        matched = sum(1 for k in prog.fns if frames._canon(k) in sizes)
        if matched < 400:
            # the release profile uses LTO: the rlib holds bitcode, frames are fixed at link time - nothing to read here
            ctx.note("frame sizes not available for this configuration (%d of %d bodies matched; LTO defers code generation to the link): default extension allowance used" % (matched, len(prog.fns)))
            sizes = None
    if sizes is not None:
        sg, edges, _ = build_graph(ctx)
        cg = prog.callgraph()
        adj = {}
        for src, d in cg.items():
            for cal in d:
                pc = parent_fn(cal)
                if pc in ctx._nodes and pc not in sg and pc != PROBE:
                    adj.setdefault(parent_fn(src), set()).add(pc)

        def fsize(node):
            tot, unk = 0, 0
            own = [k for k in prog.fns if parent_fn(k) == node]
            best_clo = 0
            for k in own:
                v = sizes.get(frames._canon(k))
                if v is None:
                    v = UNKNOWN_FRAME
                    unk += 1
                if k == node:
                    tot += v
                else:
                    best_clo = max(best_clo, v)
            return tot + best_clo, unk
        comps = sccs(set(adj) | {b for v in adj.values() for b in v} | set(sg), adj)
        comp_of = {}
        for i, comp in enumerate(comps):
            for v in comp:
                comp_of[v] = i
        weight = {i: sum(fsize(v)[0] for v in comp) for i, comp in enumerate(comps)}
        cadj = {}
        for a, bs in adj.items():
            for b in bs:
                if comp_of[a] != comp_of[b]:
                    cadj.setdefault(comp_of[a], set()).add(comp_of[b])
        memo = {}

        def longest(i):
            if i in memo:
                return memo[i]
            memo[i] = 0  # cycle guard (condensation is a DAG)
            best = 0
            for j in cadj.get(i, ()):
                best = max(best, longest(j))
            memo[i] = weight[i] + best
            return memo[i]
        import sys as _sys
        _sys.setrecursionlimit(10000)
        ext = 0
        start = None
        for g in sorted(sg):
            # everything a probing body can stack below itself before the next probe, plus the next probing frame itself
            nxt = max([fsize(x)[0] for x in sg] + [0]) + fsize(PROBE)[0]
            below = 0
            for cal in {parent_fn(c) for c in cg.get(g, {}) if parent_fn(c) in ctx._nodes and parent_fn(c) not in sg and parent_fn(c) != PROBE}:
                below = max(below, longest(comp_of[cal]))
            if below + nxt > ext:
                ext, start = below + nxt, g
        big = sorted(((v, k) for k, v in sizes.items() if frames._canon(k) in {frames._canon(x) for x in prog.fns} and v > MAX_SINGLE_FRAME), reverse=True)
        if big:
            ctx.bad("frame|oversized|%s" % big[0][1], "src", "the native frame of %s is %d bytes (> %d): a handful of nested activations between two probes eats the margin above the budget" % (big[0][1], big[0][0], MAX_SINGLE_FRAME))
        else:
            ctx.ok("frame|largest", "src", "largest frame among %d bodies: %d bytes (%s profile)" % (len(prog.fns), max([sizes.get(frames._canon(k), 0) for k in prog.fns] + [0]), meta["profile"]))
        cyc = [sorted(comp) for i, comp in enumerate(comps) if len(comp) > 1]
        detail = "worst unprobed extension below %s: %d bytes over the condensed call graph (%d of %d bodies matched to code-generator frame sizes; unguarded cycles %s counted once - their depth is reported by R1)" % (start, ext, matched, len(prog.fns), [len(x) for x in cyc])
        ctx.note(detail)
    # The recursions over the nesting depth of run-time data (clone_into, promote, detach, Display, join, drop glue) are not
    # probed - they cannot report an error.  They are bounded by the nesting limit the runtime enforces wherever nesting can
    # grow (R3).  That many levels of the fattest of those frames must fit above the budget too.
    # (An earlier version of this rule derived a bound from arena exhaustion - sqrt(2C/V) levels, assuming one level per
    # copy.  A literal can add many levels per copy (`a get [[[[a]]]]`), so that bound was wrong and hid a genuine defect, D30.)
    nb = nesting_bound(ctx)
    if nb["P"] is None or nb["L"] is None:
        ctx.bad("budget|data-depth-unbounded", "src/runtime.rs", "the depth of run-time data is not bounded (R3), so no stack budget can cover the unprobed recursions over it")
        return
    d_max = nb["L"]
    STD_PER_LEVEL = 128
    if sizes is not None:
        per_level = max([sizes.get(frames._canon(f), UNKNOWN_FRAME) for f in DATA_DEPTH] + [0]) + STD_PER_LEVEL
        how = "largest measured frame of the data-depth recursions + %d" % STD_PER_LEVEL
    else:
        per_level = 512 + STD_PER_LEVEL
        how = "default frame 512 + %d" % STD_PER_LEVEL
    data_allow = d_max * per_level
    ctx.note("data-depth bound: nesting limit %d levels (R3); %d bytes per level (%s) -> %d bytes" % (d_max, per_level, how, data_allow))
    # no body keeps an array of 64 KiB or more in a local (visible in the types of MIR locals, so also without frame sizes)
    nbig = 0
    for progx, tag in ((prog, "lib"), (ctx.bin, "bin")):
        if progx is None:
            continue
        for fidx, gx in progx.fns.items():
            if not gx.file.startswith("src/"):
                continue
            for lx in gx.locals:
                mm = re.match(r"^\[(.+); (\d+)\]$", lx["ty"].strip())
                if mm and int(mm.group(2)) >= MAX_SINGLE_FRAME:
                    nbig += 1
                    ctx.bad("stack-array|%s|%s" % (parent_fn(fidx), lx["ty"][:24]), gx.where(), "%s keeps a `%s` on the native stack: a frame of that size %s" % (parent_fn(fidx).split("::")[-1], lx["ty"], "sits above the stack anchor while the program runs, so the budget measured from the anchor reaches past the end of the thread's stack" if tag == "bin" else "between two probes eats the margin above the budget"))
    if not nbig:
        ctx.ok("stack-array|none", "src", "no local array of %d bytes or more in any body of the library or the CLI" % MAX_SINGLE_FRAME)
    # what the front end keeps on the stack *above* the anchor while the program runs: the frames on the way from main to
    # the call of Runtime::run* (a big buffer there moves the anchor down by its size; the budget is measured from the anchor)
    above = 64 * 1024
    above_how = "64 KiB (default)"
    if sizes is not None and ctx.bin is not None:
        bcg = ctx.bin.callgraph()
        badj = {}
        for src, dd in bcg.items():
            for cal in dd:
                if parent_fn(cal) in {parent_fn(k) for k in ctx.bin.fns}:
                    badj.setdefault(parent_fn(src), set()).add(parent_fn(cal))
        targets = {parent_fn(k) for k, g in ctx.bin.fns.items() for c in g.calls() if (c.callee or "").startswith("naijascript::runtime::Runtime::run")}

        def bframe(node):
            own = [k for k in ctx.bin.fns if parent_fn(k) == node]
            return max([sizes.get("bin:" + frames._canon(k), UNKNOWN_FRAME) for k in own] + [0])
        best = {}

        def walk(node, acc, seen):
            acc += bframe(node)
            if node in targets:
                best[node] = max(best.get(node, 0), acc)
            for nx in badj.get(node, ()):
                if nx not in seen and len(seen) < 12:
                    walk(nx, acc, seen | {nx})
        if "main" in {parent_fn(k) for k in ctx.bin.fns} and targets:
            walk("main", 0, {"main"})
        if best:
            above = max(best.values())
            above_how = "measured main -> %s" % sorted(best, key=best.get)[-1]
            ctx.note("frames above the anchor: %d bytes (%s)" % (above, above_how))
    need = budget + (ext if ext is not None else 256 * 1024) + data_allow + above + EXTERNAL_ALLOWANCE
    parts = "STACK_BUDGET %d + frames above the anchor %d (%s) + unprobed extension %s + data-depth recursion %d (%d levels x %d) + external allowance %d" % (budget, above, above_how, ext if ext is not None else "256 KiB (default)", data_allow, d_max, per_level, EXTERNAL_ALLOWANCE)
    stack, stack_how = interpreter_thread(ctx)
    stack = min(stack, THREAD_STACK) if stack_how.startswith("main") else stack
    if need <= stack:
        ctx.ok("budget|fits-thread-stack", "src/runtime.rs", "%s = %d <= %d, the stack of %s" % (parts, need, stack, stack_how))
    else:
        ctx.bad("budget|exceeds-thread-stack", "src/runtime.rs", "%s = %d bytes, more than the %d-byte stack of %s: recursion that is not probed (formatting, copying or relocating a deeply nested array; whatever runs after the last successful probe) hits the guard page before check_stack can report 'Call stack don full'" % (parts, need, stack, stack_how))


# ---------------------------------------------------------------------------------------------------------------------
# R3: the depth of run-time data is bounded where it grows
def _named_texts(fn, operand):
    """Texts of what an operand can be, with the depth-preserving wrappers (promote / detach / clone_into) peeled off."""
    out = set()
    for e in fn.alt_exprs(operand) or [fn.deep(operand)]:
        t = sh(ne(e))
        for _ in range(4):
            m = re.match(r"^&?(?:promote|detach|clone_into)\((.*)$", t)
            if not m:
                break
            # first argument of the wrapper
            depth, i, arg = 0, 0, m.group(1)
            for i, ch in enumerate(arg):
                if ch in "([{":
                    depth += 1
                elif ch in ")]}":
                    if depth == 0:
                        break
                    depth -= 1
                elif ch == "," and depth == 0:
                    break
            t = arg[:i]
        out.add(re.sub(r"^[&*]+", "", t))
    return out


def _ref_target(fn, operand):
    pl = (operand.get("move") or operand.get("copy")) if isinstance(operand, dict) else None
    hops = 0
    while pl is not None and not pl["p"] and hops < 4:
        defs = fn.whole_defs(pl["l"])
        if len(defs) != 1 or defs[0][1] == "t":
            return pl["l"]
        rv = defs[0][2]["rv"]
        if rv["k"] in ("ref", "rawptr"):
            return rv["of"]["l"]
        if rv["k"] == "use" and isinstance(rv["a"], dict):
            pl = rv["a"].get("move") or rv["a"].get("copy")
            hops += 1
            continue
        return pl["l"]
    return pl["l"] if pl is not None else None


def fam_calls(prog, fid):
    """Calls of a body into the evaluator (a checking *helper* has none: it only looks at the value it is given)."""
    fn = prog.fns[fid]
    return [c for c in fn.calls() if (c.callee or "").startswith("runtime::Runtime::eval_") or (c.callee or "").startswith("runtime::Runtime::exec_")]


def nesting_bound(ctx):
    """Find the mechanism that bounds how deep arrays can be nested inside arrays, and every place where nesting can grow.
    -> dict(P=<depth predicate>, L=<limit>, guards={routine ids}, sites=[(fn, block, kind, ok, why)])"""
    if getattr(ctx, "_nest", None) is not None and ctx._nest[0] == id(ctx.lib):
        return ctx._nest[1]
    prog = ctx.lib
    res = dict(P=None, L=None, guards=set(), sites=[])
    # the depth predicate: bool f(&Value, usize) in runtime.rs that calls itself with the budget decremented
    for fid, fn in sorted(prog.fns.items()):
        if fn.file != "src/runtime.rs" or "{closure" in fid:
            continue
        tys = [l["ty"] for l in fn.locals[:fn.argc + 1]]
        if not tys or tys[0] != "bool" or "usize" not in tys[1:] or not any(t.startswith("&") and "runtime::Value" in t for t in tys[1:]):
            continue
        fam = [fn] + list(prog.closures_of(fid))
        rec = [(g, c) for g in fam for c in g.calls() if c.callee == fid]
        if not rec:
            continue
        pidx = tys[1:].index("usize")
        # (a budget decremented outside the closure that visits the items is captured by it: `let inner = limit - 1; any(|i| i.f(inner))`)
        if all(re.match(r"^\*?Sub\(.+, ?1(_usize)?\)$", (prog.captured_text(g, sh(ne(g.deep(c.args[pidx])))) if "{closure" in g.id else sh(ne(g.deep(c.args[pidx]))))) for g, c in rec if len(c.args) > pidx):
            res["P"] = fid
            res["pidx"] = pidx
            # every item is examined: the call that visits the items (any / a loop) is gated by the budget test and the
            # Array match only - a further condition on one particular item (`first()`) lets the others through unseen
            gated = []
            for c in fn.calls():
                if (c.callee or "").split("::")[-1] in ("any", "all", "try_for_each", "fold", "next") and "iter" in sh(ne(fn.deep(c.args[0]))):
                    for S_, al_ in fn.constraints(c.block):
                        si_ = fn.switch_info(S_)
                        d_ = sh(ne(fn.deep(fn.blocks[S_]["t"]["d"])))
                        if si_["kind"] == "discr" and "runtime::Value" in si_["ty"] and not re.search(r"first\(|last\(|get\(|\[", d_):
                            continue
                        if si_["kind"] == "bin" and any(isinstance(o, dict) and o.get("int") == 0 for o in (si_["a"], si_["b"])):
                            continue
                        gated.append(d_[:50])
            res["partial"] = gated
            break
    P = res["P"]
    events = {}      # fn id -> [(block of the test, operand holding the tested value)]
    helper_param = {}  # checking routine -> index of its value parameter
    if P is not None:
        pfam = {P} | {g.id for g in prog.closures_of(P)}
        limits = []
        vidx = 1 - res["pidx"] if res["pidx"] in (0, 1) else 0
        for fid, fn in sorted(prog.fns.items()):
            if fid in pfam:
                continue
            for c in fn.calls():
                if c.callee != P or len(c.args) <= res["pidx"]:
                    continue
                t = sh(ne(fn.deep(c.args[res["pidx"]])))
                m = re.match(r"^(?:Sub\()?(\d+)\b", t)
                limits.append(int(m.group(1)) if m else None)
                # the outcome "deeper" must end in Err on every path
                S = c.target
                while S is not None and fn.blocks[S]["t"]["k"] == "goto":
                    S = fn.blocks[S]["t"]["t"]
                if S is not None and fn.blocks[S]["t"]["k"] == "switch":
                    deeper = [j for lab, j in fn.succ[S] if lab != 0]
                    # straight from the "deeper" outcome to an Err that is returned or propagated with `?`
                    errs = True
                    rlocal = None
                    for j in deeper:
                        hops, found = 0, False
                        while j is not None and hops < 8 and not found:
                            for st in fn.blocks[j]["s"]:
                                if st["rv"]["k"] == "agg" and st["rv"].get("variant") == "Err" and not st["lhs"]["p"]:
                                    found = st["lhs"]["l"] == 0 or propagated_local(fn, st["lhs"]["l"], j)
                                    if found:
                                        rlocal = st["lhs"]["l"]
                            nxt = [t_ for _l, t_ in fn.succ[j]]
                            j = nxt[0] if len(nxt) == 1 else None
                            hops += 1
                        errs = errs and found
                    if deeper and errs:
                        # ... and the test cannot be bypassed: without its "not deeper" outcome no Ok is reachable in a routine
                        # whose only job is this check (`a && deeper(..)` in the place of `a || deeper(..)` skips the test
                        # whenever a is false)
                        oks_here = {bb for bb in fn.live for st in fn.blocks[bb]["s"] if st["lhs"]["l"] == 0 and st["rv"]["k"] == "agg" and st["rv"].get("variant") == "Ok"}
                        if not fam_calls(prog, fid) and oks_here and (fn.reach([0], removed_edges=[(S, 0)]) & oks_here):
                            res.setdefault("bypass", []).append((fid, c.block))
                            continue
                        events.setdefault(fid, []).append((c.block, c.args[vidx], S, rlocal))
                        e = fn.deep(c.args[vidx])
                        while e[0] in ("ref", "deref"):
                            e = e[1]
                        if e[0] in ("var", "arg") and len(fam_calls(prog, fid)) == 0:
                            l = e[2] if e[0] == "var" and len(e) > 2 else (e[1] if e[0] == "arg" else None)
                            if isinstance(l, int) and 0 < l <= fn.argc:
                                helper_param[parent_fn(fid)] = l - 1
                                res["guards"].add(parent_fn(fid))
        if limits and all(x is not None for x in limits):
            res["L"] = max(limits)
    guards = res["guards"]

    def guard_calls(fn):
        """(block, operand with the checked value) of every nesting test that covers what follows it in fn."""
        out = list(events.get(fn.id, []))
        for c in fn.calls():
            if c.callee and parent_fn(c.callee) in helper_param and propagated(fn, c) and len(c.args) > helper_param[parent_fn(c.callee)]:
                out.append((c.block, c.args[helper_param[parent_fn(c.callee)]], None, None))
        return out

    def covers(fn, ev, block):
        """Every path to `block` has passed the nesting test `ev` with the outcome "not deeper"."""
        gb, gv, S, rlocal = ev
        if S is None:
            return gb != block and fn.dominates(gb, block)
        # an inline test: without its "not deeper" edge the block must be unreachable (the Result of a spliced helper is
        # followed through its `?`)
        return block not in fn.reach_threaded([0], [rlocal] if rlocal else [], removed_edges=[(S, 0)])
    copy_family = set(DATA_DEPTH) | {P}
    for fn in sorted([f for f in prog.fns.values() if f.file in ("src/runtime.rs", "src/builtins/array.rs")], key=lambda f: (f.line, f.id)):
        pid = parent_fn(fn.id)
        if pid in copy_family or pid in helper_param:
            continue
        gcs = guard_calls(fn)
        for c in fn.calls():
            cal = c.callee or ""
            kind = stored = None
            if cal == "builtins::array::ArrayBuiltin::push" and fn.file == "src/runtime.rs":
                kind, stored = "push", c.args[1]
            elif cal in ("std::mem::replace", "core::mem::replace") and len(c.args) == 2 and "runtime::Value" in (fn.locals[(c.args[1].get("move") or c.args[1].get("copy") or {"l": 0})["l"]]["ty"] if isinstance(c.args[1], dict) and (c.args[1].get("move") or c.args[1].get("copy")) else ""):
                dst = sh(ne(fn.deep(c.args[0])))
                if re.search(r"index_mut\(|get_unchecked_mut\(|get_mut\(|\[", dst):
                    kind, stored = "element-write", c.args[1]
            if kind is None:
                continue
            texts = _named_texts(fn, stored)
            if all(re.match(r"^Value::(Str|Number|Bool|Null)\b", t) for t in texts):
                continue        # a constant of a heap-free kind (taking a value out of its place)
            ok = False
            why = "no nesting check on the stored value dominates the store"
            for ev in gcs:
                gb, gv = ev[0], ev[1]
                if covers(fn, ev, c.block) and (_named_texts(fn, gv) & texts):
                    ok, why = True, "a propagated nesting check of `%s` dominates the store" % sorted(_named_texts(fn, gv))[0][:40]
            res["sites"].append((fn, c.block, kind, ok, why))
        # a fresh array built from evaluated items
        for b in sorted(fn.live):
            for st in fn.blocks[b]["s"]:
                rv = st["rv"]
                if not (rv["k"] == "agg" and rv["adt"].endswith("runtime::Value") and rv.get("variant") == "Array"):
                    continue
                vec = (rv["ops"][0].get("move") or rv["ops"][0].get("copy")) if isinstance(rv["ops"][0], dict) else None
                hops = 0
                while vec is not None and not vec["p"] and hops < 4:
                    dd = fn.whole_defs(vec["l"])
                    if len(dd) == 1 and dd[0][1] != "t" and dd[0][2]["rv"]["k"] == "use" and isinstance(dd[0][2]["rv"]["a"], dict):
                        nx = dd[0][2]["rv"]["a"].get("move") or dd[0][2]["rv"]["a"].get("copy")
                        if nx is None or nx["p"]:
                            break
                        vec, hops = nx, hops + 1
                    else:
                        break
                if vec is None:
                    continue
                # what was pushed into that vector
                items = [c2 for c2 in fn.calls() if (c2.callee or "").endswith("Vec::push") and c2.args and _ref_target(fn, c2.args[0]) == vec["l"]]
                unknown = [c2 for c2 in items if not re.match(r"^Value::(Str|Number|Bool|Null)\b", sh(ne(fn.deep(c2.args[1]))))]
                if not unknown:
                    continue        # strings / numbers only (split, ...): depth 1
                target = st["lhs"]["l"]
                exits_ok = {bb for bb in fn.live for s2 in fn.blocks[bb]["s"] if s2["lhs"]["l"] == 0 and s2["rv"]["k"] == "agg" and s2["rv"].get("variant") == "Ok"}
                ok = False
                for ev in gcs:
                    gb, gv, S, rlocal = ev
                    if _ref_target(fn, gv) != target and not ({"Value::Array" + t[len("Value::Array"):] for t in _named_texts(fn, gv) if t.startswith("Value::Array")} and fn.dominates(b, gb)):
                        continue
                    if S is None:
                        # (the call is the terminator of its block: a check in the block that builds the array covers all that follows)
                        leak = set() if gb == b else fn.reach([b], removed_nodes={gb}) & exits_ok
                    else:
                        leak = fn.reach_threaded([b], [rlocal] if rlocal else [], removed_edges=[(S, 0)]) & exits_ok
                    if not leak:
                        ok = True
                res["sites"].append((fn, b, "literal", ok, "the nesting check on the new array lies on every path to the Ok return" if ok else "the new array reaches the Ok return without a nesting check"))
    ctx._nest = (id(ctx.lib), res)
    return res


def r3_data_depth_is_bounded(ctx):
    """Copying, relocating, dropping and printing a value recurse once per nesting level of arrays inside arrays, with no
    stack probe (they cannot report an error).  That is only safe if the depth itself is bounded: there is a depth-limited
    predicate, a routine that turns "deeper than L" into an error, and every place where nesting can grow - a new array built
    from evaluated items, a value pushed into an array, a value written over an element - is covered by a propagated call of
    that routine on the value concerned.  R2 then prices L levels of the measured per-level cost into the stack budget."""
    nb = nesting_bound(ctx)
    if nb.get("bypass"):
        fidb, bb = nb["bypass"][0]
        ctx.bad("nesting|check-bypassed|%s" % fidb.split("::")[-1], ctx.lib.fns[fidb].where(bb), "%s can return Ok without having asked the depth predicate (the test sits behind another condition): the limit is not enforced on that path" % fidb.split("::")[-1])
    if nb.get("partial"):
        ctx.bad("nesting|predicate-skips-items", ctx.need(nb["P"]).where(), "%s visits the items of an array only under `%s`: items it does not look at can nest as deep as they like" % (nb["P"].split("::")[-1], nb["partial"][0]))
    if nb["P"] is None or nb["L"] is None or not nb["guards"]:
        ctx.bad("nesting|no-bound", ctx.need("runtime::Value::clone_into").where(),
                "nothing bounds how deep arrays can be nested inside arrays (no depth-limited predicate over a Value whose 'too deep' outcome becomes an error): %d places let a script add a level per step, and a few thousand levels (a loop around `a get [[[[..a..]]]]`) are enough for the unprobed recursions over the data - copy, relocation, drop, printing - to overflow the native stack" % len(nb["sites"]))
    else:
        ctx.ok("nesting|bound", ctx.need(nb["P"]).where(), "%s bounds nesting at %d levels; checking routine(s): %s" % (nb["P"].split("::")[-1], nb["L"], sorted(x.split("::")[-1] for x in nb["guards"])))
    seen = {}
    for fn, b, kind, ok, why in nb["sites"]:
        ctx.touch(fn)
        short = parent_fn(fn.id).split("::")[-1]
        o = seen[(short, kind)] = seen.get((short, kind), 0) + 1
        key = "nesting|grow|%s|%s#%d" % (short, kind, o)
        if nb["P"] is None:
            continue        # reported once above
        if ok:
            ctx.ok(key, fn.where(b), why)
        else:
            ctx.bad(key, fn.where(b), "%s (%s in %s): nesting can grow here without limit, so the unprobed recursions over a value's depth are unbounded again" % (why, kind, short))
    ctx.floor("places where array nesting can grow", len(nb["sites"]), 3)



_FRAMES = {}


def _frames(ctx):
    from .. import frames
    key = (ctx.repo, ctx.cfg)
    if key not in _FRAMES:
        _FRAMES[key] = frames.collect(ctx.repo, release=(ctx.cfg == "release"))
    return _FRAMES[key]


RULES = [("C08-R1", r1_guard_on_every_cycle), ("C08-R2", r2_probe_and_budget), ("C08-R3", r3_data_depth_is_bounded)]

EXPLANATION = (
    "R1: resolved call graph of the whole library (closures merged into their parents, Display::fmt edges added), every "
    "call edge classified as guarded (callee starts with a propagated check_stack probe that dominates all its calls, or "
    "the call site is dominated by such a probe/guarded call whose Err is propagated with `?`) or unguarded; strongly "
    "connected components of the unguarded graph that are reachable from the pipeline entry points are native-stack "
    "recursion with no depth check. R2: the probe compares (stack_base - address of one of its own locals) with the evaluated "
    "constant STACK_BUDGET and returns Err(StackOverflow) beyond it; stack_base is written only in run_inner, from the address "
    "of one of its locals, before anything executes, and both entry points go through run_inner; STACK_BUDGET plus what can be "
    "stacked after the last successful probe plus an allowance for std frames fits an 8 MiB thread stack. In the thorough tier "
    "the extension is computed from the code generator's own frame sizes (-Z emit-stack-sizes, dev profile) as the longest "
    "path in the condensed call graph below a probing body, and no single frame may exceed 64 KiB. Decides: presence of a "
    "guard on every recursive cycle, soundness of the probe's arithmetic and constant. Does not decide the native depth at "
    "which a known unguarded cycle overflows, release-profile frames (LTO: fixed at link time), nor std-internal frames."
)
EXPLANATION += (
    " R2 also: the frames the CLI keeps above the stack anchor are added (thorough: from the linked executable's .stack_sizes); no local array of 64 KiB or more in any body; the thread on which the CLI runs the program is found (a closure handed to a thread-spawning call from which Runtime::run* is reachable) and its stack size read from Builder::stack_size - the main thread's 8 MiB is only assumed when there is no such thread."
    " R3: the recursions over the depth of run-time data (copy, relocation, drop, printing) cannot probe the stack; they are accepted only because nesting is bounded where it grows: there is a depth-limited predicate over a Value (it calls itself with its budget decremented and stops at zero), a routine whose 'too deep' outcome is an Err, and every growth site - a Value::Array built from a vector that received evaluated items, ArrayBuiltin::push, a write over an element of a Vec<Value> - found by type, is covered by a propagated call of that routine on the value concerned (dominance; for a check spliced in from a new helper the Result is followed through its `?`). R1 accepts the data-depth recursions only when R3 holds; R2 adds limit x per-level frame to what must fit the stack. One genuine defect (D30) was hidden by an earlier, wrong arena-exhaustion bound and is repaired."
)
EXPLANATION += (
    ' R3 also: the depth predicate visits the items of an array under no condition other than its budget test and the Array match; the checking routine cannot return Ok on a path that has not asked the predicate.'
)
ASSUMPTIONS = [
    "the per-level stack cost of the data-depth recursions is the fattest of their own frames plus 128 bytes of formatting machinery (dev profile measured; release assumed 640 bytes)",
    "compiler-generated drop glue over a nested value costs no more per level than the measured copy/print routines",
    "indirect calls through function pointers do not exist in the crate (none exported); drop glue is not modelled",
    "the interpreter runs on a thread with at least 8 MiB of stack (Linux main thread default); std/libc frames below the interpreter's own need at most 128 KiB",
]
TRUSTED = ["rustc nightly callee resolution (Instance::try_resolve)", "nsx exporter", "nsverif dominators and Tarjan SCC"]
NONTRIVIAL = "one obligation per call edge inside a recursive cycle of the unguarded call graph plus the probe-shape and self-guarding obligations; distinct = distinct edge"
EXPLANATION += (
    ' Round 6: R1 also requires a recursion over data depth to be called again on an element of its argument (obtained by iterating it), never on the argument itself.'
)

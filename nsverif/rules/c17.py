"""C17 — read_line delivers successive input lines, whatever the chunking."""
import re
from ..guards import ne, sh
from ..mir import parent_fn

IMPL = "<sys::unix::UnixStdin as sys::Stdin>::read_line"
RAW_READS = ("libc::read", "libc::pread", "libc::readv", "libc::recv")
BUFFERED = ("std::io::BufRead::read_until", "std::io::BufRead::read_line", "std::io::Stdin::read_line", "std::io::BufRead::fill_buf",
            "<std::io::StdinLock as std::io::BufRead>::read_until", "<std::io::StdinLock as std::io::BufRead>::read_line",
            "<std::io::StdinLock as std::io::BufRead>::fill_buf", "std::io::BufRead::lines", "std::io::Stdin::lines")


def r1_no_discarded_overread(ctx):
    f = ctx.need(IMPL)
    fam = ctx.lib.family(IMPL)
    for g in fam:
        ctx.touch(g)
    # the trait method reached from the script is this implementation
    gl = ctx.need("builtins::GlobalBuiltin::read_line")
    ctx.touch(gl)
    if any(c.callee == IMPL for c in gl.calls()):
        ctx.ok("dispatch", gl.where(), "GlobalBuiltin::read_line -> UnixStdin::read_line")
    else:
        ctx.bad("dispatch", gl.where(), "GlobalBuiltin::read_line no longer resolves to the unix Stdin implementation (%s)" % sorted({c.callee for c in gl.calls()}))
    raws = [(g, c) for g in fam for c in g.calls() if c.callee in RAW_READS]
    buffered = [(g, c) for g in fam for c in g.calls() if c.callee in BUFFERED or ((c.callee or "").startswith("std::io::") and (c.callee or "").split("::")[-1] in ("read_until", "read_line", "fill_buf"))]
    statics = [s["id"] for s in ctx.lib.statics]
    for g, c in raws:
        fd = c.args[0].get("int") if isinstance(c.args[0], dict) else None
        fdtxt = sh(ne(g.deep(c.args[0])))
        if fd not in (0, None) and "STDIN" not in fdtxt:
            continue
        count = c.args[2].get("int") if len(c.args) > 2 and isinstance(c.args[2], dict) else None
        carry = [s for s in statics if "stdin" in s.lower() or "line" in s.lower()]
        if count == 1:
            ctx.ok("raw-read|byte-at-a-time", g.where(c.block), "read(0, _, 1): nothing can be over-read")
        elif carry:
            ctx.ok("raw-read|carry-over", g.where(c.block), "surplus kept in %s" % carry)
        else:
            ctx.bad("raw-read|surplus-discarded", g.where(c.block),
                    "read_line reads up to `%s` bytes from file descriptor 0 in one raw read(2), returns only the part before the first newline and keeps no state between calls: every byte after that newline is lost, so successive calls do not return successive lines when input arrives in one chunk (pipe, file)" % sh(ne(g.deep(c.args[2])))[:60])
    if not raws:
        if buffered:
            ctx.ok("buffered-handle", f.where(buffered[0][1].block), "input obtained through std's process-wide buffered stdin (%s)" % buffered[0][1].callee.split("::")[-1])
        else:
            ctx.bad("no-input-source", f.where(), "read_line neither uses std's buffered stdin nor a raw read: cannot see where input comes from (%s)" % sorted({c.callee for g in fam for c in g.calls() if 'io' in (c.callee or '')}))
    # no state of its own between calls: the only thing carried from one call to the next is std's stdin buffer.
    # (A latch such as "input is drained" needs an argument about what an empty result means - a blank line is an
    # empty result too - that cannot be checked here; it fails closed.)
    from ..mir import statics_used
    st = set()
    for g in fam:
        st |= statics_used(g)
    if st and not raws:
        ctx.bad("own-state|%s" % ",".join(sorted(st)), f.where(), "read_line consults global state of its own (%s) besides std's buffered handle: what one call records decides what later calls return (e.g. treating a blank line as end of input)" % sorted(st))
    elif not st:
        ctx.ok("no-own-state", f.where(), "no static is touched by read_line")
    # every use of stdin in the library goes through this one implementation (two readers would steal from each other)
    others = []
    for fn in ctx.lib.fns.values():
        pid = parent_fn(fn.id)
        if pid == IMPL:
            continue
        for c in fn.calls():
            if c.callee in RAW_READS and isinstance(c.args[0], dict) and c.args[0].get("int") == 0:
                others.append((fn, c))
            if (c.callee or "") in ("std::io::stdin",) and "process_common" not in fn.id:
                others.append((fn, c))
    if others:
        ctx.bad("second-stdin-reader|%s" % parent_fn(others[0][0].id), others[0][0].where(others[0][1].block), "standard input is also read from %s" % parent_fn(others[0][0].id))
    else:
        ctx.ok("single-stdin-reader", f.where(), "no other body of the library reads standard input")


def r2_terminator_and_eof(ctx):
    f = ctx.need(IMPL)
    fam = ctx.lib.family(IMPL)
    txt = " ".join(sh(ne(g.deep(a))) for g in fam for c in g.calls() for a in c.args)
    # the newline is searched for / used as delimiter
    nl = any((c.callee or "").endswith("memchr") and c.args and c.args[0].get("int") == 10 for g in fam for c in g.calls()) or \
        any((c.callee or "").split("::")[-1] in ("read_until",) and len(c.args) > 1 and c.args[1].get("int") == 10 for g in fam for c in g.calls()) or \
        any((c.callee or "").split("::")[-1] in ("read_line", "lines") and (c.callee or "").startswith("std::io") for g in fam for c in g.calls())
    if nl:
        ctx.ok("delimiter-newline", f.where(), "lines are delimited by byte 10")
    else:
        ctx.bad("delimiter-newline", f.where(), "read_line no longer splits at the newline byte")
    # the terminator is not part of the result: either len = index of the newline, or an explicit pop/truncate/strip
    strip = any((c.callee or "").split("::")[-1] in ("pop", "truncate", "strip_suffix", "trim_end_matches", "set_len") for g in fam for c in g.calls())
    # or: the copy stops at the newline's index and the terminator is consumed separately (fill_buf / consume idiom)
    consume = any((c.callee or "").split("::")[-1] == "consume" for g in fam for c in g.calls()) and \
        any((c.callee or "").endswith("memchr") for g in fam for c in g.calls())
    if strip:
        ctx.ok("terminator-stripped", f.where(), "result length excludes the terminator (pop/truncate/set_len)")
    elif consume:
        ctx.ok("terminator-stripped", f.where(), "bytes are copied up to the newline's index and the terminator is consumed, not copied")
    else:
        ctx.bad("terminator-stripped", f.where(), "the line terminator is not removed from the returned string")
    # the bytes of a line are decoded as text once, after the line is complete: decoding inside the loop that fetches
    # input splits a multi-byte character that straddles two chunks
    for g in fam:
        dec = [c for c in g.calls() if (c.callee or "").split("::")[-1] in ("from_utf8_lossy", "from_utf8_lossy_owned", "from_utf8", "from_utf8_unchecked") and "arena::string" in (c.callee or "") or (c.callee or "") in ("std::string::String::from_utf8_lossy", "core::str::from_utf8")]
        fetch = [c for c in g.calls() if (c.callee or "").split("::")[-1] in ("fill_buf", "read", "read_until", "read_line") and ("io::" in (c.callee or "") or "libc" in (c.callee or ""))]
        for d in dec:
            in_loop = any(d.block in g.reach_from_succ(d.block) and fch.block in g.reach_from_succ(d.block) for fch in fetch)
            if in_loop:
                ctx.bad("decode-per-chunk", g.where(d.block), "the line's bytes are decoded as UTF-8 inside the loop that fetches input: a multi-byte character split across two chunks is turned into replacement characters")
            else:
                ctx.ok("decode-once#%d" % d.block, g.where(d.block), "decoded once, after the line is complete")


CONTENT_CHANGERS = ("trim", "trim_end", "trim_start", "trim_matches", "trim_end_matches", "trim_start_matches", "strip_suffix", "strip_prefix",
                    "replace_range", "replace", "truncate", "remove", "retain", "clear", "insert", "insert_str", "drain", "split_off",
                    "make_ascii_lowercase", "make_ascii_uppercase", "to_lowercase", "to_uppercase", "to_ascii_lowercase", "to_ascii_uppercase")


def r3_each_byte_once_and_unchanged(ctx):
    """(a) Bytes looked at through fill_buf stay in std's buffer until consume(n): a copy of them into the line must be followed,
    before anything else is read, by a consume - otherwise the next read delivers them a second time (whenever a line is only
    partly buffered when the call starts).  (b) Between the platform routine and the script nothing edits the line: the
    terminator is removed where the line is read, by position (pop / copy up to the newline's index), and that is all."""
    fam = ctx.lib.family(IMPL)
    n = 0
    for g in fam:
        ctx.touch(g)
        fills = [c for c in g.calls() if (c.callee or "").split("::")[-1] == "fill_buf"]
        if not fills:
            continue
        readers = {c.block for c in g.calls() if (c.callee or "").split("::")[-1] in ("read_until", "read_line", "fill_buf", "read", "read_to_end", "read_exact", "lines")}
        consumes = {c.block for c in g.calls() if (c.callee or "").split("::")[-1] == "consume"}
        for c in g.calls():
            last = (c.callee or "").split("::")[-1]
            if last not in ("to_vec", "to_owned", "extend_from_slice", "copy_from_slice", "extend", "from_utf8_lossy", "from_utf8", "push_str", "clone_from_slice", "into", "to_string"):
                continue
            if not any("fill_buf(" in sh(ne(g.deep(a))) for a in c.args):
                continue
            n += 1
            r = g.reach_from_succ(c.block, removed_nodes=consumes)
            again = sorted((r & readers) - {c.block})
            if again:
                ctx.bad("peeked-bytes-read-twice|%s" % last, g.where(c.block), "bytes obtained with fill_buf are copied (`%s`) and then more input is read without a consume in between: the copied bytes are still in std's buffer and are delivered again, so a line that is only partly buffered when read_line starts comes back with its beginning doubled" % last)
            else:
                ctx.ok("peeked-bytes-consumed#%d" % n, g.where(c.block), "every path from the copy to the next read passes consume")
    if n == 0:
        ctx.ok("no-peeking", ctx.need(IMPL).where(), "the line is taken with read_until / read_line: std consumes what it delivers")
    # (b) no editing of the line on its way to the script
    chain = [ctx.need("builtins::GlobalBuiltin::read_line")]
    for g0 in chain:
        for g in ctx.lib.family(g0.id):
            ctx.touch(g)
            edits = [c for c in g.calls() if (c.callee or "").split("::")[-1] in CONTENT_CHANGERS or (c.callee or "").split("::")[-1] in ("pop", "push", "push_str")]
            if edits:
                ctx.bad("line-edited|%s|%s" % (g0.id.split("::")[-1], (edits[0].callee or "").split("::")[-1]), g.where(edits[0].block), "%s edits the line after the platform routine returned it (%s): characters that belong to the line - trailing blanks or tabs, a line consisting of blanks - are removed or altered before the script sees them" % (g0.id.split("::")[-2] + "::" + g0.id.split("::")[-1], (edits[0].callee or "").split("::")[-1]))
            else:
                ctx.ok("line-unedited|%s" % g0.id.split("::")[-1], g.where(), "the wrapper hands the platform routine's result on as it is")
    f = ctx.need(IMPL)
    # `v.truncate(v.len() - 1)` removes exactly the last byte, by position: it is `pop` under another name, and is held to
    # pop's condition below
    def _drops_last(c):
        if (c.callee or "").split("::")[-1] != "truncate" or len(c.args) != 2:
            return False
        return sh(ne(c.fn.deep(c.args[1]))).replace(" ", "") == "Sub(len(%s),1)" % sh(ne(c.fn.deep(c.args[0]))).replace(" ", "").lstrip("&mut").lstrip("&")
    edits = [c for g in fam for c in g.calls() if (c.callee or "").split("::")[-1] in CONTENT_CHANGERS and not _drops_last(c)]
    if edits:
        ctx.bad("line-edited|impl|%s" % (edits[0].callee or "").split("::")[-1], f.where(edits[0].block), "read_line edits the content of the line with `%s`: only the terminator may be removed, by position" % (edits[0].callee or "").split("::")[-1])
    else:
        ctx.ok("line-unedited|impl", f.where(), "only positional removal of the terminator (pop / copy up to the newline's index)")
    # the terminator removal is conditional on the last byte being the newline (the final line may come without one)
    pops = [c for g in fam for c in g.calls() if (c.callee or "").split("::")[-1] == "pop" or _drops_last(c)]
    for c in pops:
        g = c.fn
        import json as _json
        guard = False
        for S, al in g.constraints_threaded(c.block):
            d = sh(ne(g.deep(g.blocks[S]["t"]["d"])))
            # the byte itself matched against the newline (`matches!(line.last(), Some(b'\n'))`)
            if "last(" in d and "@Some.0" in d and list(al) == [10]:
                guard = True
            if re.match(r"^eq\(last\(", d) and 0 not in al:
                # the compared constant is a promoted `&b'\n'`: look the 10 up in the promoted bodies of this function
                proms = _json.dumps(g.f.get("promoted", []))
                if '"int": 10' in proms:
                    guard = True
            if ("ends_with(" in d or "last(" in d) and re.search(r"\b10\b", d) and 0 not in al:
                guard = True
        if guard:
            ctx.ok("pop|only-a-newline", g.where(c.block), "pop under `last == newline`")
        else:
            ctx.bad("pop|unconditional", g.where(c.block), "the last byte of the line is removed without testing that it is the newline: an unterminated final line loses its last character")


def r4_reads_are_never_pruned(ctx):
    """Every read_line call a program makes is executed: the effect tables class the built-in Impure, so a call whose result is
    unused (a header line that is only skipped) is not removed by the optimisation plan - otherwise later calls return earlier
    lines (shared with C03-R2, which compares each built-in's run-time arm with its effect class)."""
    from .c03 import r1_plan_only_from_pure, r2_effect_tables
    r2_effect_tables(ctx)
    # ... and the class of a statement that calls user functions is joined with the callees' *transitive* class (a helper
    # that reads a line through another helper is as impure as one that calls read_line itself): C03-R1
    r1_plan_only_from_pure(ctx)


def r5_no_stdin_lock_while_the_program_runs(ctx):
    """read_line takes std's process-wide stdin lock for the duration of one call.  The lock is not re-entrant: a front end that
    still holds a StdinLock when it starts the program (the CLI reading the script itself from stdin) makes the first
    read_line wait for ever."""
    n = 0
    if ctx.bin is None:
        ctx.bad("stdin-lock|no-bin", "src/bin", "the CLI crate was not exported")
        return
    for fn in ctx.bin.fns.values():
        locks = [i for i, l in enumerate(fn.locals) if "StdinLock" in l["ty"] and not l["ty"].lstrip().startswith("&")]
        if not locks:
            continue
        ctx.touch(fn)
        runs = [c for c in fn.calls() if (c.callee or "").split("::")[-1] in ("run_source", "run_with_analysis", "run") and ("cmd::" in (c.callee or "") or "Runtime" in (c.callee or ""))]
        for l in locks:
            n += 1
            defs = [b for (b, k, st) in fn.whole_defs(l)]
            ends = {b for b in sorted(fn.live) if (fn.blocks[b]["t"]["k"] == "drop" and fn.blocks[b]["t"]["of"]["l"] == l and not fn.blocks[b]["t"]["of"]["p"])}
            # a move of the guard out of the local also ends this local's hold
            for b in sorted(fn.live):
                for st in fn.blocks[b]["s"]:
                    a = st["rv"].get("a") if st["rv"]["k"] == "use" else None
                    if isinstance(a, dict) and a.get("move") and a["move"]["l"] == l and not a["move"]["p"]:
                        ends.add(b)
                t = fn.blocks[b]["t"]
                if t["k"] == "call" and any(isinstance(a, dict) and a.get("move") and a["move"]["l"] == l and not a["move"]["p"] for a in t.get("args", [])):
                    ends.add(b)
            held = set()
            for d in defs:
                t_d = fn.blocks[d]["t"]
                ends_here = (t_d["k"] == "drop" and t_d["of"]["l"] == l) or (t_d["k"] == "call" and any(isinstance(a, dict) and a.get("move") and a["move"]["l"] == l and not a["move"]["p"] for a in t_d.get("args", [])))
                if ends_here and not any(k == "t" for (b, k, st) in fn.whole_defs(l) if b == d):
                    continue    # defined by a statement and consumed by the terminator of the same block
                held |= fn.reach_from_succ(d, removed_nodes=ends)
            bad = [c for c in runs if c.block in held]
            name = fn.locals[l]["name"] or "_%d" % l
            if bad:
                ctx.bad("stdin-lock|held-while-running|%s" % parent_fn(fn.id), fn.where(bad[0].block), "%s still holds the stdin lock (`%s`) when it calls %s: a read_line in the program then blocks on the same lock for ever (a script piped into `naija -` that reads input hangs)" % (parent_fn(fn.id).split("::")[-1], name, (bad[0].callee or "").split("::")[-1]))
            else:
                ctx.ok("stdin-lock|released-before-running|%s" % parent_fn(fn.id), fn.where(defs[0]) if defs else fn.where(), "the guard `%s` is dropped before the program is started" % name)
    if n == 0:
        ctx.ok("stdin-lock|none", "src/bin", "no body of the CLI holds a StdinLock")


def r6_lossy_decoding_drops_nothing(ctx):
    """Input that is not valid UTF-8 still arrives: the valid stretches unchanged, every invalid stretch as U+FFFD.  In the
    lossy decoder the replacement is appended under exactly "the invalid part of this chunk is not empty" - a narrower test
    (`len > 1`) deletes the shorter invalid sequences from the line - and the valid part of every chunk is appended
    unconditionally inside the loop."""
    fn = ctx.need("arena::string::ArenaString::from_utf8_lossy")
    ctx.touch(fn)
    pushes = [c for c in fn.calls() if (c.callee or "").endswith("push_str") and len(c.args) > 1]
    rep = [c for c in pushes if "REPLACEMENT" in sh(ne(fn.deep(c.args[1]))) or "FFFD" in sh(ne(fn.deep(c.args[1]))).upper()]
    val = [c for c in pushes if re.search(r"\bvalid\(", sh(ne(fn.deep(c.args[1]))))]
    if not rep or not val:
        ctx.bad("lossy|shape", fn.where(), "from_utf8_lossy no longer appends both the valid part of a chunk and the replacement character")
        return
    for c in rep:
        conds = []
        for S, al in fn.constraints(c.block):
            si = fn.switch_info(S)
            txt = sh(ne(fn.deep(fn.blocks[S]["t"]["d"])))
            if "invalid(" not in txt:
                continue
            if si["kind"] == "call" and (si["callee"] or "").split("::")[-1] == "is_empty":
                conds.append(("nonempty" if set(al) == {0} else "empty", S))
            elif si["kind"] == "bin":
                a, b = si["a"], si["b"]
                k = b.get("int") if isinstance(b, dict) else None
                flip = False
                if k is None and isinstance(a, dict) and a.get("int") is not None:
                    k, flip = a["int"], True
                op = si["op"] if not flip else {"Gt": "Lt", "Ge": "Le", "Lt": "Gt", "Le": "Ge", "Eq": "Eq", "Ne": "Ne"}[si["op"]]
                taken_true = 0 not in al
                # which lengths reach the push?
                lens = [n_ for n_ in range(0, 5) if ({"Gt": n_ > k, "Ge": n_ >= k, "Lt": n_ < k, "Le": n_ <= k, "Eq": n_ == k, "Ne": n_ != k}[op]) == taken_true] if k is not None else None
                conds.append(("nonempty" if lens == [1, 2, 3, 4] else "lengths %s" % lens, S))
            else:
                conds.append(("other", S))
        last = conds[-1] if conds else None
        if last and last[0] == "nonempty" and all(k == "nonempty" for k, _s in conds[-1:]):
            ctx.ok("lossy|replacement-guard", fn.where(c.block), "U+FFFD appended exactly when invalid() is not empty")
        else:
            ctx.bad("lossy|replacement-guard|%s" % (last[0] if last else "unguarded"), fn.where(c.block), "the replacement character is appended under `%s` instead of \"the invalid part is not empty\": invalid sequences of the other lengths vanish from the line read (a lone 0xE9 from a Latin-1 file is deleted instead of becoming U+FFFD)" % (last[0] if last else "no test"))
    # the valid part: appended on every iteration (dominates the loop's continuation), under no test on the chunk
    for c in val:
        extra = [S for S, al in fn.constraints(c.block) if "valid(" in sh(ne(fn.deep(fn.blocks[S]["t"]["d"]))) and not fn.dominates(c.block, S) and "invalid(" not in sh(ne(fn.deep(fn.blocks[S]["t"]["d"])))]
        if extra:
            ctx.bad("lossy|valid-conditional", fn.where(c.block), "the valid part of a chunk is appended only under a test on it")
        else:
            ctx.ok("lossy|valid-appended", fn.where(c.block), "valid part appended for every chunk")


def r7_reads_in_one_expression_arrive_in_source_order(ctx):
    """`read_line("") add "=" add read_line("")`: the left operand is evaluated - and its line consumed - before the right one
    (shared with C01-R4, the evaluation-order rule: operands, arguments, elements and index expressions left to right)."""
    from .c01 import r4_order_shortcircuit_zero
    r4_order_shortcircuit_zero(ctx)


def r8_children_take_input_only_when_told(ctx):
    """Standard input is shared with every child process that inherits it: a child started after `stdin_null()` /
    `stdin_text(..)` must not get the interpreter's fd 0, or it consumes lines the program's next read_line was to return.
    Shared with C15-R9 (method name -> policy, policy copied as itself by clone_into, policy -> Stdio unconditionally)."""
    from .c15 import r9_names_reach_their_policy
    r9_names_reach_their_policy(ctx)


def r9_a_line_that_was_read_stays_intact(ctx):
    """A line returned by read_line lives on the frame arena until it is stored; what the program later sees is that line only
    if every store promotes it and no frame reset comes before the copy (a `return read_line("")` from inside a loop, a line
    pushed into an array by a function).  Shared with C02-R4 (resets) and C02-R5 (promotion is complete)."""
    from .c02 import r4_resets, r5_promotion_complete
    r4_resets(ctx)
    r5_promotion_complete(ctx)


def r10_no_read_is_lost_to_the_front_end(ctx):
    """Two ways a read_line call can vanish or be fed the wrong text before the program even runs: (a) the control-flow graph
    the pruner works on calls the statements after an `if` unreachable - they are removed without any look at their effects,
    a `make value get read_line("")` included (shared with C03-R5 / R5c: loop and if shapes of the graph); (b) a script piped
    into `naija -` is cut at the first short read, and the rest of its text is what read_line then returns (shared with
    C14-R2: the stdin route reads to the end and validates once)."""
    from .c03 import r5_loop_cfg_shape, r5c_if_branches_flow_into_the_join_from_their_ends
    from .c14 import r2_same_wiring
    r5_loop_cfg_shape(ctx)
    r5c_if_branches_flow_into_the_join_from_their_ends(ctx)
    r2_same_wiring(ctx)


RULES = [("C17-R1", r1_no_discarded_overread), ("C17-R2", r2_terminator_and_eof), ("C17-R3", r3_each_byte_once_and_unchanged), ("C17-R4", r4_reads_are_never_pruned), ("C17-R5", r5_no_stdin_lock_while_the_program_runs), ("C17-R6", r6_lossy_decoding_drops_nothing), ("C17-R7", r7_reads_in_one_expression_arrive_in_source_order), ("C17-R8", r8_children_take_input_only_when_told), ("C17-R9", r9_a_line_that_was_read_stays_intact), ("C17-R10", r10_no_read_is_lost_to_the_front_end)]

EXPLANATION = (
    "R1: in the host implementation of Stdin::read_line (resolved through the sys::stdin alias from GlobalBuiltin::read_line) "
    "bytes of standard input may be obtained only from std's process-wide buffered handle, or by a raw read of exactly one "
    "byte, or by a raw read whose surplus is carried in a static to the next call; a raw multi-byte read(2) on descriptor 0 "
    "followed by truncation at the first newline, with no carry-over state, discards everything after that newline. No other "
    "body of the library may read standard input. R2: the delimiter is byte 10 and the terminator is removed. Decides the "
    "structural cause of lost input; does not decide chunking behaviour as such (needs a pipe). R3: bytes looked at through "
    "fill_buf and copied into the line are consumed before anything else is read (else they are delivered twice); neither the "
    "platform routine nor the built-in wrapper edits the content of the line (trim / replace / truncate ...), the terminator is "
    "removed by position only, and a pop is guarded by `last == newline`."
)
EXPLANATION += (
    " R4 also shares C03-R1 (a statement's class is joined with the callees' transitive class). R6: the lossy decoder appends U+FFFD under exactly 'the invalid part of the chunk is not empty' and the valid part of every chunk unconditionally. R7 (= C01-R4): operands are evaluated left to right, so two reads in one expression arrive in source order."
)
ASSUMPTIONS = ["unix back end only (windows/wasm implementations are not compiled on this host)", "std's Stdin buffer is process-wide and keeps unread bytes between calls"]
TRUSTED = ["rustc nightly MIR/trait resolution", "nsx exporter"]
NONTRIVIAL = "one obligation per input source call site and per line-handling clause"
EXPLANATION += (
    " R8 shares C15-R9 (a child gets the interpreter's stdin only when the script says so). R9 shares C02-R4/R5 (a line that was read stays intact until stored)."
)
EXPLANATION += (
    " R10 shares C03-R5 / R5c (the statements after an `if` stay reachable in the pruner's graph) and C14-R2 (the stdin route reads the script to the end)."
)

"""C15 — child processes get exactly the configured argv, env, cwd and stdin."""
import re
import json

from ..guards import ne, sh
from ..mir import fields_read, parent_fn, show
from ..panics import label_names
from .c08 import propagated

RUN_TRAIT = "sys::ProcessRunner::run"
RUNNER = "<sys::unix::UnixProcessRunner as sys::ProcessRunner>::run"
HOST = "sys::process_common::run_host_process"
COMMAND_OK = {"new", "args", "current_dir", "env", "stdin", "stdout", "stderr", "spawn"}
SHELLISH = ("\"sh\"", "\"/bin/sh\"", "\"-c\"", "\"cmd\"", "\"cmd.exe\"", "\"/C\"", "\"bash\"", "\"powershell\"", "\"/usr/bin/env\"")

# cap -> word that must occur in the text it bounds (the subject of its comparison)
CAP_SUBJECT = {
    "max_program_bytes": "self.program", "max_args": "len(self.args)", "max_env_pairs": "len(self.env)",
    "max_arg_bytes": "self.args", "max_total_arg_bytes": "total_arg_bytes", "max_cwd_bytes": "self.cwd",
    "max_env_key_bytes": ".key", "max_env_value_bytes": ".value", "max_total_env_bytes": "total_env_bytes",
    "max_stdin_bytes": "self.stdin", "max_timeout_ms": "timeout_ms",
}


def r1_gate(ctx):
    f = ctx.need("runtime::Runtime::eval_process_command_call")
    ctx.touch(f)
    runs = [c for c in f.calls() if c.declared == RUN_TRAIT or (c.callee or "").endswith("ProcessRunner>::run")]
    if not runs:
        ctx.bad("no-run-call", f.where(), "eval_process_command_call no longer reaches the process runner")
        return
    for c in runs:
        # policy gate: switch on self.host_policy.allow_process, true edge
        gate = False
        for S, al in f.constraints(c.block):
            si = f.switch_info(S)
            txt = si.get("str") or ""
            if si["kind"] == "place" and "allow_process" in txt and 0 not in al:
                gate = True
        if gate:
            ctx.ok("gate|allow_process", f.where(c.block), "spawn edge-dominated by host_policy.allow_process == true")
        else:
            ctx.bad("gate|allow_process", f.where(c.block), "the process runner is reachable without passing `host_policy.allow_process`")
        vals = [v for v in f.calls_to("process::ProcessCommand::validate") if f.dominates(v.block, c.block)]
        if vals and propagated(f, follow_map_err(f, vals[0])):
            spec = sh(ne(f.deep(c.args[0])))
            if "validate" in spec:
                ctx.ok("gate|validate", f.where(c.block), "runner receives the spec produced by validate(..)? ")
            else:
                ctx.bad("gate|validate-spec", f.where(c.block), "the spec handed to the runner is not the one validate returned (%s)" % spec)
        else:
            ctx.bad("gate|validate", f.where(c.block), "the process runner is reachable without a propagated validate(..)?")
        caps = sh(ne(f.deep(c.args[1])))
        vcaps = sh(ne(f.deep(vals[0].args[1]))) if vals else "?"
        if "host_policy.process" in caps and "host_policy.process" in vcaps:
            ctx.ok("gate|caps", f.where(c.block), "validate and run use host_policy.process")
        else:
            ctx.bad("gate|caps", f.where(c.block), "validate/run do not use the configured caps (%s / %s)" % (vcaps, caps))
    # the denied path reports ProcessDenied
    denied = "ProcessDenied" in json.dumps(f.m["blocks"])
    if denied:
        ctx.ok("gate|denied-error", f.where(), "Err(ProcessDenied) built in the body")
    else:
        ctx.bad("gate|denied-error", f.where(), "the denied path no longer reports ProcessDenied")
    # who may spawn
    n = 0
    for fn in ctx.lib.fns.values():
        for c in fn.calls():
            cal = c.callee or ""
            pid = parent_fn(fn.id)
            if cal.startswith("std::process::Command::") and cal.split("::")[-1] in ("new", "spawn", "output", "status"):
                n += 1
                if pid == HOST:
                    ctx.ok("who|Command::%s" % cal.split("::")[-1], fn.where(c.block), "inside run_host_process")
                else:
                    ctx.bad("who|Command::%s|%s" % (cal.split("::")[-1], pid), fn.where(c.block), "std::process::Command used outside run_host_process: a spawn route that bypasses gate and validation")
            if cal == HOST and pid != RUNNER:
                ctx.bad("who|run_host_process|%s" % pid, fn.where(c.block), "run_host_process called from outside the platform runner")
            if (c.declared == RUN_TRAIT or cal.endswith("ProcessRunner>::run")) and pid != "runtime::Runtime::eval_process_command_call":
                ctx.bad("who|runner|%s" % pid, fn.where(c.block), "process runner invoked from outside the `run` arm of the command dispatcher")
    ctx.floor("Command::new/spawn sites", n, 2)


def follow_map_err(f, call):
    """validate(..).map_err(..)? : return the map_err call if the result goes through one."""
    dl = call.dest["l"]
    for c in f.calls():
        if (c.callee or "").endswith("Result::map_err") and c.args:
            pl = c.args[0].get("move") or c.args[0].get("copy")
            if pl is not None and pl["l"] == dl:
                return c
    return call


def r2_no_shell(ctx):
    f = ctx.need(HOST)
    fam = [f] + [ctx.lib.fns[k] for k in ("sys::process_common::configure_stdio", "sys::process_common::output_stdio") if k in ctx.lib.fns]
    for g in fam:
        ctx.touch(g)
    new = f.calls_to("std::process::Command::new")
    if len(new) != 1:
        ctx.bad("command-new-count|%d" % len(new), f.where(), "run_host_process builds %d commands" % len(new))
    for c in new:
        prog = sh(ne(f.deep(c.args[0])))
        if prog == "spec.program":
            ctx.ok("program-operand", f.where(c.block), "Command::new(spec.program)")
        else:
            ctx.bad("program-operand", f.where(c.block), "the spawned program is `%s`, not the script's program string" % prog)
    for c in f.calls_to("std::process::Command::args"):
        a = sh(ne(f.deep(c.args[1])))
        if "spec.args" in a and "as_str" in str(f.deep(c.args[1])):
            ctx.ok("args-operand", f.where(c.block), "args(spec.args.iter().map(as_str))")
        else:
            ctx.bad("args-operand", f.where(c.block), "the argument list handed to the child is `%s`, not spec.args mapped through as_str" % a)
    for c in f.calls_to("std::process::Command::env"):
        k = sh(ne(f.deep(c.args[1])))
        v = sh(ne(f.deep(c.args[2])))
        if ".key" in k and ".value" in v and "spec.env" in k and "spec.env" in v:
            ctx.ok("env-operand", f.where(c.block), "env(pair.key, pair.value) over spec.env")
        else:
            ctx.bad("env-operand", f.where(c.block), "env override passes (%s, %s)" % (k, v))
    for c in f.calls_to("std::process::Command::current_dir"):
        d = sh(ne(f.deep(c.args[1])))
        if "spec.cwd" in d:
            ctx.ok("cwd-operand", f.where(c.block), "current_dir(spec.cwd)")
        else:
            ctx.bad("cwd-operand", f.where(c.block), "working directory is `%s`" % d)
    used = set()
    for g in fam:
        for c in g.calls():
            cal = c.callee or ""
            if cal.startswith("std::process::Command::"):
                used.add(cal.split("::")[-1])
        txt = json.dumps(g.m["blocks"])
        for w in SHELLISH:
            if w.replace('"', '\\"') in txt:
                ctx.bad("shell-constant|%s" % w.strip('"'), g.where(), "string constant %s in the spawn path: the command may be routed through a shell" % w)
    extra = used - COMMAND_OK
    missing = {"new", "args", "current_dir", "env", "spawn"} - used
    if extra:
        ctx.bad("command-methods|%s" % ",".join(sorted(extra)), f.where(), "unexpected Command methods %s (arg0/env_clear/arg(..) would change what the child receives)" % sorted(extra))
    elif missing:
        ctx.bad("command-methods-missing|%s" % ",".join(sorted(missing)), f.where(), "the spawn path no longer calls Command::%s: part of the configuration is not delivered" % sorted(missing))
    else:
        ctx.ok("command-methods", f.where(), "Command methods used: %s" % sorted(used))


CAP_KIND = {
    "max_program_bytes": "named_text", "max_arg_bytes": "named_text", "max_cwd_bytes": "named_text", "max_env_key_bytes": "named_text",
    "max_env_value_bytes": "named_text", "max_stdin_bytes": "named_text", "max_args": "count", "max_env_pairs": "count",
    "max_total_arg_bytes": "inline", "max_total_env_bytes": "inline", "max_timeout_ms": "inline",
}


def r3_caps(ctx):
    v = ctx.need("process::ProcessCommand::validate")
    ctx.touch(v)
    caps_fields = ctx.lib.fields("process::ProcessCaps")
    maxes = [f for f in caps_fields if f.startswith("max_") and f != "max_capture_bytes_per_stream"]
    seen = {}
    # a loop written as a fold (`self.args.iter().try_fold(0, |total, arg| ..)`) runs its body in a closure of validate: the
    # closure's calls are read with its captures resolved, and its item parameter stands for an element of what is folded
    fam = [v] + [g for g in ctx.lib.closures_of(v.id)]

    def txt(g, op):
        t = sh(ne(g.deep(op)))
        if g is not v:
            t = ctx.lib.captured_text(g, t).replace("*caps.", "caps.").replace("&caps.", "caps.")
            folded = [sh(ne(v.deep(c2.args[0]))) for c2 in v.calls() if (c2.callee or "").split("::")[-1] in ("try_fold", "fold", "try_for_each", "for_each", "all", "any") and g.id.rsplit("::", 1)[-1] in sh(ne(v.deep(c2.args[-1])))]
            params = [l["name"] for l in g.locals[2:g.argc + 1] if l.get("name")]
            if folded and params:
                t = re.sub(r"\b%s\b" % re.escape(params[-1]), "item(%s)" % folded[0], t)
        return t
    for g in fam:
        for c in g.calls():
            if c.callee == "process::validate_named_text":
                cap = txt(g, c.args[2])
                subj = txt(g, c.args[1])
                flags = (c.args[3].get("int"), c.args[4].get("int"))
                for f in maxes:
                    if cap == "caps." + f:
                        seen.setdefault(f, []).append(("named_text", subj, (g, c), flags))
            elif c.callee == "process::validate_count":
                cap = txt(g, c.args[1])
                subj = txt(g, c.args[0])
                for f in maxes:
                    if cap == "caps." + f:
                        seen.setdefault(f, []).append(("count", subj, (g, c), None))
    for b in sorted(v.live):
        for s in v.blocks[b]["s"]:
            rv = s["rv"]
            if rv["k"] == "bin" and rv["op"] in ("Gt", "Ge", "Lt", "Le"):
                a = sh(ne(v.deep(rv["a"])))
                bb = sh(ne(v.deep(rv["b"])))
                for f in maxes:
                    if bb == "caps." + f or a == "caps." + f:
                        right = bb == "caps." + f
                        # (the subject also under the name it has in the source: a total that is the result of a fold)
                        named = sh(ne(v.expr(rv["a"] if right else rv["b"], 2)))
                        seen.setdefault(f, []).append(("inline", (a if right else bb) + ("  [%s]" % named if named not in (a, bb) else ""), (b, rv["op"], right, s["lhs"]["l"]), None))
    for f in maxes:
        if f not in seen:
            ctx.bad("cap-unused|%s" % f, v.where(), "ProcessCaps.%s is not enforced in validate: that limit refuses nothing" % f)
            continue
        for kind, subj, site, flags in seen[f]:
            want = CAP_SUBJECT.get(f)
            if want and want not in subj:
                ctx.bad("cap-subject|%s" % f, v.where(), "ProcessCaps.%s bounds `%s` instead of %s" % (f, subj, want))
                continue
            if CAP_KIND.get(f) == "named_text" and kind != "named_text":
                ctx.bad("cap-text-unchecked|%s" % f, v.where(), "the text bounded by ProcessCaps.%s (`%s`) is only length-checked (%s): the NUL / empty / `=` tests of validate_named_text no longer run before the spawn" % (f, subj, kind))
                continue
            if kind == "inline":
                b, op, right, dl = site
                strict = (op == "Gt" and right) or (op == "Lt" and not right)
                if not strict:
                    ctx.bad("cap-operator|%s|%s" % (f, op), v.where(b), "ProcessCaps.%s compared with %s: a value exactly at the limit is refused (or one above it accepted)" % (f, op))
                    continue
                # true outcome -> Err(SpecInvalid)
                ok = False
                for S in sorted(v.live):
                    t = v.blocks[S]["t"]
                    if t["k"] == "switch":
                        pl = t["d"].get("move") or t["d"].get("copy")
                        if pl and pl["l"] == dl:
                            for lab, tgt in v.succ[S]:
                                if lab != 0 and "SpecInvalid" in json.dumps([v.blocks[x]["s"] for x in v.reach([tgt], removed_nodes=[S]) if v.edge_dominated(x, S, [lab])]):
                                    ok = True
                if ok:
                    ctx.ok("cap|%s" % f, v.where(b), "inline: %s > caps.%s -> Err(SpecInvalid)" % (subj, f))
                else:
                    ctx.bad("cap-outcome|%s" % f, v.where(b), "exceeding ProcessCaps.%s does not return Err(SpecInvalid)" % f)
            else:
                g, c = site
                # inside a fold's closure `?` leaves the closure; the fold stops at the first Err and hands it back, and that
                # result has to be propagated by validate in turn
                outer = True
                if g is not v:
                    fc = [c2 for c2 in v.calls() if (c2.callee or "").split("::")[-1] in ("try_fold", "try_for_each") and g.id.rsplit("::", 1)[-1] in sh(ne(v.deep(c2.args[-1])))]
                    outer = bool(fc) and all(propagated(v, c2) for c2 in fc)
                if propagated(g, c) and outer:
                    ctx.ok("cap|%s" % f, v.where(c.block), "%s(%s, caps.%s)?" % (kind, subj, f))
                else:
                    ctx.bad("cap-not-propagated|%s" % f, v.where(c.block), "the result of validating %s against ProcessCaps.%s is not propagated" % (subj, f))
                if kind == "named_text":
                    allow_empty, forbid_eq = flags
                    want_flags = {"max_program_bytes": (0, 0), "max_cwd_bytes": (0, 0), "max_env_key_bytes": (0, 1),
                                  "max_arg_bytes": (1, 0), "max_env_value_bytes": (1, 0), "max_stdin_bytes": (1, 0)}.get(f)
                    if want_flags and (allow_empty, forbid_eq) != want_flags:
                        ctx.bad("name-flags|%s" % f, v.where(c.block), "validate_named_text flags for %s are (allow_empty=%s, forbid_equals=%s), expected %s: an empty program/cwd/key or a key containing `=` would be accepted" % (subj, allow_empty, forbid_eq, want_flags))
                    elif want_flags:
                        ctx.ok("name-flags|%s" % f, v.where(c.block), "allow_empty=%s forbid_equals=%s" % (allow_empty, forbid_eq))
    ctx.floor("max_* caps enforced in validate", len([f for f in maxes if f in seen]), 11)
    # helpers: strict comparison against the parameter, NUL / '=' / empty tests
    for hid, maxname in (("process::validate_named_text", "max_bytes"), ("process::validate_count", "max")):
        h = ctx.need(hid)
        ctx.touch(h)
        cmps = []
        for b in sorted(h.live):
            for s in h.blocks[b]["s"]:
                rv = s["rv"]
                if rv["k"] == "bin" and rv["op"] in ("Gt", "Ge", "Lt", "Le"):
                    a = sh(ne(h.deep(rv["a"])))
                    bb = sh(ne(h.deep(rv["b"])))
                    if maxname in (a, bb):
                        cmps.append((b, rv["op"], bb == maxname, a if bb == maxname else bb))
        if len(cmps) != 1:
            ctx.bad("helper-compare|%s|%d" % (hid.split("::")[-1], len(cmps)), h.where(), "%s compares against its limit %d times" % (hid, len(cmps)))
        for b, op, right, other in cmps:
            # normalise to  len <op> max  and find which outcome builds the Err
            nop = op if right else {"Gt": "Lt", "Ge": "Le", "Lt": "Gt", "Le": "Ge"}[op]
            S = None
            for cand in sorted(h.live):
                if h.blocks[cand]["t"]["k"] == "switch" and (cand == b or h.dominates(b, cand)):
                    si = h.switch_info(cand)
                    if si["kind"] == "bin" and si["block"] == b if "block" in si else si["kind"] == "bin":
                        S = cand
                        break
            err_on = None
            if S is not None:
                for lab, tgt in h.succ[S]:
                    region = [x for x in h.reach([tgt], removed_nodes=[S]) if h.edge_dominated(x, S, [lab])] + [tgt]
                    if any(st["rv"]["k"] == "agg" and st["rv"].get("variant") == "Err" for x in region for st in h.blocks[x]["s"]):
                        err_on = (lab != 0)
                if err_on is None:
                    # the refusing arm may be shared with another failure (`Ok(len) if len <= max => Ok(len), _ => Err(..)`):
                    # the outcome that refuses is the one from which no Ok(..) can be built any more
                    dead_ends = []
                    for lab, tgt in h.succ[S]:
                        reach = h.reach([tgt], removed_nodes=[S])
                        oks = any(st["rv"]["k"] == "agg" and st["rv"].get("variant") == "Ok" and st["lhs"]["l"] == 0 for x in reach for st in h.blocks[x]["s"])
                        errs = any(st["rv"]["k"] == "agg" and st["rv"].get("variant") == "Err" for x in reach for st in h.blocks[x]["s"])
                        if errs and not oks:
                            dead_ends.append(lab)
                    if len(dead_ends) == 1:
                        err_on = (dead_ends[0] != 0)
            # the caps are byte limits: what is compared is the byte length of the text, not a count of characters
            if hid.endswith("validate_named_text"):
                if re.search(r"\blen\(value\)", other) and not re.search(r"\b(count|chars|char_indices)\(", other):
                    ctx.ok("helper-unit|validate_named_text", h.where(b), "compares the byte length len(value)")
                else:
                    ctx.bad("helper-unit|validate_named_text", h.where(b), "validate_named_text compares `%s` with its byte limit: the max_*_bytes caps bound the size in bytes, and a count of characters lets non-ASCII text through at up to four times the limit" % other[:70])
            # refusal exactly when len > max:  (Gt, Err on true)  or  (Le, Err on false)
            if (nop == "Gt" and err_on is True) or (nop == "Le" and err_on is False):
                ctx.ok("helper-compare|%s" % hid.split("::")[-1], h.where(b), "%s > %s -> Err" % (other, maxname))
            else:
                ctx.bad("helper-operator|%s|%s" % (hid.split("::")[-1], nop + ("" if err_on is None else ("/err-on-true" if err_on else "/err-on-false"))), h.where(b), "%s refuses when `len %s max` is %s (must refuse exactly when len > max)" % (hid, {"Gt": ">", "Ge": ">=", "Lt": "<", "Le": "<="}[nop], err_on))
    h = ctx.need("process::validate_named_text")
    tests = {}
    for c in h.calls():
        short = (c.callee or "").split("::")[-1]
        if short == "contains" and len(c.args) > 1:
            ch = c.args[1].get("const", "")
            tests[ch] = c
        if short == "is_empty":
            tests["is_empty"] = c
    for want, label in (("'\\0'", "NUL byte"), ("'='", "equals sign"), ("is_empty", "empty text")):
        c = tests.get(want)
        if c is None:
            ctx.bad("helper-test|%s" % label, h.where(), "validate_named_text no longer tests for %s" % label)
        else:
            ctx.ok("helper-test|%s" % label, h.where(c.block), "%s test present" % label)
    # the default: a command without timeout_ms() runs under caps.default_timeout_ms (not under the maximum, not unbounded)
    fb = [c for c in v.calls() if (c.callee or "").split("::")[-1] in ("unwrap_or", "unwrap_or_else", "map_or", "unwrap_or_default") and "timeout_ms" in sh(ne(v.deep(c.args[0])))]
    if fb and len(fb[0].args) > 1 and sh(ne(v.deep(fb[0].args[1]))) == "caps.default_timeout_ms":
        ctx.ok("default-timeout", v.where(fb[0].block), "timeout_ms.unwrap_or(caps.default_timeout_ms)")
    else:
        ctx.bad("default-timeout|%s" % (sh(ne(v.deep(fb[0].args[1])))[:30] if fb and len(fb[0].args) > 1 else "none"), v.where(fb[0].block if fb else None), "a command that sets no timeout does not fall back to ProcessCaps.default_timeout_ms (%s): it runs under a different limit than the host configured as the default" % (sh(ne(v.deep(fb[0].args[1])))[:40] if fb and len(fb[0].args) > 1 else "no fallback found"))
    # every cap configures something: each field of ProcessCaps is read by validate or by the runner
    rd_v = dict(fields_read(v, "ProcessCaps"))
    for g in ctx.lib.closures_of(v.id):
        rd_v.update(fields_read(g, "ProcessCaps"))
    rd_r = fields_read(ctx.need(HOST), "ProcessCaps")
    for fld in caps_fields:
        if fld in rd_v or fld in rd_r:
            ctx.ok("cap-read|%s" % fld, v.where(), "read by %s" % ("validate" if fld in rd_v else "the runner"))
        else:
            ctx.bad("cap-read|%s" % fld, v.where(), "ProcessCaps.%s is read neither by validate nor by the runner: the host's setting has no effect" % fld)
    # runner-side caps
    f = ctx.need(HOST)
    rd = fields_read(f, "ProcessCaps")
    for cap in ("max_capture_bytes_per_stream", "wait_poll_ms"):
        if cap in rd:
            ctx.ok("runner-cap|%s" % cap, f.where(rd[cap][0]), "read in run_host_process")
        else:
            ctx.bad("runner-cap|%s" % cap, f.where(), "ProcessCaps.%s is not used by the runner" % cap)


def r3b_refusal_before_spawn(ctx):
    """A refusal (SpecInvalid / Denied) may only be produced before anything is spawned."""
    reach = ctx.lib.reachable_from([HOST])
    n = 0
    for fid in sorted(reach):
        for fn in ([ctx.lib.fns[fid]] if fid in ctx.lib.fns else []) + ctx.lib.closures_of(fid):
            for b in sorted(fn.live):
                for s2 in fn.blocks[b]["s"]:
                    rv = s2["rv"]
                    if rv["k"] == "agg" and rv["adt"].endswith("ProcessError") and rv["variant"] in ("SpecInvalid", "Denied"):
                        n += 1
                        ctx.bad("late-refusal|%s|%s" % (parent_fn(fn.id), rv["variant"]), fn.where(b), "ProcessError::%s is produced inside the spawn path (%s): the command is refused only after the child may already be running" % (rv["variant"], parent_fn(fn.id)))
    if n == 0:
        ctx.ok("no-late-refusal", ctx.need(HOST).where(), "no SpecInvalid/Denied is constructed in %d bodies reachable from run_host_process" % len(reach))


def r4_nothing_dropped(ctx):
    v = ctx.need("process::ProcessCommand::validate")
    cmd_fields = ctx.lib.fields("process::ProcessCommand")
    spec_fields = ctx.lib.fields("process::ProcessSpec")
    # the Ok(ProcessSpec{..}) aggregate
    agg = None
    for b in sorted(v.live):
        for s in v.blocks[b]["s"]:
            if s["rv"]["k"] == "agg" and s["rv"]["adt"].endswith("ProcessSpec"):
                agg = (b, s["rv"])
    if agg is None:
        ctx.bad("spec-aggregate", v.where(), "validate no longer builds a ProcessSpec")
    else:
        b, rv = agg
        for name, op in zip(spec_fields, rv["ops"]):
            txt = sh(ne(v.deep(op)))
            txt = " | ".join(sh(ne(e)) for e in v.alt_exprs(op))
            want = "self.%s" % name
            if want in txt or (name == "timeout_ms" and "self.timeout_ms" in txt):
                ctx.ok("spec-field|%s" % name, v.where(b), "ProcessSpec.%s <- %s" % (name, txt[:60]))
            else:
                ctx.bad("spec-field|%s" % name, v.where(b), "ProcessSpec.%s is built from `%s`, not from the command's own %s" % (name, txt[:80], name))
    f = ctx.need(HOST)
    rd = {}
    for g in ctx.lib.family(HOST) + [ctx.lib.fns[k] for k in ("sys::process_common::configure_stdio",) if k in ctx.lib.fns]:
        for k2, v2 in fields_read(g, "ProcessSpec").items():
            rd.setdefault(k2, []).extend(v2)
    for name in spec_fields:
        if name in rd:
            ctx.ok("runner-reads|%s" % name, f.where(), "ProcessSpec.%s consumed by the runner" % name)
        else:
            ctx.bad("runner-reads|%s" % name, f.where(), "ProcessSpec.%s is never read by the runner: that part of the configuration does not reach the child" % name)
    ci = ctx.need("process::ProcessCommand::clone_into")
    ctx.touch(ci)
    rd = fields_read(ci, "ProcessCommand")
    for name in cmd_fields:
        if name in rd:
            ctx.ok("clone-reads|%s" % name, ci.where(), "copied")
        else:
            ctx.bad("clone-reads|%s" % name, ci.where(), "ProcessCommand::clone_into drops `%s` (a command is cloned on every variable read, so the setting is lost before `run`)" % name)
    ctx.floor("ProcessSpec fields", len(spec_fields), 8)


def r5_set_env(ctx):
    f = ctx.need("process::ProcessCommand::set_env")
    ctx.touch(f)
    has_find = any((c.callee or "").endswith("::find") for c in f.calls())
    has_rev = any((c.callee or "").endswith("Iterator::rev") for c in f.calls())
    push = [c for c in f.calls() if (c.callee or "").endswith("Vec::push")]
    assign = False
    for b in sorted(f.live):
        for s in f.blocks[b]["s"]:
            if any(isinstance(e, dict) and e.get("f") == "value" for e in s["lhs"]["p"]):
                assign = True
    # the key comparison of the search is exact equality on (pair.key, key)
    preds = []
    for k in ctx.lib.closures_of("process::ProcessCommand::set_env"):
        ctx.touch(k)
        for c in k.calls():
            short = (c.callee or "").split("::")[-1]
            if short in ("as_str", "deref", "as_ref", "borrow", "as_bytes"):
                continue
            preds.append((short, c.callee, [sh(ne(k.deep(a))) for a in c.args]))
    exact = [p for p in preds if p[0] == "eq" and "PartialEq" in p[1] or p[0] == "eq" and "str" in p[1]]
    other = [p for p in preds if p not in exact]
    if len(exact) == 1 and not other and any(".key" in a for a in exact[0][2]):
        ctx.ok("set_env|exact-key-match", f.where(), "existing pair found by exact key equality")
    else:
        ctx.bad("set_env|key-match|%s" % ",".join(sorted(p[0] for p in preds)), f.where(), "set_env finds the existing pair with %s instead of exact key equality: distinct keys can overwrite each other (or equal keys not be found)" % [p[1] for p in preds])
    if has_find and push and assign:
        ctx.ok("set_env|update-or-push", f.where(), "existing key: value overwritten; otherwise pushed")
    else:
        ctx.bad("set_env|update-or-push", f.where(), "set_env no longer overwrites the value of an existing key (find=%s assign=%s push=%s): last write per key would not win" % (has_find, assign, bool(push)))
    for c in push:
        # the push must be on the None outcome of the search
        ok = False
        for S, al in f.constraints(c.block):
            si = f.switch_info(S)
            if si["kind"] == "discr" and si["ty"].endswith("Option"):
                from ..panics import label_names
                if label_names(f, S, al, si) == {"None"}:
                    ok = True
        if ok:
            ctx.ok("set_env|push-only-when-absent", f.where(c.block), "push under search == None")
        else:
            ctx.bad("set_env|push-only-when-absent", f.where(c.block), "set_env pushes a pair even when the key exists")


def r6_configured_text_outlives_configuration(ctx):
    """What the script configured is what the child gets only if the text stored in the command is still there when run() is
    called: it must live on the persistent arena like the command itself (shared with C02-R1, host-store)."""
    from .c02 import host_value_storage
    host_value_storage(ctx)


def r3c_totals_compared_after_accumulation(ctx):
    """A cap on a *total* (argument bytes, environment bytes) is compared when the total is complete: every path from an
    addition to the accepting return passes a comparison of that total with its cap afterwards.  A comparison that only sits
    before the addition (a fail-fast test at the top of the loop body) never sees the last summand."""
    v = ctx.need("process::ProcessCommand::validate")
    ctx.touch(v)
    adds = [c for c in v.calls() if (c.callee or "").split("::")[-1] in ("checked_add", "saturating_add", "wrapping_add")]
    adds += []
    n = 0
    ok_exits = set()
    for b in sorted(v.live):
        for st in v.blocks[b]["s"]:
            if st["lhs"]["l"] == 0 and not st["lhs"]["p"] and st["rv"]["k"] == "agg" and st["rv"].get("variant") == "Ok":
                ok_exits.add(b)
    for c in adds:
        total = sh(ne(v.deep(c.args[0])))
        # a sum built in steps (`let Some(with_key) = total.checked_add(k) else ..; with_key.checked_add(v)`): the total is the
        # variable the first step starts from
        while re.match(r"^(checked_add|saturating_add|wrapping_add)\(", total):
            inner = total[total.index("(") + 1:]
            depth, cut = 0, None
            for i_, ch in enumerate(inner):
                if ch in "([{":
                    depth += 1
                elif ch in ")]}":
                    depth -= 1
                elif ch == "," and depth == 0:
                    cut = i_
                    break
            if cut is None:
                break
            total = inner[:cut]
        cmps = []
        for S in sorted(v.live):
            if v.blocks[S]["t"]["k"] != "switch":
                continue
            si = v.switch_info(S)
            if si["kind"] == "bin" and si["op"] in ("Gt", "Ge", "Lt", "Le"):
                a, b2 = sh(ne(v.deep(si["a"]))), sh(ne(v.deep(si["b"])))
                if total in (a, b2) and ("caps." in a + b2):
                    cmps.append(S)
        n += 1
        if not cmps:
            ctx.bad("total|%s|uncompared" % total, v.where(c.block), "the accumulated `%s` is never compared with a cap" % total)
            continue
        r = v.reach_from_succ(c.block, removed_nodes=cmps)
        if r & ok_exits:
            ctx.bad("total|%s|compared-before-complete" % total, v.where(cmps[0]), "after the last addition to `%s` validate can accept the command without comparing the total with its cap again (the comparison sits before the addition): a command that exceeds the limit only through its last summand is spawned" % total)
        else:
            ctx.ok("total|%s|compared-after-accumulation" % total, v.where(cmps[0]), "every accepting path after an addition passes the comparison")
    # a total accumulated by a fold: the additions run in the closure, the total is what the fold hands back
    for c in v.calls():
        if (c.callee or "").split("::")[-1] not in ("try_fold", "fold"):
            continue
        m = re.search(r"(\{closure#\d+\})", sh(ne(v.deep(c.args[-1]))))
        clo = next((g for g in ctx.lib.closures_of(v.id) if m and g.id.endswith(m.group(1))), None)
        if clo is None or not any((c2.callee or "").split("::")[-1] in ("checked_add", "saturating_add", "wrapping_add") for c2 in clo.calls()):
            continue
        n += 1
        total = "%s(%s,..)" % ((c.callee or "").split("::")[-1], sh(ne(v.deep(c.args[0]))))
        head = "%s(%s," % ((c.callee or "").split("::")[-1], sh(ne(v.deep(c.args[0]))))
        cmps = []
        for S in sorted(v.live):
            if v.blocks[S]["t"]["k"] != "switch":
                continue
            si = v.switch_info(S)
            if si["kind"] == "bin" and si["op"] in ("Gt", "Ge", "Lt", "Le"):
                a, b2 = sh(ne(v.deep(si["a"]))), sh(ne(v.deep(si["b"])))
                if any(head in x for x in (a, b2)) and ("caps." in a + b2):
                    cmps.append(S)
        if not cmps:
            ctx.bad("total|%s|uncompared" % total, v.where(c.block), "the accumulated `%s` is never compared with a cap" % total)
        elif v.reach_from_succ(c.block, removed_nodes=cmps) & ok_exits:
            ctx.bad("total|%s|compared-before-complete" % total, v.where(cmps[0]), "validate can accept the command without comparing the folded total `%s` with its cap" % total)
        else:
            ctx.ok("total|%s|compared-after-accumulation" % total, v.where(cmps[0]), "every accepting path after the fold passes the comparison")
    ctx.floor("accumulated totals in validate", n, 2)


def r7_index_paths_walk_the_same_way(ctx):
    """`grid[i][j].arg(x)` configures the command at [i][j]: the three routines that walk an index path to a mutable place
    (get_mutable_array, get_mutable_process_command, assign_index) consume the path flatten_index_target returns in the same
    direction."""
    dirs = {}
    for name in ("get_mutable_array", "get_mutable_process_command", "assign_index"):
        f = ctx.need("runtime::Runtime::" + name)
        ctx.touch(f)
        its = []
        for c in f.calls():
            if (c.callee or "").split("::")[-1] == "next":
                t = sh(ne(f.deep(c.args[0])))
                if "flatten_index_target(" in t:
                    its.append(("rev" if re.search(r"\brev\(", t) else "fwd", c.block, t[:50]))
        dirs[name] = its
    # the absolute reference: flatten_index_target collects the subscripts while it descends from the outermost Index node
    # (last subscript first) and hands them out root-first iff it reverses the list before returning it
    fl = ctx.need("runtime::Runtime::flatten_index_target")
    ctx.touch(fl)
    reverses = sum(1 for c in fl.calls() if (c.callee or "").split("::")[-1] == "reverse") % 2 == 1
    want = "fwd" if reverses else "rev"
    for name, its in dirs.items():
        f = ctx.need("runtime::Runtime::" + name)
        got = [d for d, b, t in its]
        if not its:
            ctx.bad("index-path|%s|no-walk" % name, f.where(), "%s no longer walks the index path returned by flatten_index_target" % name)
        elif all(d == want for d in got):
            ctx.ok("index-path|%s" % name, f.where(its[0][1]), "walks the path %s (flatten_index_target returns it %s)" % ("/".join(got), "root-first" if reverses else "last subscript first"))
        else:
            ctx.bad("index-path|%s|direction|%s" % (name, "/".join(got)), f.where(its[0][1]), "%s walks the index path %s, but flatten_index_target returns the subscripts %s, so the walk from the variable has to consume them %s: with two or more subscripts the operation lands on the element at the reversed path (`grid[0][1].push(x)` changes grid[1][0])" % (name, "/".join(got), "root-first" if reverses else "last subscript first", want))


def r8_builder_calls_are_effects(ctx):
    """`c.env(k, v)`, `c.cwd(d)`, `c.arg(a)`, `c.stdin_text(t)`, `c.timeout_ms(n)` change the command they are called on.  The
    optimiser may drop a statement whose value is unused only if it has no effect: the effect table must class every
    configuring method as impure, or a configuration step whose (null) result is stored in an unused variable is pruned and
    the child runs without it (shared with C03-R2, which compares the effect tables with what the run-time arms do)."""
    from .c03 import r2_effect_tables
    r2_effect_tables(ctx)


def r9_names_reach_their_policy(ctx):
    """What a builder method is *called* decides what the child gets: the name table maps every documented method name to
    its own variant (reference/language.json; shared with C01-R5), the dispatcher's arm for a variant calls the setter of that
    stream with the policy of that name (StdinInherit -> set_stdin_policy(StdinPolicy::Inherit)), and the platform layer turns
    each policy into its own Stdio with no further condition (Text -> piped, Inherit -> inherit, Null -> null,
    Capture -> piped).  A method that lands on a sibling's variant, or a policy realised as another one for some inputs (an
    empty stdin text inheriting the interpreter's stdin), gives the child a stream the script did not configure."""
    import json
    import os
    from ..tables import hir_str_table
    ref = json.load(open(os.path.join(os.path.dirname(os.path.dirname(os.path.dirname(os.path.abspath(__file__)))), "reference", "language.json")))["builtins"]
    for en, path in (("ProcessCommandBuiltin", "builtins::process::ProcessCommandBuiltin"), ("ProcessResultBuiltin", "builtins::process::ProcessResultBuiltin")):
        fnm = ctx.need("<%s as builtins::Builtin>::from_name" % path)
        ctx.touch(fnm)
        tab = hir_str_table(fnm) or {}
        for name, (variant, _a, _r) in ref[en].items():
            if tab.get(name) == variant:
                ctx.ok("name|%s|%s" % (en, name), fnm.where(), "-> %s" % variant)
            else:
                ctx.bad("name|%s|%s|%s" % (en, name, tab.get(name)), fnm.where(), "`%s` resolves to %s::%s, documented %s: the script's call configures something else" % (name, en, tab.get(name), variant))
        for name in tab:
            if name not in ref[en]:
                ctx.bad("name|%s|extra|%s" % (en, name), fnm.where(), "undocumented method name `%s`" % name)
    fn = ctx.need("runtime::Runtime::eval_process_command_call_mut")
    ctx.touch(fn)
    n = 0
    for S in sorted(fn.live):
        if fn.blocks[S]["t"]["k"] != "switch":
            continue
        si = fn.switch_info(S)
        if not (si["kind"] == "discr" and si["ty"].endswith("ProcessCommandBuiltin")):
            continue
        # variants that share an arm (`StdoutCapture | StdoutInherit | StdoutNull => { .. match builtin { .. } }`): the arm is
        # entered by several labels, and an inner dispatch on the same value picks the policy
        by_target = {}
        for lab, tgt in fn.succ[S]:
            for nm in label_names(fn, S, [lab], si):
                by_target.setdefault(tgt, []).append((lab, nm))
        for tgt, members in sorted(by_target.items()):
            if len(members) < 2 or not all(re.match(r"(Stdin|Stdout|Stderr)(Inherit|Null|Capture|Text)$", nm) for _l, nm in members):
                continue
            labs = [l for l, _n in members]
            reg = {x for x in fn.reach([tgt], removed_nodes=[S]) if fn.edge_dominated(x, S, labs)} | {tgt}
            setters = sorted({(c.callee or "").split("::")[-1] for c in fn.calls() if c.block in reg and "ProcessCommand::" in (c.callee or "")})
            inner = [S2 for S2 in sorted(reg) if fn.blocks[S2]["t"]["k"] == "switch" and fn.switch_info(S2)["kind"] == "discr" and fn.switch_info(S2)["ty"].endswith("ProcessCommandBuiltin")]
            for _l, v in members:
                m = re.match(r"(Stdin|Stdout|Stderr)(Inherit|Null|Capture|Text)$", v)
                stream, pol = m.group(1).lower(), m.group(2)
                n += 1
                built = None
                for S2 in inner:
                    si2 = fn.switch_info(S2)
                    for lab2, tgt2 in fn.succ[S2]:
                        if set(label_names(fn, S2, [lab2], si2)) & {nm for _l2, nm in members} == {v}:
                            r2 = {x for x in fn.reach([tgt2], removed_nodes=[S2]) if fn.edge_dominated(x, S2, [lab2])} | {tgt2}
                            built = sorted({(str(st["rv"]["adt"]).split("::")[-1], st["rv"]["variant"]) for b in r2 for st in fn.blocks[b]["s"] if st["rv"]["k"] == "agg" and "Policy" in str(st["rv"].get("adt"))})
                want_pol = [("StdinPolicy" if stream == "stdin" else "OutputPolicy", pol)]
                if setters == ["set_%s_policy" % stream] and built == want_pol:
                    ctx.ok("arm|%s" % v, fn.where(tgt), "%s %s (shared arm, inner dispatch)" % (setters, built))
                else:
                    ctx.bad("arm|%s|%s|%s" % (v, ",".join(setters), ",".join("%s::%s" % p_ for p_ in (built or []))), fn.where(tgt), "the shared arm for %s calls %s with %s: the method configures another stream or another policy than its name says" % (v, setters, built))
        shared = {nm for members in by_target.values() if len(members) >= 2 for _l, nm in members}
        for lab, tgt in fn.succ[S]:
            names = label_names(fn, S, [lab], si)
            if len(names) != 1 or list(names)[0] in shared:
                continue
            v = list(names)[0]
            m = re.match(r"(Stdin|Stdout|Stderr)(Inherit|Null|Capture|Text)$", v)
            if not m:
                continue
            reg = {x for x in fn.reach([tgt], removed_nodes=[S]) if fn.edge_dominated(x, S, [lab])} | {tgt}
            setters = sorted({(c.callee or "").split("::")[-1] for c in fn.calls() if c.block in reg and "ProcessCommand::" in (c.callee or "")})
            pols = sorted({(str(st["rv"]["adt"]).split("::")[-1], st["rv"]["variant"]) for b in reg for st in fn.blocks[b]["s"] if st["rv"]["k"] == "agg" and "Policy" in str(st["rv"].get("adt"))})
            stream, pol = m.group(1).lower(), m.group(2)
            n += 1
            if pol == "Text":
                good = setters == ["set_%s_text" % stream]
            else:
                good = setters == ["set_%s_policy" % stream] and pols == [("StdinPolicy" if stream == "stdin" else "OutputPolicy", pol)]
            if good:
                ctx.ok("arm|%s" % v, fn.where(tgt), "%s %s" % (setters, pols))
            else:
                ctx.bad("arm|%s|%s|%s" % (v, ",".join(setters), ",".join("%s::%s" % p for p in pols)), fn.where(tgt), "the arm for %s calls %s with %s: the method configures another stream or another policy than its name says" % (v, setters, pols))
        break
    ctx.floor("stream-policy arms of the command dispatcher", n, 9)
    want = {"process::StdinPolicy": {"Inherit": "inherit", "Null": "null", "Text": "piped"}, "process::OutputPolicy": {"Inherit": "inherit", "Null": "null", "Capture": "piped"}}
    seen = set()
    for f in ctx.lib.fns.values():
        if not f.file.startswith("src/sys/process"):
            continue
        for S in sorted(f.live):
            if f.blocks[S]["t"]["k"] != "switch":
                continue
            si = f.switch_info(S)
            if si["kind"] != "discr" or si["ty"] not in want:
                continue
            stdio = [c for c in f.calls() if "process::Stdio::" in (c.callee or "")]
            if not stdio:
                continue
            ctx.touch(f)
            seen.add(si["ty"])
            covered = set()
            for lab, tgt in f.succ[S]:
                names = label_names(f, S, [lab], si)
                reg = {x for x in f.reach([tgt], removed_nodes=[S]) if f.edge_dominated(x, S, [lab])} | {tgt}
                got = sorted({(c.callee or "").split("::")[-1] for c in stdio if c.block in reg})
                for v in names:
                    covered.add(v)
                    exp = want[si["ty"]].get(v)
                    via = {c.block for c in stdio if (c.callee or "").split("::")[-1] == exp}
                    always = tgt in via or not (set(f.reach([tgt], removed_nodes=via)) & set(f.exits()))
                    if not always:
                        got = sorted(set(got) | {(c.callee or "").split("::")[-1] for c in stdio if c.block in f.reach([tgt], removed_nodes=[S]) and (c.callee or "").split("::")[-1] != exp})
                    if len(names) == 1 and got == [exp] and always:
                        ctx.ok("stdio|%s::%s" % (si["ty"].split("::")[-1], v), f.where(tgt), "Stdio::%s()" % exp)
                    else:
                        ctx.bad("stdio|%s::%s|%s" % (si["ty"].split("::")[-1], v, ",".join(got) or "shared-arm"), f.where(tgt), "%s::%s is realised as Stdio::%s (documented: always Stdio::%s): for some configured values the child gets another stream than the script asked for" % (si["ty"].split("::")[-1], v, "/".join(got) or "<a shared arm>", exp))
            for v in want[si["ty"]]:
                if v not in covered:
                    ctx.bad("stdio|%s::%s|no-arm" % (si["ty"].split("::")[-1], v), f.where(S), "no arm of its own for %s::%s" % (si["ty"].split("::")[-1], v))
            break
    for ty in want:
        if ty not in seen:
            ctx.bad("stdio|%s|table-missing" % ty.split("::")[-1], "", "no function under src/sys/process* turns %s into a Stdio" % ty)
    # every run() executes a *copy* of the command (clone_into): a hand-written copy of a policy yields the same policy
    k = 0
    for f in ctx.lib.fns.values():
        if f.file != "src/process.rs":
            continue
        for S in sorted(f.live):
            if f.blocks[S]["t"]["k"] != "switch":
                continue
            si = f.switch_info(S)
            if si["kind"] != "discr" or si["ty"] not in want:
                continue
            for lab, tgt in f.succ[S]:
                names = label_names(f, S, [lab], si)
                reg = {x for x in f.reach([tgt], removed_nodes=[S]) if f.edge_dominated(x, S, [lab])} | {tgt}
                built = sorted({st["rv"]["variant"] for b in reg for st in f.blocks[b]["s"] if st["rv"]["k"] == "agg" and str(st["rv"].get("adt", "")).endswith(si["ty"].split("::")[-1])})
                if not built or not names:
                    continue
                k += 1
                ctx.touch(f)
                if len(names) == 1 and built == sorted(names):
                    ctx.ok("policy-copy|%s|%s::%s" % (parent_fn(f.id).split("::")[-1], si["ty"].split("::")[-1], built[0]), f.where(tgt), "copied as itself")
                else:
                    ctx.bad("policy-copy|%s|%s::%s->%s" % (parent_fn(f.id).split("::")[-1], si["ty"].split("::")[-1], "/".join(sorted(names)), "/".join(built)), f.where(tgt), "%s turns %s::%s into %s: the command that is actually run (a copy) has another stream configuration than the one the script built" % (parent_fn(f.id).split("::")[-1], si["ty"].split("::")[-1], "/".join(sorted(names)), "/".join(built)))
    ctx.floor("hand-written policy copies", k, 3)


def r10_the_argument_is_copied_before_anything_else_runs(ctx):
    """`exactly the argument strings the script supplied`: the text of `c.arg(x)` is a value read from a variable, i.e. a borrow
    of the variable's pool slot, until it is copied into the command.  Looking the receiver up evaluates the index
    expressions of `cmds[pick()]`, which can run code that reassigns x - so the copy has to come first, or the child gets the
    bytes of whatever string took the slot.  Shared with C02-R6 (no borrowed value is held across a call that can return a
    slot)."""
    from .c02 import r6_nothing_borrowed_is_held_across_recycling
    r6_nothing_borrowed_is_held_across_recycling(ctx)


RULES = [("C15-R1", r1_gate), ("C15-R2", r2_no_shell), ("C15-R3", r3_caps), ("C15-R3b", r3b_refusal_before_spawn), ("C15-R4", r4_nothing_dropped), ("C15-R5", r5_set_env), ("C15-R6", r6_configured_text_outlives_configuration), ("C15-R3c", r3c_totals_compared_after_accumulation), ("C15-R7", r7_index_paths_walk_the_same_way), ("C15-R8", r8_builder_calls_are_effects), ("C15-R9", r9_names_reach_their_policy), ("C15-R10", r10_the_argument_is_copied_before_anything_else_runs)]

EXPLANATION = (
    "R1: the platform process runner is invoked only from the `run` arm of the command dispatcher, edge-dominated by "
    "host_policy.allow_process == true and by a propagated validate(..)?, with the configured caps; std::process::Command is "
    "used only inside run_host_process. R2: the operands of Command::new/args/env/current_dir are spec.program, spec.args "
    "mapped through as_str, spec.env pairs and spec.cwd; no shell-like string constant and no other Command method on the "
    "spawn path. R3: every max_* cap is read in validate and flows - inline or through validate_named_text / validate_count "
    "whose result is propagated - into a strict `len > max` comparison over the text it is meant to bound; NUL / `=` / empty "
    "tests and their per-field flags are present. R4: validate's ProcessSpec reads all builder fields, the runner reads all "
    "ProcessSpec fields, clone_into copies all command fields. R5: set_env overwrites an existing key. Decides the wiring "
    "and the comparison shape on all paths; does not decide byte-exact delivery by the OS."
)
EXPLANATION += (
    ' R7: the direction in which get_mutable_array, get_mutable_process_command and assign_index consume the subscript list is compared with an absolute reference - flatten_index_target returns the list root-first iff it reverses what it collected - so a reversed walk is reported in the routine that has it.'
)
ASSUMPTIONS = ["unix back end only (windows/wasm back ends are not compiled on this host)", "std::process::Command delivers argv/env/cwd verbatim (no shell)"]
TRUSTED = ["rustc nightly MIR and trait resolution", "nsx exporter", "nsverif expression reconstruction"]
NONTRIVIAL = "one obligation per cap, per ProcessSpec/ProcessCommand field and per spawn-path operand; distinct = distinct cap/field/operand"
EXPLANATION += (
    ' R9: method name -> documented variant (reference/language.json), the dispatcher arm of <Stream><Policy> calls set_<stream>_policy with that policy (or set_<stream>_text), every hand-written copy of a policy (clone_into) yields the same policy, and the platform layer turns each policy into its own Stdio on every path from that arm.'
)
EXPLANATION += (
    " R10 shares C02-R6: the argument text is copied before the receiver's index expressions run."
)

"""C05 — arrays are values: no mutation is ever visible through another name (ownership gaps pinned)."""
from ..guards import ne, sh
from ..mir import fields_read, parent_fn
from ..panics import label_names
from ..tables import entry_discr_switch

RT = "runtime::Runtime::"
CLONE = "runtime::Value::clone_into"


def r1_no_shallow_copy_possible(ctx):
    """Value and HostHandle implement neither Clone nor Copy: an alias of an array's backing store cannot be written in
    safe code without touching these types (the compile-fail witnesses of the thorough tier show the same from outside)."""
    impls = ctx.lib.impls
    for ty in ("runtime::Value", "process::HostHandle"):
        bad = [i for i in impls if i["self"].replace("<'a>", "").replace("<'_>", "").startswith(ty) and i["trait"] in ("std::clone::Clone", "std::marker::Copy", "core::clone::Clone", "core::marker::Copy")]
        if bad:
            ctx.bad("clone-impl|%s|%s" % (ty, bad[0]["trait"].split("::")[-1]), "%s:%d" % (bad[0]["at"]["file"], bad[0]["at"]["line"]), "%s implements %s: a shallow copy shares the array's backing store between two names" % (ty, bad[0]["trait"]))
        else:
            ctx.ok("no-clone|%s" % ty, "src", "%s is neither Clone nor Copy" % ty)
    # ArenaCow::clone is the zero-copy borrow (strings are immutable once stored): it must produce Borrowed, never an Owned alias
    cl = ctx.lib.fns.get("<arena::cow::ArenaCow as std::clone::Clone>::clone")
    if cl is not None:
        ctx.touch(cl)
        aggs = {s["rv"]["variant"] for b in cl.live for s in cl.blocks[b]["s"] if s["rv"]["k"] == "agg" and s["rv"]["adt"].endswith("ArenaCow") and s["lhs"]["l"] == 0}
        if aggs == {"Borrowed"}:
            ctx.ok("cow-clone-borrows", cl.where(), "ArenaCow::clone yields Borrowed")
        else:
            ctx.bad("cow-clone-borrows|%s" % ",".join(sorted(aggs)), cl.where(), "ArenaCow::clone can yield %s" % sorted(aggs))


def r2_deep_clone_complete(ctx):
    f = ctx.need(CLONE)
    ctx.touch(f)
    S, si = entry_discr_switch(f, 1)
    if S is None:
        ctx.bad("clone_into|no-dispatch", f.where(), "Value::clone_into does not dispatch on the variant")
        return
    for lab, tgt in f.succ[S]:
        for v in label_names(f, S, [lab], si):
            region = {b for b in f.reach([tgt], removed_nodes=[S]) if f.edge_dominated(b, S, [lab])}
            calls = [c for c in f.calls() if c.block in region]
            if v == "Array":
                newvec = [c for c in calls if (c.callee or "").endswith("with_capacity_in") or (c.callee or "").endswith("new_in")]
                rec = [c for c in calls if c.callee == CLONE]
                push = [c for c in calls if (c.callee or "").endswith("Vec::push")]
                loop = any(c.block in f.reach_from_succ(c.block) for c in rec)
                if newvec and rec and push and loop and sh(ne(f.deep(push[0].args[1]))).startswith("clone_into("):
                    ctx.ok("clone_into|Array", f.where(tgt), "fresh Vec, every item deep-cloned and pushed")
                else:
                    ctx.bad("clone_into|Array", f.where(tgt), "the Array arm of clone_into does not build a fresh vector from deep clones of every item (new=%d rec=%d push=%d loop=%s): the copy shares elements or storage with the original" % (len(newvec), len(rec), len(push), loop))
            elif v == "Host":
                if any(c.callee == "process::HostHandle::clone_into" for c in calls):
                    ctx.ok("clone_into|Host", f.where(tgt), "HostHandle::clone_into")
                else:
                    ctx.bad("clone_into|Host", f.where(tgt), "the Host arm of clone_into does not deep-clone the handle")
            elif v == "Str":
                if any((c.callee or "").endswith("Clone>::clone") for c in calls):
                    ctx.ok("clone_into|Str", f.where(tgt), "string cloned as a borrow (immutable)")
                else:
                    ctx.bad("clone_into|Str", f.where(tgt), "the Str arm of clone_into no longer clones the cow")
    hh = ctx.need("process::HostHandle::clone_into")
    ctx.touch(hh)
    if hh.calls_to("process::HostHandle::new_in") and hh.calls_to("process::HostValue::clone_into"):
        ctx.ok("host-handle|fresh", hh.where(), "new_in(arena, get().clone_into(arena))")
    else:
        ctx.bad("host-handle|fresh", hh.where(), "HostHandle::clone_into does not allocate a fresh handle from a deep clone: two variables share one command builder")
    hv = ctx.need("process::HostValue::clone_into")
    ctx.touch(hv)
    want = {"ProcessCommand": "process::ProcessCommand::clone_into", "ProcessResult": "process::ProcessResult::clone_into"}
    S2, si2 = entry_discr_switch(hv, 1)
    for lab, tgt in (hv.succ[S2] if S2 is not None else []):
        for v in label_names(hv, S2, [lab], si2):
            region = hv.reach([tgt], removed_nodes=[S2])
            if any(c.callee == want.get(v) for c in hv.calls() if c.block in region):
                ctx.ok("host-value|%s" % v, hv.where(tgt), "deep clone")
            elif v in want:
                ctx.bad("host-value|%s" % v, hv.where(tgt), "HostValue::clone_into does not deep-clone %s" % v)
    for ty in ("ProcessCommand", "ProcessResult", "EnvPair"):
        g = ctx.need("process::%s::clone_into" % ty)
        ctx.touch(g)
        fam = ctx.lib.family("process::%s::clone_into" % ty)
        rd = {}
        for h in fam:
            for k, v in fields_read(h, ty).items():
                rd.setdefault(k, []).extend(v)
        for field in ctx.lib.fields("process::" + ty):
            if field in rd:
                ctx.ok("fields|%s.%s" % (ty, field), g.where(), "copied")
            else:
                ctx.bad("fields|%s.%s" % (ty, field), g.where(), "%s::clone_into does not read `%s`: a variable and its copy diverge silently" % (ty, field))


def r3_reads_clone_and_mutation_needs_lvalue(ctx):
    ev = ctx.need(RT + "eval_expr")
    ctx.touch(ev)
    # the Var arm returns what lookup_local / lookup_var produced
    for fid in (RT + "lookup_local", RT + "lookup_var"):
        fam = ctx.lib.family(fid)
        for g in fam:
            ctx.touch(g)
        if any(c.callee == CLONE for g in fam for c in g.calls()):
            ctx.ok("read-clones|%s" % fid.split("::")[-1], fam[0].where(), "clone_into on every variable read")
        else:
            ctx.bad("read-clones|%s" % fid.split("::")[-1], fam[0].where(), "%s no longer deep-clones the stored value: the reader holds the variable's own array" % fid.split("::")[-1])
    S, si = entry_discr_switch(ev, None) if False else (None, None)
    for cand in sorted(ev.live):
        if ev.blocks[cand]["t"]["k"] == "switch":
            s2 = ev.switch_info(cand)
            if s2["kind"] == "discr" and s2["ty"].endswith("parser::Expr"):
                S, si = cand, s2
                break
    if S is not None:
        for lab, tgt in ev.succ[S]:
            if "Var" in label_names(ev, S, [lab], si):
                region = {b for b in ev.reach([tgt], removed_nodes=[S]) if ev.edge_dominated(b, S, [lab])}
                cal = {c.callee for c in ev.calls() if c.block in region}
                if {RT + "lookup_local", RT + "lookup_var"} <= cal and not any((x or "").endswith("_ref") or (x or "").endswith("_mut") for x in cal if x and x.startswith(RT + "lookup")):
                    ctx.ok("var-arm|cloning-accessors", ev.where(tgt), "Var is read through lookup_local / lookup_var only")
                else:
                    ctx.bad("var-arm|accessors", ev.where(tgt), "the Var arm of eval_expr reads through %s" % sorted(x.split("::")[-1] for x in cal if x and "lookup" in x))
    # &mut access to stored values
    mut_allowed = {RT + "assign_index", RT + "get_mutable_array", RT + "get_mutable_process_command", RT + "assign_bound_local", RT + "assign_var",
                   RT + "define_bound_local", RT + "define_var", RT + "lookup_local_mut", RT + "lookup_var_mut", RT + "eval_function_call", RT + "pop_scope",
                   RT + "push_scope_with_capacity", RT + "register_function"}
    n = 0
    for fn in ctx.lib.in_file("src/runtime.rs"):
        for c in fn.calls():
            short = (c.callee or "").split("::")[-1]
            if short in ("iter_mut", "last_mut", "deref_mut", "get_mut", "index_mut") and c.args and "self.env" in sh(ne(fn.deep(c.args[0]))):
                n += 1
                pid = parent_fn(fn.id)
                if pid in mut_allowed:
                    ctx.ok("env-mut|%s|%s#%d" % (pid.split("::")[-1], short, n), fn.where(c.block), "audited mutable access")
                else:
                    ctx.bad("env-mut|%s|%s" % (pid, short), fn.where(c.block), "%s obtains mutable access to the environment: a value can be changed in place outside the l-value paths" % pid)
    ctx.floor("mutable accesses to the environment", n, 8)
    who = {RT + "get_mutable_array": {RT + "eval_array_member_call_mut"}, RT + "get_mutable_process_command": {RT + "eval_process_command_call_mut"},
           RT + "lookup_local_mut": {RT + "get_mutable_array", RT + "get_mutable_process_command", RT + "assign_index"},
           RT + "lookup_var_mut": {RT + "get_mutable_array", RT + "get_mutable_process_command", RT + "assign_index"}}
    for callee, allowed in who.items():
        cs = ctx.lib.callers_of(callee)
        bad = [c for c in cs if parent_fn(c.fn.id) not in allowed]
        if bad:
            ctx.bad("who|%s|%s" % (callee.split("::")[-1], parent_fn(bad[0].fn.id)), bad[0].fn.where(bad[0].block), "%s is called from %s" % (callee.split("::")[-1], parent_fn(bad[0].fn.id)))
        elif cs:
            ctx.ok("who|%s" % callee.split("::")[-1], cs[0].fn.where(cs[0].block), "callers: %s" % sorted({parent_fn(c.fn.id).split("::")[-1] for c in cs}))
    # in-place mutation resolves its receiver as an l-value path: the receiver expression itself is never evaluated
    for fid in (RT + "get_mutable_array", RT + "get_mutable_process_command"):
        f = ctx.need(fid)
        ctx.touch(f)
        evs = [c for c in f.calls() if c.callee == RT + "eval_expr"]
        if evs:
            ctx.bad("lvalue|%s|evaluates-receiver" % fid.split("::")[-1], f.where(evs[0].block), "%s evaluates an expression as its receiver: the mutation would hit a temporary copy (or a shared value)" % fid.split("::")[-1])
        else:
            ctx.ok("lvalue|%s" % fid.split("::")[-1], f.where(), "receiver resolved as variable + index chain; only index values are evaluated")
    # the element taken by an index read is moved out of the reader's private copy
    for c in ev.calls():
        if (c.callee or "").endswith("get_unchecked_mut"):
            src = sh(ne(ev.deep(c.args[0])))
            alts = []
            for o in _root_operands(ev, c.args[0]):
                alts += [sh(ne(a)) for a in ev.alt_exprs(o, 6)]
            if "eval_expr" in src or (alts and all("eval_expr" in a for a in alts)):
                ctx.ok("index-read|from-private-copy", ev.where(c.block), "element moved out of the evaluated (cloned) array")
            else:
                ctx.bad("index-read|from-private-copy", ev.where(c.block), "an index read takes its element out of `%s`" % src[:60])


def _root_operands(fn, operand):
    """The whole locals a reference operand points into (through reborrows and downcasts/fields)."""
    pl = (operand.get("move") or operand.get("copy")) if isinstance(operand, dict) else None
    out, work, seen = [], [pl["l"]] if pl else [], set()
    while work:
        l = work.pop()
        if l in seen:
            continue
        seen.add(l)
        for (bi, k, st) in fn.whole_defs(l):
            if k == "t":
                for a in st.get("args", [])[:1]:
                    p2 = (a.get("move") or a.get("copy")) if isinstance(a, dict) else None
                    if p2 is not None and not p2["p"]:
                        work.append(p2["l"])
                continue
            rv = st["rv"]
            if rv["k"] == "ref":
                if fn.locals[rv["of"]["l"]]["ty"].startswith("&") or "*" in rv["of"]["p"]:
                    work.append(rv["of"]["l"])
                else:
                    root = rv["of"]["l"]
                    for _ in range(4):      # `let Value::Array(items) = value`: the parts moved out of a whole value
                        ds = fn.whole_defs(root)
                        if len(ds) == 1 and ds[0][1] != "t" and ds[0][2]["rv"]["k"] == "use":
                            p3 = ds[0][2]["rv"]["a"].get("move") or ds[0][2]["rv"]["a"].get("copy") if isinstance(ds[0][2]["rv"]["a"], dict) else None
                            if p3 is not None and p3["p"] and "*" not in p3["p"]:
                                root = p3["l"]
                                continue
                        break
                    out.append({"copy": {"l": root, "p": []}})
            elif rv["k"] == "use":
                p2 = (rv["a"].get("move") or rv["a"].get("copy")) if isinstance(rv["a"], dict) else None
                if p2 is not None:
                    work.append(p2["l"])
    return out


def r4_mutation_target_is_the_lexical_variable(ctx):
    """An in-place mutation reaches the array of the variable its base name is *bound* to (shared with C04-R5c): if the
    binding query misses, the base is looked up by name on the dynamic scope stack and a caller's same-named array is
    mutated instead - a mutation becomes visible through another name."""
    from .c04 import r2_innermost_first, r5c_query_on_the_variable_node
    r5c_query_on_the_variable_node(ctx)
    # ... and of the *current* activation: scope-stack searches go innermost scope first, newest entry first (C04-R2); under
    # recursion an outermost-first search mutates the array of an older activation's variable of the same name/id
    r2_innermost_first(ctx)
    # ... at the subscripts written: the routines that walk an index path to a mutable place agree on its direction (C15-R7)
    from .c15 import r7_index_paths_walk_the_same_way
    r7_index_paths_walk_the_same_way(ctx)


def r5_storing_copies_every_item(ctx):
    """Every routine that moves a value between storage classes (promote / detach / clone_into) visits all items of an array
    and returns a new vector (shared with C02-R5): an item that is passed through keeps borrowing the source array's string
    slot, so the copy changes when the source element is overwritten."""
    from .c02 import param_binding_rule, r5_promotion_complete
    r5_promotion_complete(ctx)
    # an array handed to a function is detached, at every depth, from the variable it was read from
    param_binding_rule(ctx)


def r6_a_copy_that_was_read_keeps_its_elements(ctx):
    """`Every element keeps its value until it is itself overwritten` - also the elements of the copy an expression has just
    read: an array read as an operand borrows the string elements of the variable it was read from, and a later operand of
    the same expression may overwrite those (`[names, [rename()]]`).  Shared with C02-R6: a value kept across a call that can
    release a pool slot owns its storage, or is kept raw only behind a sound `cannot run code` test of everything that runs
    meanwhile (an array literal is not such a thing: `[f()]` runs f)."""
    from .c02 import r6_nothing_borrowed_is_held_across_recycling
    r6_nothing_borrowed_is_held_across_recycling(ctx)


RULES = [("C05-R1", r1_no_shallow_copy_possible), ("C05-R2", r2_deep_clone_complete), ("C05-R3", r3_reads_clone_and_mutation_needs_lvalue),
         ("C05-R4", r4_mutation_target_is_the_lexical_variable), ("C05-R5", r5_storing_copies_every_item), ("C05-R6", r6_a_copy_that_was_read_keeps_its_elements)]


def extra_thorough(ctx):
    pass


EXPLANATION = (
    "In safe Rust a Vec<Value> has one owner, so aliasing an array needs Clone or unsafe code; the rules pin those gaps. R1: "
    "Value and HostHandle implement neither Clone nor Copy (impl census over the type-checked crate) "
    "and ArenaCow::clone only ever produces a borrow of immutable text. R2: Value::clone_into builds a fresh vector from deep "
    "clones of every item, deep-clones host handles, and the process value types copy every field. R3: every variable read "
    "goes through the cloning accessors; mutable access to the environment is obtained only in the audited l-value functions, "
    "which are called only from the mutating dispatchers and never evaluate their receiver as an expression; an index read "
    "moves its element out of the reader's private copy. R4 (= C04-R5c): the binding of an in-place mutation is queried on the Expr::Var node itself, and flatten_index_target returns that node, so the mutated array is the lexically bound one. R5 (= C02-R5): promote / detach / clone_into visit every item of an array and return a new vector - no pass-through of the incoming vector. Unchecked indexing is C06-R4. "
    "Not decided: independence after arbitrary mutation sequences (it follows from ownership given the above - an argument, "
    "not a check)."
)
ASSUMPTIONS = ["no unsafe code outside the arena/cow/process handle modules creates a second owner of a Vec<Value> (unsafe census in evidence notes)"]
TRUSTED = ["rustc ownership rules", "nsx exporter", "nsverif region analysis"]
NONTRIVIAL = "one obligation per clone arm, per copied field, per mutable environment access and per who-may-call edge"
EXPLANATION += (
    " R3's index-read clause follows the element's source through destructuring and through every reaching definition (a detached copy or the evaluated value itself)."
)
EXPLANATION += (
    ' R6 shares C02-R6 (an array that was read keeps its elements while later operands run).'
)

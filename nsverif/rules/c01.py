"""C01 — program results equal the documented semantics (thin: the finite tables and orderings only)."""
import json
import os
import struct

from ..guards import cmp_facts, ne, sh
from ..mir import show
from ..panics import label_names
from ..tables import abstract_eval, first_arm, hir_str_table, mir_enum_table, peval, tree_paths

REF = json.load(open(os.path.join(os.path.dirname(os.path.dirname(os.path.dirname(os.path.abspath(__file__)))), "reference", "language.json")))
SCAN = "syntax::scanner::Lexer::scan_identifier_or_keyword"
EV = "runtime::Runtime::eval_expr"


def clean(paths):
    """Paths of a partial evaluation that are not error propagation."""
    return [p for p in paths if not any(e[0] == "call" and "from_residual" in e[1] for e in p["events"]) and p["end"] == "return"]


# ------------------------------------------------------------------------------------------------ R1

def r1_keyword_chain(ctx):
    sc = ctx.need(SCAN)
    ctx.touch(sc)
    tab = hir_str_table(sc) or {}
    for word, tok in REF["keywords"].items():
        got = tab.get(word)
        if got == tok:
            ctx.ok("scan|%s" % word, sc.where(), "-> Token::%s" % tok)
        else:
            ctx.bad("scan|%s|%s" % (word, got), sc.where(), "the word `%s` lexes as %s, documented keyword token is Token::%s" % (word, "Token::%s" % got if got else "an identifier", tok))
    for word, tok in tab.items():
        if word not in REF["keywords"]:
            ctx.bad("scan|extra|%s" % word, sc.where(), "`%s` is lexed as keyword Token::%s but is not a documented keyword (programs using it as a name are rejected)" % (word, tok))
    # multi-word keywords: the aggregate Token::X is dominated by successful try_consume_word calls with the right words
    tcw = [c for c in sc.calls() if (c.callee or "").endswith("try_consume_word")]
    for tok, words in REF["multiword"].items():
        sites = [(b, s) for b in sorted(sc.live) for s in sc.blocks[b]["s"] if s["rv"]["k"] == "agg" and s["rv"]["adt"].endswith("Token") and s["rv"]["variant"] == tok]
        if not sites:
            ctx.bad("scan|multiword|%s|missing" % tok, sc.where(), "Token::%s is never produced by the scanner" % tok)
            continue
        for b, s in sites:
            need = list(words[1:])
            have = []
            for c in tcw:
                if sc.dominates(c.block, b):
                    w = sh(ne(sc.deep(c.args[1]))).strip('"')
                    # the call must have succeeded on the way here
                    for S, al in sc.constraints(b):
                        si = sc.switch_info(S)
                        if si["kind"] == "call" and si.get("block") == c.block and 0 not in al:
                            have.append(w)
            first = False
            for S, al in sc.constraints(b):
                si = sc.switch_info(S)
                if si["kind"] == "call" and (si["callee"] or "").endswith("::eq") and 0 not in al:
                    if ('"%s"' % words[0]) in " ".join(sh(ne(sc.deep(a))) for a in si["call"].get("args", [])):
                        first = True
            if have == need and first:
                ctx.ok("scan|multiword|%s" % tok, sc.where(b), "`%s`" % " ".join(words))
            else:
                ctx.bad("scan|multiword|%s" % tok, sc.where(b), "Token::%s is produced after consuming %s (first word seen: %s); documented spelling is `%s`" % (tok, have, first, " ".join(words)))
    # Token::fmt spells each keyword token as documented
    tf = ctx.need("<syntax::token::Token as std::fmt::Display>::fmt")
    ctx.touch(tf)
    spell = dict((v, k) for k, v in REF["keywords"].items())
    spell.update({k: " ".join(v) for k, v in REF["multiword"].items()})
    for tok, text in sorted(spell.items()):
        if tok in ("Do", "Return"):
            continue  # printed through the Debug fallback today (confirmed on ec803c6); not a documented spelling site
        ps = peval(tf, 0, {"self": tok})
        lits = {a for p in ps for e in p["events"] if e[0] == "call" for a in e[3] if a.startswith('"')}
        if ('"%s"' % text) in lits:
            ctx.ok("display|%s" % tok, tf.where(), '"%s"' % text)
        else:
            ctx.bad("display|%s" % tok, tf.where(), "Token::%s is displayed as %s, documented spelling `%s` (diagnostics would name the wrong keyword)" % (tok, sorted(lits), text))
    # reserved-keyword predicate covers every keyword token
    rk = ctx.need("syntax::token::Token::is_reserved_keyword")
    ctx.touch(rk)
    rtab = mir_enum_table(rk, 1) or {}
    for tok in sorted(set(REF["keywords"].values()) | set(REF["multiword"])):
        if rtab.get(tok) == ["true"]:
            ctx.ok("reserved|%s" % tok, rk.where(), "reserved")
        else:
            ctx.bad("reserved|%s" % tok, rk.where(), "Token::%s is not reported as a reserved keyword (is_reserved_keyword -> %s)" % (tok, rtab.get(tok)))
    for tok, v in sorted(rtab.items()):
        if v == ["true"] and tok not in REF["keywords"].values() and tok not in REF["multiword"]:
            ctx.bad("reserved|extra|%s" % tok, rk.where(), "Token::%s is reserved but is not a keyword" % tok)


# ------------------------------------------------------------------------------------------------ R2

def _find_triple(bt, depth=0):
    """The (op, l_bp, r_bp) tuple of an arm, possibly wrapped (`Some((op, l, r))`, a block)."""
    if not isinstance(bt, dict) or depth > 4:
        return None
    if bt.get("k") == "tup" and len(bt.get("es", [])) == 3:
        return bt
    for v in bt.values():
        if isinstance(v, dict):
            r = _find_triple(v, depth + 1)
            if r is not None:
                return r
        elif isinstance(v, list):
            for x in v:
                r = _find_triple(x, depth + 1)
                if r is not None:
                    return r
    return None


def binding_table(ctx):
    import re
    pc = ctx.need("syntax::parser::Parser::parse_expression_continuation")
    ctx.touch(pc)
    # the table sits in the continuation routine or in a private helper it calls (`fn binary_operator(token) -> Option<..>`)
    bodies = [pc] + [ctx.lib.fns[c.callee] for c in pc.calls() if c.callee in ctx.lib.fns and ctx.lib.fns[c.callee].file == "src/syntax/parser.rs" and c.callee != pc.id]
    for body in bodies:
        for m in body.matches:
            if "Token" not in m["scrut_ty"]:
                continue
            tab = {}
            for arm in m["arms"]:
                bt = _find_triple(arm["body_tree"])
                if bt is None:
                    continue
                paths = tree_paths(bt["es"][0])
                ints = []
                for e in bt["es"][1:]:
                    v = e.get("v", "") if e.get("k") == "lit" else ""
                    mm = re.search(r"Pu128\((\d+)\)", v)
                    ints.append(int(mm.group(1)) if mm else None)
                toks = [p_["path"].split("::")[-1] for p_ in ([arm["pat"]] if arm["pat"]["k"] != "or" else arm["pat"]["subs"]) if "path" in p_]
                for t in toks:
                    tab[t] = (paths[-1].split("::")[-1] if paths else None, ints[0], ints[1])
            if tab:
                ctx.touch(body)
                return pc, tab
    return pc, None


def r2_precedence(ctx):
    pc, tab = binding_table(ctx)
    if not tab:
        ctx.bad("binding-table|missing", pc.where(), "no Token -> (BinaryOp, l_bp, r_bp) table in parse_expression_continuation")
        return
    for tok, op in REF["binary_operators"].items():
        got = tab.get(tok)
        if not got:
            ctx.bad("operator|%s|missing" % tok, pc.where(), "Token::%s is not a binary operator any more" % tok)
        elif got[0] != op:
            ctx.bad("operator|%s|%s" % (tok, got[0]), pc.where(), "Token::%s parses as BinaryOp::%s, documented meaning is BinaryOp::%s" % (tok, got[0], op))
        else:
            ctx.ok("operator|%s" % tok, pc.where(), "BinaryOp::%s (%s, %s)" % got)
    for tok in tab:
        if tok not in REF["binary_operators"]:
            ctx.bad("operator|extra|%s" % tok, pc.where(), "Token::%s became a binary operator" % tok)
    bp = {v[0]: (v[1], v[2]) for v in tab.values()}
    classes = REF["precedence_classes"]
    prev = None
    for cl in classes:
        ls = {bp[o][0] for o in cl if o in bp}
        if len(ls) != 1:
            ctx.bad("precedence|class|%s" % ",".join(cl), pc.where(), "operators %s should share one precedence level but have left powers %s" % (cl, sorted(ls)))
            continue
        l = ls.pop()
        if prev is not None and not (l < prev):
            ctx.bad("precedence|order|%s" % ",".join(cl), pc.where(), "%s (power %d) must bind less tightly than the previous class (power %d)" % (cl, l, prev))
        else:
            ctx.ok("precedence|class|%s" % ",".join(cl), pc.where(), "left power %d" % l)
        prev = l
    for o, (l, r) in sorted(bp.items()):
        if r == l + 1:
            ctx.ok("assoc|%s" % o, pc.where(), "left-associative (%d, %d)" % (l, r))
        else:
            ctx.bad("assoc|%s|%d,%d" % (o, l, r), pc.where(), "BinaryOp::%s has powers (%d, %d): not left-associative (a %s b %s c would group to the right or mix with the neighbouring level)" % (o, l, r, o.lower(), o.lower()))
    maxl = max(l for l, r in bp.values())
    # recursion constants
    pe = ctx.need("syntax::parser::Parser::parse_expression")
    ctx.touch(pe)
    pcs = pe.calls_to("syntax::parser::Parser::parse_expression")
    from ..flow import origins
    n = 0
    for c in pcs:
        k = c.args[1].get("int")
        region = []
        for S, al in pe.constraints(c.block):
            si = pe.switch_info(S)
            if si["kind"] == "discr" and si["ty"].endswith("Token"):
                region = sorted(label_names(pe, S, al, si))
        n += 1
        if set(region) & {"Not", "Minus"}:
            if k is not None and k > maxl:
                ctx.ok("prefix|%s" % ",".join(region), pe.where(c.block), "operand parsed with power %d > every binary power" % k)
            else:
                ctx.bad("prefix|%s|%s" % (",".join(region), k), pe.where(c.block), "prefix `%s` parses its operand with power %s, not above every binary operator (max %d): `not a na b` would negate the comparison" % (region, k, maxl))
        else:
            if k == 0:
                ctx.ok("group|%s" % ",".join(region), pe.where(c.block), "sub-expression parsed from power 0")
            else:
                ctx.bad("group|%s|%s" % (",".join(region), k), pe.where(c.block), "parenthesised / element expression is parsed with minimum power %s instead of 0" % k)
    for c in pc.calls_to("syntax::parser::Parser::parse_expression"):
        k = c.args[1].get("int")
        n += 1
        if k is None:
            src = sh(ne(pc.expr(c.args[1], 4)))
            if "r_bp" in src:
                ctx.ok("binary-rhs", pc.where(c.block), "right operand parsed with r_bp")
            else:
                ctx.bad("binary-rhs|%s" % src, pc.where(c.block), "the right operand of a binary operator is parsed with `%s`, not with the operator's right power" % src)
        elif k == 0:
            ctx.ok("group|postfix", pc.where(c.block), "argument / index parsed from power 0")
        else:
            ctx.bad("group|postfix|%s" % k, pc.where(c.block), "call argument / index expression parsed with minimum power %s instead of 0" % k)
    ctx.floor("recursive parse_expression call sites", n, 7)
    # the loop stops on l_bp < min_bp
    brk = False
    for S in sorted(pc.live):
        if pc.blocks[S]["t"]["k"] == "switch":
            si = pc.switch_info(S)
            if si["kind"] == "bin" and si["op"] in ("Lt", "Le"):
                a, b = sh(ne(pc.expr(si["a"], 4))), sh(ne(pc.expr(si["b"], 4)))
                if "l_bp" in a and "min_bp" in b:
                    brk = True
    if brk:
        ctx.ok("loop-stop", pc.where(), "stops when l_bp < min_bp")
    else:
        ctx.bad("loop-stop", pc.where(), "the Pratt loop no longer compares the operator's left power with the minimum power")


# ------------------------------------------------------------------------------------------------ R3 / R4

def r3_operator_meaning(ctx):
    ev = ctx.need(EV)
    ctx.touch(ev)
    for op, (mop, a, b) in REF["number_ops"].items():
        ps = clean(peval(ev, 0, {"expr": "Binary", "op": op, "_.0": "Number", "_.1": "Number"}))
        bins = {(e[1], e[2], e[3]) for p in ps for e in p["events"] if e[0] == "bin" and e[1] not in ("Eq",) and "f64" not in e[3]}
        if (mop, a, b) in bins and len({x for x in bins if x[0] in ("Add", "Sub", "Mul", "Div", "Rem", "Gt", "Lt", "Ge", "Le")}) == 1:
            ctx.ok("number|%s" % op, ev.where(), "%s(%s, %s)" % (mop, a, b))
        else:
            ctx.bad("number|%s|%s" % (op, sorted(bins)), ev.where(), "`%s` on two numbers computes %s, documented meaning is %s(%s, %s)" % (op.lower(), sorted(bins), mop, a, b))
    # equality: |lv - rv| <= FLOAT_EQ_EPS
    ps = clean(peval(ev, 0, {"expr": "Binary", "op": "Eq", "_.0": "Number", "_.1": "Number"}))
    bins = [(e[1], e[2], e[3]) for p in ps for e in p["events"] if e[0] == "bin"]
    ok = any(x[0] == "Sub" and {x[1], x[2]} == {"lv", "rv"} for x in bins) and any(x[0] == "Le" and "abs(" in x[1] and "FLOAT_EQ_EPS" in x[2] for x in bins)
    if ok:
        ctx.ok("number|Eq", ev.where(), "|lv - rv| <= FLOAT_EQ_EPS")
    else:
        ctx.bad("number|Eq|%s" % bins, ev.where(), "`na` on numbers no longer has the |lv - rv| <= eps shape: %s" % bins)
    eps = ctx.lib.consts.get("runtime::FLOAT_EQ_EPS")
    if eps and "bytes" in eps:
        val = struct.unpack("<d", bytes.fromhex(eps["bytes"]))[0]
        if val == 1e-12:
            ctx.ok("number|eps", "src/runtime.rs", "FLOAT_EQ_EPS = 1e-12")
        else:
            ctx.bad("number|eps|%r" % val, "src/runtime.rs", "FLOAT_EQ_EPS is %r, reference 1e-12" % val)
    # strings: concatenation order, comparison operand order
    ps = clean(peval(ev, 0, {"expr": "Binary", "op": "Add", "_.0": "Str", "_.1": "Str"}))
    order = []
    for p in ps:
        for e in p["events"]:
            if e[0] == "call" and e[1].endswith("push_str"):
                t = show(ev.deep(e[4][1]))
                order.append("l" if ".0@Str.0" in t.split("Continue.0}")[-1] else "r" if ".1@Str.0" in t.split("Continue.0}")[-1] else "?")
    if order[:2] == ["l", "r"]:
        ctx.ok("string|Add", ev.where(), "push_str(left) then push_str(right)")
    else:
        ctx.bad("string|Add|%s" % order, ev.where(), "string concatenation appends operands in order %s (must be left then right)" % order)
    for op, meth in (("Eq", "eq"), ("Gt", "gt"), ("Lt", "lt")):
        ps = clean(peval(ev, 0, {"expr": "Binary", "op": op, "_.0": "Str", "_.1": "Str"}))
        calls = [(e[1].split("::")[-1], [show(ev.deep(a)).split("Continue.0}")[-1] for a in e[4]]) for p in ps for e in p["events"] if e[0] == "call" and e[1].split("::")[-1] in ("eq", "ne", "gt", "lt", "ge", "le", "cmp", "partial_cmp")]
        good = [c for c in calls if c[0] == meth and ".0@Str.0" in c[1][0] and ".1@Str.0" in c[1][1]]
        if good and len(calls) == len(good):
            ctx.ok("string|%s" % op, ev.where(), "%s(left, right)" % meth)
        else:
            ctx.bad("string|%s|%s" % (op, [c[0] for c in calls]), ev.where(), "`%s` on strings calls %s, expected %s(left, right)" % (op, calls, meth))
    # mixed string/number concatenation keeps operand order
    for l, r, first in (("Str", "Number", "push_str"), ("Number", "Str", "write_fmt")):
        ps = clean(peval(ev, 0, {"expr": "Binary", "op": "Add", "_.0": l, "_.1": r}))
        seq = [e[1].split("::")[-1] for p in ps[:1] for e in p["events"] if e[0] == "call" and e[1].split("::")[-1] in ("push_str", "write_fmt") and "LenWriter" not in " ".join(e[3]) and "writer" not in " ".join(e[3])]
        if seq[:1] == [first]:
            ctx.ok("mixed|%s,%s" % (l, r), ev.where(), "left operand written first")
        else:
            ctx.bad("mixed|%s,%s|%s" % (l, r, seq), ev.where(), "%s add %s writes %s first" % (l, r, seq[:1]))
    # booleans and null: constants
    for op, want in (("Eq", "Eq(lv, rv)"),):
        ps = clean(peval(ev, 0, {"expr": "Binary", "op": op, "_.0": "Bool", "_.1": "Bool"}))
        aggs = {e[4][0] for p in ps for e in p["events"] if e[0] == "agg" and e[2] == "Bool"}
        if aggs == {want}:
            ctx.ok("bool|%s" % op, ev.where(), want)
        else:
            ctx.bad("bool|%s|%s" % (op, sorted(aggs)), ev.where(), "`na` on booleans computes %s" % sorted(aggs))
    for op, want in (("Eq", "true"), ("Gt", "false"), ("Lt", "false")):
        ps = clean(peval(ev, 0, {"expr": "Binary", "op": op, "_.0": "Null", "_.1": "Null"}))
        aggs = {e[4][0] for p in ps for e in p["events"] if e[0] == "agg" and e[2] == "Bool"}
        if aggs == {want}:
            ctx.ok("null|%s" % op, ev.where(), "null %s null = %s" % (op, want))
        else:
            ctx.bad("null|%s|%s" % (op, sorted(aggs)), ev.where(), "null %s null yields %s, documented %s" % (op, sorted(aggs), want))
    for other in ("Number", "Str", "Bool", "Array"):
        for pair in ((other, "Null"), ("Null", other)):
            ps = clean(peval(ev, 0, {"expr": "Binary", "op": "Eq", "_.0": pair[0], "_.1": pair[1]}))
            aggs = {e[4][0] for p in ps for e in p["events"] if e[0] == "agg" and e[2] == "Bool"}
            if aggs == {"false"}:
                ctx.ok("null|Eq|%s,%s" % pair, ev.where(), "false")
            else:
                ctx.bad("null|Eq|%s,%s|%s" % (pair + (sorted(aggs),)), ev.where(), "%s na %s yields %s, documented false" % (pair[0], pair[1], sorted(aggs)))
    # unary
    for op, val, want in (("Not", "Null", ("Bool", "true")), ("Not", "Bool", ("Bool", "Not(b)")), ("Minus", "Number", ("Number", "Neg(n)"))):
        ps = clean(peval(ev, 0, {"expr": "Unary", "_": op, "_.1": val}))
        aggs = {(e[2], e[4][0]) for p in ps for e in p["events"] if e[0] == "agg" and e[1].endswith("Value") and e[4]}
        if want in aggs and len(aggs) == 1:
            ctx.ok("unary|%s,%s" % (op, val), ev.where(), "%s(%s)" % want)
        else:
            ctx.bad("unary|%s,%s|%s" % (op, val, sorted(aggs)), ev.where(), "%s %s yields %s, documented %s" % (op.lower(), val, sorted(aggs), want))


def r4_order_shortcircuit_zero(ctx):
    ev = ctx.need(EV)
    # left operand evaluated before the right one in every binary region
    evs = ev.calls_to(EV)
    lhs = [c for c in evs if "Binary.lhs" in sh(ne(ev.deep(c.args[1])))]
    rhs = [c for c in evs if "Binary.rhs" in sh(ne(ev.deep(c.args[1])))]
    n = 0
    for r in rhs:
        n += 1
        doms = [l for l in lhs if ev.dominates(l.block, r.block)]
        if doms:
            ctx.ok("order|binary#%d" % n, ev.where(r.block), "eval(lhs) dominates eval(rhs)")
        else:
            ctx.bad("order|binary#%d" % n, ev.where(r.block), "the right operand can be evaluated before (or without) the left operand")
    ctx.floor("right-operand evaluation sites", n, 3)
    # indexing: the array expression is evaluated (or, for a variable, read) before the index expression
    idx_evals = [c for c in ev.calls() if c.callee in (EV, "runtime::Runtime::eval_index_value") and "Index.index" in sh(ne(ev.deep(c.args[1])))]
    arr_evals = [c for c in ev.calls() if (c.callee == EV and "Index.array" in sh(ne(ev.deep(c.args[1])))) or
                 ((c.callee or "").split("::")[-1] in ("lookup_local", "lookup_var", "lookup_local_ref", "lookup_var_ref", "bound_expr_local") and "Index.array" in " ".join(sh(ne(ev.deep(a))) for a in c.args))]
    m = 0
    for c in idx_evals:
        m += 1
        real = [a for a in arr_evals if (a.callee or "").split("::")[-1] != "bound_expr_local"]
        if any(ev.dominates(a.block, c.block) and a.block != c.block for a in real):
            ctx.ok("order|index#%d" % m, ev.where(c.block), "the array operand is evaluated before the index")
        else:
            ctx.bad("order|index#%d" % m, ev.where(c.block), "the index expression of `a[i]` can be evaluated before the array operand is evaluated/read: an index expression that mutates the array (a call that pushes, pops, reverses) sees the wrong element")
    ctx.floor("index-operand evaluation sites", m, 1)
    # short circuit
    def n_evals(p):
        return sum(1 for e in p["events"] if e[0] == "call" and e[1] == EV)
    table = {("And", "Null"): {1}, ("And", "Bool"): {1, 2}, ("Or", "Null"): {2}, ("Or", "Bool"): {1, 2}}
    for (op, l), want in table.items():
        ps = clean(peval(ev, 0, {"expr": "Binary", "op": op, "l": l}))
        got = {n_evals(p) for p in ps}
        if got == want:
            ctx.ok("short-circuit|%s,%s" % (op, l), ev.where(), "operand evaluations per path: %s" % sorted(got))
        else:
            ctx.bad("short-circuit|%s,%s|%s" % (op, l, sorted(got)), ev.where(), "`%s` with a %s left operand evaluates %s operands per path; documented short-circuit behaviour gives %s" % (op.lower(), l, sorted(got), sorted(want)))
    # the short-circuit decision constants
    ps = clean(peval(ev, 0, {"expr": "Binary", "op": "And", "l": "Null"}))
    aggs = {e[4][0] for p in ps for e in p["events"] if e[0] == "agg" and e[2] == "Bool"}
    if aggs == {"false"}:
        ctx.ok("short-circuit|And,Null|value", ev.where(), "null and _ = false")
    else:
        ctx.bad("short-circuit|And,Null|value|%s" % sorted(aggs), ev.where(), "null and _ yields %s" % sorted(aggs))
    # argument / element loops run forward
    for fid in (EV, "runtime::Runtime::eval_function_call", "runtime::Runtime::eval_builtin_call"):
        fn = ctx.need(fid)
        ctx.touch(fn)
        if any((c.callee or "").endswith("Iterator::rev") for c in fn.calls()):
            ctx.bad("order|args-reversed|%s" % fid.split("::")[-1], fn.where(), "arguments / elements are iterated in reverse")
        else:
            ctx.ok("order|args-forward|%s" % fid.split("::")[-1], fn.where(), "no reversed iteration")
    # zero divisor
    n = 0
    for b in sorted(ev.live):
        for s in ev.blocks[b]["s"]:
            if s["rv"]["k"] == "bin" and s["rv"]["op"] in ("Div", "Rem") and "f64" in ev.locals[s["lhs"]["l"]]["ty"]:
                n += 1
                facts = cmp_facts(ev, b)
                rv = ne(ev.expr(s["rv"]["b"], 4))
                ok = any(op == "Ne" and ((A == rv and sh(B) in ("0f64", "0.0", "0")) or (B == rv and sh(A) in ("0f64", "0"))) for op, A, B, S in facts)
                if ok:
                    ctx.ok("zero-divisor|%s#%d" % (s["rv"]["op"], n), ev.where(b), "edge-dominated by divisor != 0.0")
                else:
                    ctx.bad("zero-divisor|%s#%d" % (s["rv"]["op"], n), ev.where(b), "%s on numbers is not guarded by `divisor == 0.0 -> DivisionByZero` (%s)" % (s["rv"]["op"], [(o, sh(a), sh(bb)) for o, a, bb, S in facts]))
    ctx.floor("f64 division sites", n, 2)
    ps = peval(ev, 0, {"expr": "Binary", "op": "Divide", "_.0": "Number", "_.1": "Number"})
    if any(any(e[0] == "agg" and e[2] == "DivisionByZero" for e in p["events"]) for p in ps):
        ctx.ok("zero-divisor|error-kind", ev.where(), "Err(DivisionByZero) on the zero path")
    else:
        ctx.bad("zero-divisor|error-kind", ev.where(), "division no longer reports DivisionByZero")


# ------------------------------------------------------------------------------------------------ R5

def r5_builtin_tables(ctx):
    enums = {"GlobalBuiltin": "builtins::GlobalBuiltin", "StringBuiltin": "builtins::string::StringBuiltin", "NumberBuiltin": "builtins::number::NumberBuiltin",
             "ArrayBuiltin": "builtins::array::ArrayBuiltin", "ProcessCommandBuiltin": "builtins::process::ProcessCommandBuiltin", "ProcessResultBuiltin": "builtins::process::ProcessResultBuiltin"}
    for en, path in enums.items():
        ref = REF["builtins"][en]
        fnm = ctx.need("<%s as builtins::Builtin>::from_name" % path)
        ctx.touch(fnm)
        tab = hir_str_table(fnm) or {}
        for name, (variant, arity, ret) in ref.items():
            if tab.get(name) == variant:
                ctx.ok("name|%s|%s" % (en, name), fnm.where(), "-> %s" % variant)
            else:
                ctx.bad("name|%s|%s|%s" % (en, name, tab.get(name)), fnm.where(), "`%s` resolves to %s::%s, documented %s" % (name, en, tab.get(name), variant))
        for name in tab:
            if name not in ref:
                ctx.bad("name|%s|extra|%s" % (en, name), fnm.where(), "undocumented built-in name `%s`" % name)
        ar = ctx.need("<%s as builtins::Builtin>::arity" % path)
        rt = ctx.need("<%s as builtins::Builtin>::return_type" % path)
        ctx.touch(ar)
        ctx.touch(rt)
        atab = mir_enum_table(ar, 1)
        rtab = mir_enum_table(rt, 1)
        for name, (variant, arity, ret) in ref.items():
            a = (atab.get(variant) if atab else abstract_eval(ar, 1, 0)) or ["?"]
            got_a = a[0].replace("_usize", "")
            if got_a == str(arity):
                ctx.ok("arity|%s::%s" % (en, variant), ar.where(), str(arity))
            else:
                ctx.bad("arity|%s::%s|%s" % (en, variant, got_a), ar.where(), "%s takes %s arguments in the table, documented %d" % (name, got_a, arity))
            r = (rtab.get(variant) if rtab else abstract_eval(rt, 1, 0)) or ["?"]
            got_r = r[0].split("::")[-1]
            if got_r == ret:
                ctx.ok("returns|%s::%s" % (en, variant), rt.where(), ret)
            else:
                ctx.bad("returns|%s::%s|%s" % (en, variant, got_r), rt.where(), "%s is typed as returning %s, documented %s" % (name, got_r, ret))
    # dispatch: the arm of variant V calls the implementation named snake_case(V)
    def snake(v):
        out = ""
        for i, ch in enumerate(v):
            if ch.isupper() and i:
                out += "_"
            out += ch.lower()
        return out
    for fid, en, implpath in (("runtime::Runtime::eval_number_member_call", "NumberBuiltin", "builtins::number::NumberBuiltin::"),
                              ("runtime::Runtime::eval_string_member_call", "StringBuiltin", "builtins::string::StringBuiltin::"),
                              ("runtime::Runtime::eval_array_member_call", "ArrayBuiltin", "builtins::array::ArrayBuiltin::"),
                              ("runtime::Runtime::eval_array_member_call_mut", "ArrayBuiltin", "builtins::array::ArrayBuiltin::")):
        fn = ctx.need(fid)
        ctx.touch(fn)
        S = None
        for cand in sorted(fn.live):
            if fn.blocks[cand]["t"]["k"] == "switch":
                si = fn.switch_info(cand)
                if si["kind"] == "discr" and si["ty"].endswith(en):
                    S = cand
                    break
        if S is None:
            ctx.bad("dispatch|%s|none" % fid.split("::")[-1], fn.where(), "no dispatch on %s" % en)
            continue
        for lab, tgt in fn.succ[S]:
            for v in label_names(fn, S, [lab], si):
                region = fn.reach([tgt], removed_nodes=[S])
                impl = {c.callee[len(implpath):] for c in fn.calls() if c.block in region and (c.callee or "").startswith(implpath) and not c.callee.endswith("from_name")}
                panics = any(c.target is None for c in fn.calls() if c.block in region and fn.edge_dominated(c.block, S, [lab]))
                if not impl:
                    continue
                if impl == {snake(v)}:
                    ctx.ok("dispatch|%s::%s" % (en, v), fn.where(tgt), "calls %s" % snake(v))
                else:
                    ctx.bad("dispatch|%s::%s|%s" % (en, v, ",".join(sorted(impl))), fn.where(tgt), "the %s::%s arm calls %s instead of %s" % (en, v, sorted(impl), snake(v)))
    # implementations call the std primitive the docs name
    for v, prim in REF["number_impl"].items():
        fn = ctx.need("builtins::number::NumberBuiltin::%s" % v.lower())
        ctx.touch(fn)
        cal = {c.callee for c in fn.calls()}
        want = "std::" + prim
        if any(c and c.endswith(prim.split("::")[-1]) and "f64" in c for c in cal):
            ctx.ok("impl|%s" % v, fn.where(), prim)
        else:
            ctx.bad("impl|%s|%s" % (v, sorted(x.split("::")[-1] for x in cal if x)), fn.where(), "NumberBuiltin::%s calls %s, documented %s" % (v.lower(), sorted(cal), prim))
    # typeof
    to = ctx.need("builtins::GlobalBuiltin::type_of")
    ctx.touch(to)
    tt = mir_enum_table(to, 1) or {}
    for v, text in REF["typeof"].items():
        got = (tt.get(v) or ["?"])[0].strip('"')
        if got == text:
            ctx.ok("typeof|%s" % v, to.where(), text)
        else:
            ctx.bad("typeof|%s|%s" % (v, got), to.where(), "typeof of a %s value is \"%s\", documented \"%s\"" % (v, got, text))


# ------------------------------------------------------------------------------------------------ R6 / R7

def r6_truthiness_and_printing(ctx):
    es = ctx.need("runtime::Runtime::exec_stmt")
    ctx.touch(es)
    for kind in ("If", "Loop"):
        for val, want_body in (("Null", False), ("Bool", None)):
            ps = clean(peval(es, 0, {"stmt": kind, "val": val}))
            body_arg = "then_b" if kind == "If" else "body"
            ran = [any(e[0] == "call" and e[1].endswith("exec_block_with_flow") and body_arg in " ".join(e[3]) for e in p["events"]) for p in ps]
            if want_body is False:
                if ps and not any(ran):
                    ctx.ok("truthiness|%s,null" % kind, es.where(), "a null condition never runs the body")
                else:
                    ctx.bad("truthiness|%s,null" % kind, es.where(), "a null condition can run the %s body (null must be falsy)" % kind)
            else:
                if any(ran) and not all(ran):
                    ctx.ok("truthiness|%s,bool" % kind, es.where(), "body runs depending on the boolean")
                else:
                    ctx.bad("truthiness|%s,bool|%s" % (kind, sorted(set(ran))), es.where(), "a boolean condition no longer decides whether the %s body runs" % kind)
    # Display of values
    fam = ctx.lib.family("<runtime::Value as std::fmt::Display>::fmt")
    blob = json.dumps([g.m["blocks"] for g in fam])
    for lit, what in (('\\"null\\"', "null"), ('\\"[\\"', "["), ('\\"]\\"', "]"), ('\\", \\"', "', ' separator")):
        if lit in blob:
            ctx.ok("display|%s" % what, fam[0].where(), "literal present")
        else:
            ctx.bad("display|%s" % what, fam[0].where(), "Value's Display no longer writes %s" % what)
    # shout prints and records
    eb = ctx.need("runtime::Runtime::eval_builtin_call")
    ps = clean(peval(eb, 0, {"builtin": "Shout"}))
    ok = ps and all(any(e[0] == "call" and e[1].endswith("GlobalBuiltin::shout") for e in p["events"]) and any(e[0] == "call" and e[1].endswith("Vec::push") and "output" in " ".join(e[3]) for e in p["events"]) for p in ps)
    if ok:
        ctx.ok("shout|prints-and-records", eb.where(), "GlobalBuiltin::shout then output.push on every path")
    else:
        ctx.bad("shout|prints-and-records", eb.where(), "shout no longer both prints and appends to Runtime.output on every path")


def r7_loop_control(ctx):
    es = ctx.need("runtime::Runtime::exec_stmt")
    S = None
    for cand in sorted(es.live):
        if es.blocks[cand]["t"]["k"] == "switch":
            si = es.switch_info(cand)
            if si["kind"] == "discr" and si["ty"].endswith("ExecFlow"):
                # the one inside the Loop arm
                if any(si2["kind"] == "discr" and "Loop" in label_names(es, S2, al, si2) for S2, al in es.constraints(cand) for si2 in [es.switch_info(S2)] if si2["kind"] == "discr" and si2["ty"].endswith("parser::Stmt")):
                    S = cand
                    break
    if S is None:
        ctx.bad("loop|no-flow-switch", es.where(), "the loop arm no longer dispatches on the body's ExecFlow")
        return
    si = es.switch_info(S)
    cond_calls = [c.block for c in es.calls_to(EV) if "Loop.cond" in sh(ne(es.deep(c.args[1])))]
    for lab, tgt in es.succ[S]:
        for v in label_names(es, S, [lab], si):
            r = es.reach([tgt], removed_nodes=[S])
            again = bool(set(cond_calls) & r)
            ret = bool(set(es.exits()) & es.reach([tgt], removed_nodes=[S] + cond_calls))
            if v == "Break":
                ok = not again
                why = "leaves the loop"
            elif v in ("Continue", "LoopContinue"):
                ok = again
                why = "re-evaluates the condition"
            else:
                ok = not again and ret
                why = "returns the flow"
            if ok:
                ctx.ok("loop|%s" % v, es.where(tgt), why)
            else:
                ctx.bad("loop|%s" % v, es.where(tgt), "ExecFlow::%s in a loop body %s" % (v, "re-enters the loop" if again else "does not re-evaluate the condition"))
    # block: forwards Return | Break | LoopContinue after exactly one pop_scope
    eb = ctx.need("runtime::Runtime::exec_block_with_flow")
    ctx.touch(eb)
    pops = [c.block for c in eb.calls_to("runtime::Runtime::pop_scope")]
    r = eb.reach([0], removed_nodes=pops)
    err_exit_ok = True
    if set(eb.exits()) & r:
        # only the `?` error path may skip the pop
        for x in set(eb.exits()) & r:
            pth = eb.path(0, x, removed_nodes=pops)
            if pth and not any("from_residual" in (eb.blocks[b]["t"].get("callee") or "") for b in pth):
                err_exit_ok = False
    double = any(p2 in eb.reach_from_succ(p1) for p1 in pops for p2 in pops if p1 != p2)
    if pops and err_exit_ok and not double:
        ctx.ok("block|one-pop", eb.where(), "every non-error path passes exactly one pop_scope")
    else:
        ctx.bad("block|one-pop", eb.where(), "a path through exec_block_with_flow pops its scope %s" % ("twice" if double else "zero times"))
    efc = ctx.need("runtime::Runtime::eval_function_call")
    S2 = None
    for cand in sorted(efc.live):
        if efc.blocks[cand]["t"]["k"] == "switch":
            s2 = efc.switch_info(cand)
            if s2["kind"] == "discr" and s2["ty"].endswith("ExecFlow"):
                S2 = cand
    if S2 is not None:
        s2 = efc.switch_info(S2)
        for lab, tgt in efc.succ[S2]:
            for v in label_names(efc, S2, [lab], s2):
                if v == "Continue":
                    aggs = [s["rv"]["variant"] for b in efc.reach([tgt], removed_nodes=[S2]) if efc.edge_dominated(b, S2, [lab]) for s in efc.blocks[b]["s"] if s["rv"]["k"] == "agg" and s["rv"]["adt"].endswith("runtime::Value")]
                    if "Null" in aggs:
                        ctx.ok("call|falls-off-end", efc.where(tgt), "a body that ends without return yields null")
                    else:
                        ctx.bad("call|falls-off-end", efc.where(tgt), "a function body that ends without `return` no longer yields null")


def r8_template_escapes_everywhere(ctx):
    """`{{` and `}}` stand for one brace wherever they occur in a string, the very end included: the look-ahead that recognises
    them is bounded by exactly the position it reads (shared with C07-R2c)."""
    from .c07 import r2c_template_reads_in_bounds
    r2c_template_reads_in_bounds(ctx)


def r9_index_errors_are_classified_in_one_order(ctx):
    """An index that is not a whole number is an Invalid index; a whole number outside the array - negative included - is Index
    out of bounds.  The two places that validate an index value (the read in eval_expr, eval_index_value for writes and
    mutating methods) ask the questions in that order: wherever a function tests an index for wholeness, every Index-out-of-
    bounds answer it gives comes after that test has passed.  Otherwise `a[minus 0.5]` reads as Invalid index and writes as
    Index out of bounds."""
    n = 0
    for fid in ("runtime::Runtime::eval_expr", "runtime::Runtime::eval_index_value"):
        fn = ctx.need(fid)
        ctx.touch(fn)
        whole = [c for c in fn.calls() if (c.callee or "").split("::")[-1] in ("fract", "trunc", "floor", "round") and "f64" in (c.callee or "")]
        if not whole:
            continue
        oob = [c for c in fn.calls() if c.callee == "runtime::RuntimeError::new" and "IndexOutOfBounds" in sh(ne(fn.deep(c.args[0])))]
        for c in oob:
            n += 1
            short = fid.split("::")[-1]
            ordn = sum(1 for r in ctx.records if r["rule"] == ctx.rule and r["instance"].startswith("index-order|%s#" % short))
            if any(fn.dominates(w.block, c.block) for w in whole):
                ctx.ok("index-order|%s#%d" % (short, ordn + 1), fn.where(c.block), "Index out of bounds only after the wholeness test")
            else:
                ctx.bad("index-order|%s|range-before-wholeness" % short, fn.where(c.block), "%s answers Index out of bounds on a path that has not yet tested the index for being a whole number: a negative fraction (`a[minus 0.5] get v`, `a[minus 2.5].push(..)`) is reported as out of bounds here and as Invalid index where the other validator checks it" % short)
    ctx.floor("Index-out-of-bounds answers next to a wholeness test", n, 2)


def r10_built_in_methods_do_what_the_documents_say(ctx):
    """`The documented built-in functions and methods`: shared with C13-R5 (join writes a separator before every element but
    the first, by position) and C13-R7 (the thin string wrappers apply their one library primitive to the whole receiver)."""
    from .c13 import r5_units_and_positions, r7_thin_wrappers_apply_their_primitive_to_everything
    r5_units_and_positions(ctx)
    r7_thin_wrappers_apply_their_primitive_to_everything(ctx)


def r11_pruning_and_typing_leave_results_alone(ctx):
    """What a program prints must not depend on the optimiser or on an over-confident checker.  Shared with C03-R4 (the
    liveness transfer function: a statement's own reads are noted before its own writes, kills before gens), C03-R4f (fact
    sets are deduplicated against themselves) and C09-R11 (a function that can fall off its end may return null: `always
    returns` is a must-analysis, or valid callers are rejected)."""
    from .c03 import r4_dataflow_shape, r4f_a_set_is_deduplicated_against_itself
    from .c09 import r11_always_returns_is_a_must_analysis
    r4_dataflow_shape(ctx)
    r4f_a_set_is_deduplicated_against_itself(ctx)
    r11_always_returns_is_a_must_analysis(ctx)


RULES = [("C01-R1", r1_keyword_chain), ("C01-R2", r2_precedence), ("C01-R3", r3_operator_meaning), ("C01-R4", r4_order_shortcircuit_zero),
         ("C01-R5", r5_builtin_tables), ("C01-R6", r6_truthiness_and_printing), ("C01-R7", r7_loop_control), ("C01-R8", r8_template_escapes_everywhere), ("C01-R9", r9_index_errors_are_classified_in_one_order), ("C01-R10", r10_built_in_methods_do_what_the_documents_say), ("C01-R11", r11_pruning_and_typing_leave_results_alone)]

EXPLANATION = (
    "Thin by design: output equality with a reference semantics over all programs is not decidable in this family (there is no "
    "second interpreter; building one would be differential testing). Decided are the finite tables and orderings through which "
    "the documented semantics enters the code, each a necessary condition (a wrong cell changes the result of a one-line "
    "program): R1 keyword chain (scanner word->Token incl. the three multi-word keywords, Token Display, reserved set); R2 "
    "Token->BinaryOp table, precedence classes, left associativity, prefix/group recursion powers; R3 meaning and operand order "
    "of every operator on numbers, strings, booleans, null (finite-domain partial evaluation of eval_expr); R4 left-before-right "
    "evaluation, short-circuit paths, forward argument order, zero-divisor guard; R5 built-in name/arity/return tables against "
    "the documented signatures, dispatch arm -> implementation, implementation -> std primitive, typeof names; R6 null "
    "falsiness in if/loop, Display literals, shout prints and records; R7 loop-control table. Not decided: everything "
    "compositional, IEEE results, interpolation text."
)
EXPLANATION += (
    ' R8 (= C07-R2c): the look-ahead that recognises the `{{` / `}}` escapes in a template is bounded by exactly the position it reads, so the escapes also work at the very end of a string.'
)
EXPLANATION += (
    ' R9: wherever a function tests an index value for being whole, every Index-out-of-bounds answer it gives is dominated by that test (a negative fraction is an Invalid index for reads and writes alike).'
)
ASSUMPTIONS = ["reference tables in /verif/reference/language.json state the documented surface (docs/*.md); rows marked 'confirmed on ec803c6' are what the suite and the examples assume"]
TRUSTED = ["rustc nightly HIR/MIR", "nsx exporter", "nsverif partial evaluator and pattern evaluator"]
NONTRIVIAL = "one obligation per table cell / operator / path-shape clause; distinct = distinct cell"
EXPLANATION += (
    ' Round 6: R10 shares C13-R5 (join by position) and C13-R7 (thin wrappers); R11 shares C03-R4 / R4f (liveness transfer, fact sets deduplicated against themselves) and C09-R11 (always-returns is a must-analysis): pruning and an over-confident checker must leave results alone.'
)

"""C18 — exceeding an analysis budget only disables optimisation, never correctness."""
import re
from ..mir import parent_fn
from ..flow import origins
from ..guards import ne, sh
from ..mir import show

ANALYSES = [
    "analysis::cfg::build_program_with_counts", "analysis::reachability::reachable_statement_mask",
    "analysis::reachability::unreachable_statements", "analysis::summary::compute_summaries",
    "analysis::liveness::unused_assignments", "analysis::diagnostics::unused_variables",
    "analysis::diagnostics::unused_functions", "analysis::diagnostics::compute_function_reachability",
    "analysis::opt::build_optimization_plan",
]
# cap -> the quantity it bounds (a word that must occur in the observed operand of its comparison)
OBSERVED = {
    "max_functions": "functions", "max_locals": "locals", "max_scopes": "scopes", "max_statements": "stmt_effects",
    "max_total_ops": "total_ops", "max_ops_per_function": "function_ops", "max_total_blocks": "total_blocks",
    "max_blocks_per_function": "function_blocks", "max_direct_user_calls": "user_calls",
    "max_summary_events": "summary_event_bound", "max_liveness_events": "liveness_event_bound",
}


def r1_skip_path(ctx):
    fn = ctx.need("resolver::Resolver::emit_analysis_warnings")
    ctx.touch(fn)
    fel = fn.calls_to("analysis::limits::first_exceeded_limit")
    cnt = fn.calls_to("analysis::cfg::count_program")
    if not fel or not cnt:
        ctx.bad("preflight-missing", fn.where(), "emit_analysis_warnings no longer calls count_program / first_exceeded_limit")
        return
    fel = fel[0]
    # the caps handed over are the crate's DEFAULT_CAPS
    caps_arg = fel.args[2] if len(fel.args) > 2 else None
    if isinstance(caps_arg, dict) and "DEFAULT_CAPS" in str(caps_arg.get("const", "")):
        ctx.ok("default-caps", fn.where(fel.block), "first_exceeded_limit(.., DEFAULT_CAPS)")
    else:
        ctx.bad("default-caps", fn.where(fel.block), "the resolver no longer passes DEFAULT_CAPS to the preflight check (%s)" % show(fn.expr(caps_arg, 3) if caps_arg else ("other", "?")))
    # both run before any analysis
    for a in ANALYSES:
        for c in fn.calls_to(a):
            if not (fn.dominates(fel.block, c.block) and fn.dominates(cnt[0].block, c.block)):
                ctx.bad("analysis-before-preflight|%s" % a, fn.where(c.block), "%s can run before the budget check" % a)
    # the switch on the Option result
    S = None
    for cand in sorted(fn.live):
        if fn.blocks[cand]["t"]["k"] == "switch":
            si = fn.switch_info(cand)
            if si["kind"] == "discr" and si["ty"].endswith("Option") and not si["of"]["p"]:
                o = [d[0] for (bi, k, d) in origins(fn, {"copy": si["of"]}, 4) if k == "call"]
                if "analysis::limits::first_exceeded_limit" in o:
                    S = cand
                    break
    if S is None:
        ctx.bad("no-branch-on-limit", fn.where(), "the result of first_exceeded_limit is not branched on")
        return
    si = fn.switch_info(S)
    from ..panics import label_names
    some = [lab for lab, _ in fn.succ[S] if label_names(fn, S, [lab], si) == {"Some"}]
    none = [lab for lab, _ in fn.succ[S] if label_names(fn, S, [lab], si) == {"None"}]
    some_region = set()
    for lab, tgt in fn.succ[S]:
        if lab in some:
            some_region |= fn.reach([tgt], removed_nodes=[S])
    none_region = set()
    for lab, tgt in fn.succ[S]:
        if lab in none:
            none_region |= fn.reach([tgt], removed_nodes=[S])
    only_some = some_region - none_region
    # (a) no analysis on the Some path
    ran = sorted({c.callee for c in fn.calls() if c.block in some_region and c.callee in ANALYSES})
    if ran:
        ctx.bad("skip-path-runs-analysis|%s" % ",".join(x.split("::")[-1] for x in ran), fn.where(S), "after a budget hit the resolver still runs %s" % ran)
    else:
        ctx.ok("skip-path-runs-no-analysis", fn.where(S), "none of %d analysis entry points is reachable on the limit path" % len(ANALYSES))
    # (b) exactly one diagnostic, a warning
    emits = [c for c in fn.calls() if c.block in only_some and c.callee in ("diagnostics::Diagnostics::emit", "resolver::Resolver::emit_warning", "resolver::Resolver::emit_error")]
    if len(emits) != 1:
        ctx.bad("skip-path-diagnostics|%d" % len(emits), fn.where(S), "the limit path emits %d diagnostics instead of exactly one warning" % len(emits))
    else:
        e = emits[0]
        sev = [show(fn.deep(a)) for a in e.args]
        if e.callee.endswith("emit_error") or any("Severity::Error" in s for s in sev):
            ctx.bad("skip-path-severity", fn.where(e.block), "the resource-limit diagnostic has error severity: the program would be rejected")
        elif e.callee.endswith("emit_warning") or any("Severity::Warning" in s for s in sev):
            ctx.ok("skip-path-one-warning", fn.where(e.block), "exactly one Severity::Warning diagnostic")
        else:
            ctx.bad("skip-path-severity-unknown", fn.where(e.block), "cannot see the severity of the resource-limit diagnostic: %s" % sev)
        # not in a loop
        if e.block in fn.reach_from_succ(e.block):
            ctx.bad("skip-path-emit-in-loop", fn.where(e.block), "the resource-limit diagnostic is emitted in a loop")
    # (c) plan cleared on the Some path, set on the None path
    def plan_writes(region):
        out = []
        for b in sorted(region):
            for s in fn.blocks[b]["s"]:
                if any(isinstance(e, dict) and e.get("f") == "optimization_plan" for e in s["lhs"]["p"]):
                    kinds = [(k, d[1] if k == "agg" else d) for (bi, k, d) in origins(fn, s["rv"]["a"], 4)] if s["rv"]["k"] == "use" else [("agg", s["rv"].get("variant"))]
                    out.append((b, kinds))
        return out
    w_some = plan_writes(only_some)
    if any(all(k == "agg" and v == "None" for k, v in kinds) for b, kinds in w_some):
        ctx.ok("skip-path-plan-none", fn.where(S), "optimization_plan = None on the limit path")
    else:
        ctx.bad("skip-path-plan-not-cleared", fn.where(S), "the limit path does not clear the optimisation plan: a stale/partial plan could prune statements (writes seen: %s)" % w_some)
    if any(any(k == "agg" and v == "Some" for k, v in kinds) for b, kinds in w_some):
        ctx.bad("skip-path-plan-some", fn.where(S), "the limit path installs a plan")
    w_none = plan_writes(none_region - some_region)
    if any(any(k == "agg" and v == "Some" for k, v in kinds) for b, kinds in w_none):
        ctx.ok("normal-path-plan-some", fn.where(S), "plan installed on the normal path")
    else:
        ctx.bad("normal-path-no-plan", fn.where(S), "just below the limits the resolver no longer installs an optimisation plan")
    missing = [a for a in ANALYSES if not [c for c in fn.calls_to(a) if c.block in none_region]]
    if missing:
        ctx.bad("normal-path-missing|%s" % ",".join(m.split("::")[-1] for m in missing), fn.where(S), "the normal path no longer runs %s" % missing)
    else:
        ctx.ok("normal-path-runs-all", fn.where(S), "all %d analysis entry points run below the limits" % len(ANALYSES))


def r2_every_cap_compared(ctx):
    fn = ctx.need("analysis::limits::first_exceeded_limit")
    ctx.touch(fn)
    fields = ctx.lib.fields("analysis::limits::AnalysisCaps")
    found = {}
    for b in sorted(fn.live):
        for k, s in enumerate(fn.blocks[b]["s"]):
            rv = s["rv"]
            if rv["k"] != "bin" or rv["op"] not in ("Gt", "Ge", "Lt", "Le", "Eq", "Ne"):
                continue
            a = sh(ne(fn.deep(rv["a"])))
            bb = sh(ne(fn.deep(rv["b"])))
            for f in fields:
                if ("caps.%s" % f) in bb or ("caps.%s" % f) in a:
                    cap_right = ("caps.%s" % f) in bb
                    found.setdefault(f, []).append((b, rv["op"], a if cap_right else bb, cap_right, s["lhs"]["l"]))
    for f in fields:
        if f not in found:
            ctx.bad("cap-not-compared|%s" % f, fn.where(), "AnalysisCaps.%s is never compared in first_exceeded_limit: that limit rejects nothing" % f)
            continue
        for (b, op, observed, cap_right, dl) in found[f]:
            strict = (op == "Gt" and cap_right) or (op == "Lt" and not cap_right)
            if not strict:
                ctx.bad("cap-operator|%s|%s" % (f, op), fn.where(b), "AnalysisCaps.%s is compared with %s (cap on the %s): a program exactly at the limit is treated as over it (must be observed > limit)" % (f, op, "right" if cap_right else "left"))
                continue
            want = OBSERVED.get(f)
            if want and want not in observed:
                ctx.bad("cap-observed|%s" % f, fn.where(b), "AnalysisCaps.%s is compared against `%s`, not against the quantity it bounds (%s)" % (f, observed, want))
                continue
            # the true outcome returns Some(limit)
            S = None
            for cand in sorted(fn.live):
                t = fn.blocks[cand]["t"]
                if t["k"] == "switch":
                    pl = t["d"].get("move") or t["d"].get("copy")
                    if pl and pl["l"] == dl and fn.dominates(b, cand):
                        S = cand
                        break
            ok = False
            if S is not None:
                for lab, tgt in fn.succ[S]:
                    if lab != 0:
                        # straight-line region until the return: must assign Some to _0
                        r = fn.reach([tgt], removed_nodes=[S])
                        for x in r:
                            for st in fn.blocks[x]["s"]:
                                if st["lhs"]["l"] == 0 and st["rv"]["k"] == "agg" and st["rv"]["variant"] == "Some" and fn.edge_dominated(x, S, [lab]):
                                    ok = True
            if ok:
                ctx.ok("cap|%s" % f, fn.where(b), "Gt(%s, caps.%s) -> Some(limit)" % (observed, f))
            else:
                ctx.bad("cap-outcome|%s" % f, fn.where(b), "exceeding AnalysisCaps.%s does not lead to Some(AnalysisLimit)" % f)
    ctx.floor("AnalysisCaps fields", len(fields), 11)


def r3_no_plan_runs_everything(ctx):
    """Without a plan the runtime prunes nothing (shared with C03-R3)."""
    for fid in ("runtime::Runtime::stmt_is_pruned", "runtime::Runtime::function_is_pruned"):
        fn = ctx.need(fid)
        ctx.touch(fn)
        ok = any((c.callee or "").endswith("Option::is_some_and") for c in fn.calls())
        src = any((c.callee or "").endswith("Runtime::optimization_plan") for c in fn.calls())
        if ok and src:
            ctx.ok("no-plan|%s" % fid.split("::")[-1], fn.where(), "optimization_plan().is_some_and(..): false without a plan")
        else:
            ctx.bad("no-plan|%s" % fid.split("::")[-1], fn.where(), "%s no longer answers through optimization_plan().is_some_and(..)" % fid)


def r3b_facts_independent_of_plan(ctx):
    """Binding facts are installed whether or not a plan exists: the limit path only loses the plan."""
    f = ctx.need("runtime::Runtime::run_with_analysis")
    ctx.touch(f)
    installs = []
    for b in sorted(f.live):
        for s in f.blocks[b]["s"]:
            if any(isinstance(e, dict) and e.get("f") == "facts" for e in s["lhs"]["p"]):
                src = sh(ne(f.deep_rvalue(s["rv"])))
                if "Some" in src and "facts" in src:
                    installs.append(b)
    runs = [c for c in f.calls() if c.callee in ("runtime::Runtime::run_inner", "runtime::Runtime::run", "runtime::Runtime::exec_block_with_flow")]
    if not runs:
        ctx.bad("facts|no-run", f.where(), "run_with_analysis no longer executes the program")
        return
    for c in runs:
        if any(f.dominates(b, c.block) for b in installs):
            ctx.ok("facts|installed-before-run", f.where(c.block), "self.facts = Some(facts) dominates %s" % c.callee.split("::")[-1])
        else:
            ctx.bad("facts|not-installed|%s" % c.callee.split("::")[-1], f.where(c.block),
                    "run_with_analysis can execute the program (%s) without installing the binding facts: with no plan (the resource-limit path) names are resolved by the dynamic name fallback instead of the resolver's bindings" % c.callee.split("::")[-1])


def tree_has(e, word):
    return word in sh(e)


def coupled(e, a, b):
    """Is there a multiplication node one of whose operands mentions `a` and the other `b`?"""
    if not isinstance(e, tuple):
        return False
    if e[0] == "call" and e[1].split("::")[-1] in ("saturating_mul", "wrapping_mul", "checked_mul", "mul") and len(e[2]) == 2:
        x, y = e[2]
        if (tree_has(x, a) and tree_has(y, b)) or (tree_has(x, b) and tree_has(y, a)):
            return True
    if e[0] == "bin" and e[1] in ("Mul", "MulWithOverflow"):
        x, y = e[2], e[3]
        if (tree_has(x, a) and tree_has(y, b)) or (tree_has(x, b) and tree_has(y, a)):
            return True
    for x in e[1:]:
        if isinstance(x, tuple) and coupled(x, a, b):
            return True
        if isinstance(x, (list, tuple)):
            for y in x:
                if isinstance(y, tuple) and coupled(y, a, b):
                    return True
    return False


def r2b_derived_bounds_shape(ctx):
    """The derived work bounds grow with the product of their factors (summary: functions x locals;
    liveness: (blocks, ops) x locals).  Idiom check on the expression tree: an additive regrouping underestimates."""
    sb = ctx.need("analysis::limits::summary_event_bound")
    ctx.touch(sb)
    ret = None
    for b in sorted(sb.live):
        t = sb.blocks[b]["t"]
        if t["k"] == "call" and t["dest"]["l"] == 0:
            ret = ne(sb.deep({"copy": {"l": 0, "p": []}}))
        for s in sb.blocks[b]["s"]:
            if s["lhs"]["l"] == 0 and not s["lhs"]["p"]:
                ret = ne(sb.deep_rvalue(s["rv"]))
    if ret is None:
        ctx.bad("summary-bound|shape", sb.where(), "cannot reconstruct the summary event bound")
    elif coupled(ret, "functions", "locals") and coupled(ret, "functions", "functions"):
        ctx.ok("summary-bound|functions-x-locals", sb.where(), "bound multiplies the function count with a term in locals and in functions")
    else:
        ctx.bad("summary-bound|not-multiplicative", sb.where(), "the summary event bound `%s` no longer multiplies the function count with the per-function growth (functions + 2*locals + 2): programs above the intended limit are analysed" % sh(ret)[:160])
    lb = ctx.lib.fns.get("analysis::limits::liveness_event_bound::{closure#0}")
    if lb is not None:
        ctx.touch(lb)
        muls = [c for c in lb.calls() if (c.callee or "").split("::")[-1] in ("saturating_mul", "wrapping_mul", "checked_mul")]
        def mentions(c, word):
            return any(word in sh(ne(lb.deep(a))) for a in c.args)
        # one factor is the per-function work (a sum over the block and op counts of the zipped tuple), the other the
        # function's local count (local_range end - start)
        good = [c for c in muls if mentions(c, "local_range") and any("saturating_add" in sh(ne(lb.deep(a))) or "Add(" in sh(ne(lb.deep(a))) for a in c.args if "local_range" not in sh(ne(lb.deep(a))))]
        if good:
            ctx.ok("liveness-bound|work-x-locals", lb.where(), "per-function events multiplied by the local count")
        else:
            ctx.bad("liveness-bound|not-multiplicative", lb.where(), "the liveness event bound no longer multiplies per-function work with the number of locals")
        # ... and the local count is the number of locals itself: the cap it is compared with is calibrated in locals (bits of
        # a live set), so a count converted to 64-bit words makes the preflight 64 times too lenient and liveness then
        # allocates more bit-set memory than the arena holds
        for c in good[:1]:
            fac = [sh(ne(lb.deep(a, 12))) for a in c.args if "local_range" in sh(ne(lb.deep(a, 12)))]
            scaled = [f for f in fac if re.search(r"div_ceil|next_multiple_of|word_count|\bDiv\(|\bShr\(|\bMul\(", f)]
            if fac and not scaled:
                ctx.ok("liveness-bound|locals-unit", lb.where(), "local count = local_range.end - local_range.start")
            else:
                ctx.bad("liveness-bound|locals-unit|%s" % (re.findall(r"div_ceil|next_multiple_of|word_count|Div|Shr|Mul", scaled[0])[0] if scaled else "?"), lb.where(), "the local factor of the liveness event bound is `%s`, not the number of locals: the cap max_liveness_events is calibrated in locals, so the limit trips 64 times too late and the analysis exhausts the arena on a program the preflight should have turned away" % (scaled[0][:70] if scaled else fac))
        # the cost model (stated in the function): a sweep touches two block-sized sets per *block*, the backward walk one
        # set per *op*.  The per-function counts arrive as a zipped pair; the doubled component must be the one zipped from
        # function_blocks, the other the one from function_ops (both are u32: a swap still compiles).
        par = ctx.need("analysis::limits::liveness_event_bound")
        ctx.touch(par)
        zips = [c for c in par.calls() if (c.callee or "").split("::")[-1] == "zip"]
        comp = {}
        if zips:
            a0, a1 = sh(ne(par.deep(zips[0].args[0]))), sh(ne(par.deep(zips[0].args[1])))
            for i, t in ((0, a0), (1, a1)):
                comp[i] = "blocks" if "function_blocks" in t else "ops" if "function_ops" in t else "?"
        doubled, plain = set(), set()
        for c in lb.calls():
            last = (c.callee or "").split("::")[-1]
            if last in ("saturating_mul", "wrapping_mul", "checked_mul"):
                texts = [sh(ne(lb.deep(a))) for a in c.args]
                if "2" in texts:
                    for t in texts:
                        m = re.search(r"arg\d\.1\.(\d)", t)
                        if m:
                            doubled.add(int(m.group(1)))
            if last in ("saturating_add", "wrapping_add", "checked_add"):
                for a in c.args:
                    t = sh(ne(lb.deep(a)))
                    m = re.match(r"^(?:from\()?\*?arg\d\.1\.(\d)\)?$", t)
                    if m:
                        plain.add(int(m.group(1)))
        if not zips or "?" in comp.values() or not doubled:
            ctx.bad("liveness-bound|cost-model|shape", lb.where(), "cannot see which per-function count is doubled in the liveness event bound (zip %s, doubled %s)" % (comp, sorted(doubled)))
        elif {comp.get(i) for i in doubled} == {"blocks"} and {comp.get(i) for i in plain} <= {"ops"}:
            ctx.ok("liveness-bound|cost-model", lb.where(), "2 x blocks + ops per function")
        else:
            ctx.bad("liveness-bound|cost-model|%s" % "+".join(sorted(comp.get(i, "?") for i in doubled)), lb.where(), "the liveness event bound doubles the %s count and adds the %s count once; the work it has to bound is two set operations per block and one per op. For straight-line code the bound is twice too high (programs within the limit lose their analysis), for branchy code too low (programs over the limit are analysed)" % ("/".join(sorted(comp.get(i, "?") for i in doubled)), "/".join(sorted(comp.get(i, "?") for i in plain)) or "?"))


def r4_caps_only_gate_the_analyses(ctx):
    """The limits are consulted where the decision "analyse or skip" is taken - the preflight, the summary budget, the place
    that reports the skip - and nowhere else.  In particular nothing that *records* resolution facts (the binding tables the
    runtime dispatches on) looks at a cap: a program over a limit is resolved exactly like one under it."""
    import json as _json
    from ..mir import fields_read
    ALLOWED = {
        "analysis::limits::first_exceeded_limit": "the preflight itself",
        "analysis::summary::compute_summaries": "budget of the summary fixpoint (its exhaustion marks summaries unavailable)",
        "resolver::Resolver::emit_analysis_warnings": "decides between running the analyses and reporting the skip",
        "analysis::limits::summary_event_bound": "derived bound used by the preflight",
        "analysis::limits::liveness_event_bound": "derived bound used by the preflight",
    }
    readers = {}
    for fid, fn in ctx.lib.fns.items():
        pid = parent_fn(fid)
        if "as std::fmt::Debug" in pid or "as std::clone::Clone" in pid or "as std::cmp::PartialEq" in pid:
            continue
        rd = fields_read(fn, "AnalysisCaps")
        uses_default = "DEFAULT_CAPS" in _json.dumps(fn.m["blocks"])
        if rd or uses_default:
            readers.setdefault(pid, set()).update(rd or {"DEFAULT_CAPS"})
    for pid, what in sorted(readers.items()):
        f = ctx.lib.fns.get(pid)
        if f is not None:
            ctx.touch(f)
        if pid in ALLOWED:
            ctx.ok("caps-reader|%s" % pid.split("::")[-1], f.where() if f else "", ALLOWED[pid])
        else:
            ctx.bad("caps-reader|%s" % pid, f.where() if f else "src", "%s consults the analysis limits (%s): only the preflight, the summary budget and the skip report may. A routine that records resolution facts and stops at a limit leaves the binding tables incomplete, so an over-limit program is no longer resolved like a smaller one (calls fall back to by-name lookup on the run-time scope stack)" % (pid, sorted(what)[:3]))
    ctx.floor("bodies that consult the analysis limits", len(readers), 3)


def r5_fallback_marks_every_local(ctx):
    """When a callee's summary is unavailable (budget exhausted) liveness falls back to "the call may read everything":
    set_all_locals has to cover every local of the range, whatever its size.  Its word arithmetic is that of the other
    bit-set helpers (shared with C03-R4d: same word width, the count itself is what is divided)."""
    from .c03 import r4d_bitset_arithmetic_agrees
    r4d_bitset_arithmetic_agrees(ctx)
    # the unused-variable report has the same fallback: a call whose summary is unavailable may read every variable of the
    # function *making* the call (that is where the variables a callee can capture live) - not those of the callee, whose own
    # locals nobody else can read.  With the callee's, budget exhaustion adds `never read` warnings instead of only removing them.
    n = 0
    for fn in ctx.lib.fns.values():
        if not fn.file.startswith("src/analysis/"):
            continue
        for c in fn.calls():
            if not (c.callee or "").endswith("::mark_function_locals_used") or len(c.args) < 3:
                continue
            n += 1
            ctx.touch(fn)
            who = sh(ne(fn.deep(c.args[2], 14)))
            gated = any(si["kind"] in ("place", "un", "field") or "available" in sh(ne(fn.deep(fn.blocks[S]["t"]["d"], 6))) for S, al in fn.constraints(c.block) for si in [fn.switch_info(S)])
            if "direct_callees" in who or "callee" in who:
                ctx.bad("fallback|unused-variables|marks-callee", fn.where(c.block), "when a callee's summary is unavailable, %s marks the locals of `%s` (the callee) as read instead of those of the calling function: a variable read only through that call is reported as never read" % (parent_fn(fn.id).split("::")[-1], who[:60]))
            elif ".function" in who or who.endswith("function"):
                ctx.ok("fallback|unused-variables|marks-caller", fn.where(c.block), "marks the locals of %s" % who[:50])
            else:
                ctx.bad("fallback|unused-variables|marks|%s" % who[:24], fn.where(c.block), "the fallback marks the locals of `%s`, not of the function being scanned" % who[:60])
    ctx.floor("summary-unavailable fallbacks of the unused-variable report", n, 1)


def r6_budget_charges_growth_only(ctx):
    """The preflight bound on summary work counts *growth*: each of the F summaries can gain at most F + 2L + 2 entries.  The
    run-time budget it is compared with must be charged the same way - one event per entry actually added - or a program the
    preflight admits exhausts the budget half-way (its summaries become unavailable and the analysis results silently vanish,
    with no resource-limit warning).  In push_unique_bounded the charge is reached only when the item was not there yet."""
    fn = ctx.lib.fns.get("analysis::summary::push_unique_bounded")
    if fn is None:
        ctx.bad("charge|anchor", "", "analysis::summary::push_unique_bounded not found: re-audit how the summary budget is charged")
        return
    ctx.touch(fn)
    charges = [c for c in fn.calls() if (c.callee or "").endswith("SummaryBudget::note_event")]
    dup = None
    for S in sorted(fn.live):
        if fn.blocks[S]["t"]["k"] != "switch":
            continue
        si = fn.switch_info(S)
        if si["kind"] == "call" and (si["callee"] or "").split("::")[-1] in ("contains", "any", "iter_any"):
            dup = S
    if not charges or dup is None:
        ctx.bad("charge|shape", fn.where(), "push_unique_bounded no longer has both a membership test and a budget charge")
        return
    for c in charges:
        if fn.edge_dominated(c.block, dup, [0]):
            ctx.ok("charge|growth-only", fn.where(c.block), "note_event() only on the path on which the item is new")
        else:
            ctx.bad("charge|before-dedupe", fn.where(c.block), "the summary budget is charged before (or regardless of) the membership test: duplicates offered to a summary set cost events too, while the preflight bound counts only growth - call cycles exhaust the run-time budget of a program the preflight admitted, and its analysis is dropped without the resource-limit warning")
    # and the push happens only after a successful charge
    pushes = [c for c in fn.calls() if (c.callee or "").endswith("Vec::push")]
    for c in pushes:
        if any(fn.dominates(ch.block, c.block) for ch in charges):
            ctx.ok("charge|push-after-charge", fn.where(c.block), "the entry is added only after the charge succeeded")
        else:
            ctx.bad("charge|push-uncharged", fn.where(c.block), "an entry is added to a summary set without charging the budget")


def r7_bit_sets_are_sized_in_words(ctx):
    """A liveness bit set over n locals has ceil(n / 64) words - that is what the liveness event bound prices (one event per
    word operation) and what the index arithmetic of the helpers needs.  new_bitset asks word_count(n) for its length; n words
    (one per local) still index correctly but cost 64 times the memory, and programs in the upper half of the liveness limit
    exhaust the arena instead of being analysed or skipped."""
    fn = ctx.need("analysis::liveness::new_bitset")
    ctx.touch(fn)
    rs = [c for c in fn.calls() if (c.callee or "").split("::")[-1] in ("resize", "resize_with", "from_elem_in", "extend")]
    if not rs:
        ctx.bad("bitset-size|shape", fn.where(), "new_bitset no longer sizes its vector with resize")
        return
    for c in rs:
        t = sh(ne(fn.deep(c.args[1]))).replace(" ", "")
        if re.match(r"^word_count\(\w+\)$", t) or re.match(r"^div_ceil\(\w+,64\)$", t) or re.match(r"^Div\(Add\(\w+,63\),64\)$", t):
            ctx.ok("bitset-size|words", fn.where(c.block), "length %s" % t)
        else:
            ctx.bad("bitset-size|%s" % t[:30], fn.where(c.block), "a liveness bit set is created with `%s` words instead of word_count(n) = ceil(n / 64): each set is up to 64 times larger than the liveness bound assumes, so a program well inside the limit runs the arena out of memory (abort) instead of being analysed" % t)
    # the reservation as well: a capacity counted in locals while the length stays in words changes no result and takes 64
    # times the memory from an arena that the CLI shares with the running program
    for c in [c for c in fn.calls() if (c.callee or "").split("::")[-1] in ("with_capacity_in", "with_capacity", "reserve", "reserve_exact")]:
        t = sh(ne(fn.deep(c.args[0] if (c.callee or "").split("::")[-1].startswith("with_capacity") else c.args[1]))).replace(" ", "")
        if re.match(r"^word_count\(\w+\)$", t) or re.match(r"^div_ceil\(\w+,64\)$", t) or re.match(r"^Div\(Add\(\w+,63\),64\)$", t):
            ctx.ok("bitset-capacity|words", fn.where(c.block), "capacity %s" % t)
        else:
            ctx.bad("bitset-capacity|%s" % t[:30], fn.where(c.block), "a liveness bit set reserves `%s` words where it uses word_count(n): the results are the same and every set takes up to 64 times the memory - in the CLI, whose runtime frames sit on top of the resolver's scratch arena, a program that needs most of the arena aborts although the library pipeline with separate arenas runs it" % t)
    wc = ctx.need("analysis::liveness::word_count")
    ctx.touch(wc)
    t = " ".join(sh(ne(wc.deep_rvalue(st["rv"]))) for b in sorted(wc.live) for st in wc.blocks[b]["s"] if st["lhs"]["l"] == 0) + " " + " ".join(sh(ne(wc.deep(c.args[0]))) + c.callee.split("::")[-1] for c in wc.calls())
    if re.search(r"div_ceil|Div\(Add\(.*63\),\s*64\)|Div\(Add\(.*Sub\(64,1\)\)", t.replace(" ", "")) or ("div_ceil" in " ".join((c.callee or "") for c in wc.calls())):
        ctx.ok("bitset-size|word_count", wc.where(), "word_count rounds up to whole 64-bit words")
    else:
        ctx.bad("bitset-size|word_count-shape", wc.where(), "word_count no longer computes ceil(n / 64) in a recognised form (%s)" % t[:80])


def r8_the_warning_names_its_numbers(ctx):
    """`the only differences are a single resource-limit warning`: that warning says which metric was exceeded, what was
    observed and what the limit is.  The operands handed to its format string follow the order of the words in the template
    (`observed {}` gets .observed, `limit {}` gets .limit); both are integers of one type, so the swap type-checks."""
    fn = ctx.need("resolver::Resolver::emit_analysis_warnings")
    ctx.touch(fn)
    done = False
    for c in fn.calls():
        if not (c.callee or "").endswith("Arguments::new"):
            continue
        tmpl = sh(ne(fn.deep(c.args[0], 4)))
        if "observed" not in tmpl or "limit" not in tmpl:
            continue
        # the tuple of operands
        order = None
        for b in sorted(fn.live):
            for st in fn.blocks[b]["s"]:
                rv = st["rv"]
                if rv["k"] == "agg" and "tuple" in str(rv.get("adt", "")).lower() and len(rv["ops"]) >= 3:
                    names = [sh(ne(fn.deep(o, 10))) for o in rv["ops"]]
                    tails = [re.sub(r".*\.", "", x) for x in names]
                    if "observed" in tails and "limit" in tails:
                        order = tails
        if order is None:
            continue
        done = True
        words = [w for w in re.findall(r"(observed|limit)\s*\\xc0", tmpl)]
        ops = [t for t in order if t in ("observed", "limit")]
        if words == ops:
            ctx.ok("limit-warning|operands", fn.where(c.block), "template %s <- %s" % (words, ops))
        else:
            ctx.bad("limit-warning|operands|%s" % ",".join(ops), fn.where(c.block), "the resource-limit warning prints %s where its text says %s: the observed size and the limit are exchanged (`observed 65536, limit 65537` for a program of 65537 blocks)" % (ops, words))
    if not done:
        ctx.bad("limit-warning|anchor", fn.where(), "the resource-limit warning's format call was not found in emit_analysis_warnings")


def r9_what_is_pruned_below_a_limit_would_not_have_mattered(ctx):
    """Above a limit nothing is pruned; below it the plan is in force.  The two runs print the same only if the plan removes
    nothing observable - which is C03.  The clauses of C03 that seeded changes have shown to make exactly this difference
    visible across a limit are run here too: C03-R1 (stmt_effective_class folds every direct callee's *transitive* class) and
    C03-R4 (the liveness transfer: kills before gens, own reads before own writes, transitive capture sets in both passes)."""
    from .c03 import r1_plan_only_from_pure, r4_dataflow_shape
    r1_plan_only_from_pure(ctx)
    r4_dataflow_shape(ctx)


RULES = [("C18-R1", r1_skip_path), ("C18-R2", r2_every_cap_compared), ("C18-R2b", r2b_derived_bounds_shape), ("C18-R3", r3_no_plan_runs_everything), ("C18-R3b", r3b_facts_independent_of_plan), ("C18-R4", r4_caps_only_gate_the_analyses), ("C18-R5", r5_fallback_marks_every_local), ("C18-R6", r6_budget_charges_growth_only), ("C18-R7", r7_bit_sets_are_sized_in_words), ("C18-R8", r8_the_warning_names_its_numbers), ("C18-R9", r9_what_is_pruned_below_a_limit_would_not_have_mattered)]

EXPLANATION = (
    "R1: in Resolver::emit_analysis_warnings the preflight count and first_exceeded_limit(.., DEFAULT_CAPS) dominate every "
    "analysis entry point; on the Some(limit) outcome none of the nine analysis entry points is reachable, exactly one "
    "diagnostic of Severity::Warning is emitted and optimization_plan is set to None; on the None outcome all analyses run and "
    "a plan is installed. R2: each of the AnalysisCaps fields is read in first_exceeded_limit and compared strictly "
    "(observed > limit) against the quantity it bounds, and the true outcome returns Some(limit). R3: without a plan the "
    "runtime's pruning predicates answer false. Decides the shape of the skip path and the coverage/strictness of the caps; "
    "does not decide result equality just below / at / above each default cap (would need 262 144-statement programs to run)."
)
EXPLANATION += (
    " Added after a seeded change was missed: R4 the analysis limits (fields of AnalysisCaps, DEFAULT_CAPS) are read only by the preflight, the summary budget and the routine that reports the skip; nothing that records resolution facts consults a cap, so an over-limit program is resolved like a smaller one."
)
EXPLANATION += (
    " R6: the summary budget is charged only for growth - in push_unique_bounded the charge is edge-dominated by the 'not yet contained' outcome and the push by the charge - which is what the preflight bound assumes. R7: a liveness bit set has word_count(n) = ceil(n / 64) words, the quantity the liveness bound prices."
)
ASSUMPTIONS = ["the only budget preflight is Resolver::emit_analysis_warnings (who-may-call of first_exceeded_limit is checked by the floor)"]
TRUSTED = ["rustc nightly MIR", "nsx exporter", "nsverif region/edge-dominance computation"]
NONTRIVIAL = "one obligation per cap field and per clause of the skip path; distinct = distinct clause/cap"
EXPLANATION += (
    " R5 also covers the unused-variable report's fallback (it marks the locals of the calling function, not of the callee). R8: the operands of the resource-limit warning follow the words of its template (observed, then limit)."
)
EXPLANATION += (
    " Round 6: R2b also fixes the unit of the liveness bound's local factor (locals, not 64-bit words); R9 shares C03-R1 and C03-R4 (what is pruned below a limit would not have mattered)."
)
